import ArgMapper.Proofs.WalkPanicStatic
import ArgMapper.Proofs.CompleteAcyclicStatic
import ArgMapper.Props.C06
/-!
# Completeness with the full label language (helper lemmas for C05c)

The outcome of `callWith` is one of eight; `WalkPanic.core` excludes `panic finalValue`,
`panic setNotAssignable` and `missingArg`; this file excludes the rest, each by a separate argument:

* `callWith_no_fuel`: fuel that covers the function vertices is never exhausted (C06);
* `reach_no_panic3` (`Termination.reach_panic3`): the three remaining panic sites, once every function vertex
  of the pruned graph is known to have a function object (`std_funcOf_isSome`);
* `reach_no_unsat_rank`: in an acyclic graph no path to a requirement of a function being resolved contains
  that function or one further up the resolution stack (ranks), so `reachTarget` never reports an
  unsatisfied argument;
* `single_no_unsat`: for converters with at most one input, in a graph without R6 edges, the requirement of
  a converter met on a path directly precedes it and holds a value, so its nested search returns at once.
-/
set_option linter.unusedSectionVars false
set_option linter.unusedVariables false
namespace ArgMapper.CompleteLegal
open ArgMapper WalkEqs ReachSound Complete

def IsUnsat (e : RErr) : Prop := ∃ l, e = .unsat l

/-! ### where an unsatisfied-argument error of the walk comes from -/

theorem walkStep_unsat (c : Ctx) (rec : Vtx → CallSt → Except RErr ArgMap × CallSt) (w : WalkSt) (v : Vtx)
    (hw : ∀ e, w.err = some e → ¬ IsUnsat e)
    (hv : w.err = none → ∀ k, v = .func k → ∀ e s', rec v w.s = (.error e, s') → ¬ IsUnsat e) :
    ∀ e, (walkStep c rec w v).err = some e → ¬ IsUnsat e := by
  cases herr : w.err with
  | some e => rw [walkStep_err c rec herr]; exact hw
  | none =>
    have hv := hv herr
    cases v with
    | root => rw [walkStep_root c rec herr]; exact hw
    | value n t u => rw [walkStep_value c rec herr]; exact hw
    | arg t u => rw [walkStep_arg c rec herr]; exact hw
    | out t u => rw [walkStep_out c rec herr]; exact hw
    | func k =>
      cases hf : c.funcOf k with
      | none =>
        rw [walkStep_func_none c rec herr k hf]
        intro e he; cases he
        rintro ⟨l, h⟩; cases h
      | some f =>
        rcases hrs : rec (Vtx.func k) w.s with ⟨e | am, s1⟩
        · rw [walkStep_func_recErr c rec herr k hf hrs]
          intro e' he'; cases he'
          exact hv k rfl e s1 hrs
        · rcases hcs : callDirect c f am s1 with ⟨e | ⟨r, unw⟩, s2⟩
          · rw [walkStep_func_cdErr c rec herr k hf hrs hcs]
            intro e' he'; cases he'
            rcases Termination.callDirect_err c f am s1 e (by rw [hcs]) with rfl | rfl <;>
              (rintro ⟨l, h⟩; cases h)
          · cases hre : r.err with
            | some ε =>
              rw [walkStep_func_funcErr c rec herr k hf hrs hcs hre]
              intro e' he'; cases he'
              rintro ⟨l, h⟩; cases h
            | none =>
              cases hov : outputValues c f r unw s2 with
              | error e =>
                rw [walkStep_func_outErr c rec herr k hf hrs hcs hre hov]
                intro e' he'; cases he'
                obtain ⟨rfl, _⟩ := Termination.outputValues_err _ _ _ _ _ _ hov
                rintro ⟨l, h⟩; cases h
              | ok s3 =>
                rw [walkStep_func_ok c rec herr k hf hrs hcs hre hov]
                intro e' he'
                exact hw e' he'

/-- state-independent version: no function vertex of the paths has a nested search that reports an
unsatisfied argument -/
theorem walkPaths_unsat (c : Ctx) (rec : Vtx → CallSt → Except RErr ArgMap × CallSt) (ps : List (List Vtx))
    (hp : ∀ p ∈ ps, ∀ v ∈ p, ∀ k, v = .func k → ∀ s e s', rec v s = (.error e, s') → ¬ IsUnsat e)
    (am : ArgMap) (s : CallSt) :
    ∀ e, (walkPaths c rec ps am s).1 = .error e → ¬ IsUnsat e := by
  induction ps generalizing am s with
  | nil => intro e h; cases h
  | cons p rest ih =>
    unfold walkPaths
    have hw : ∀ (q : List Vtx) (w : WalkSt), (∀ v ∈ q, v ∈ p) → (∀ e, w.err = some e → ¬ IsUnsat e) →
        ∀ e, (q.foldl (walkStep c rec) w).err = some e → ¬ IsUnsat e := by
      intro q
      induction q with
      | nil => intro w _ h; exact h
      | cons v q ihq =>
        intro w hq h
        rw [List.foldl_cons]
        exact ihq _ (fun u hu => hq u (List.mem_cons_of_mem _ hu))
          (walkStep_unsat c rec w v h (fun _ k hk e s' he => hp p (by simp) v (hq v (by simp)) k hk w.s e s' he))
    have hw' := hw p { s := s, final := none, prev := none, err := none } (fun _ h => h) (fun e he => by cases he)
    generalize p.foldl (walkStep c rec) { s := s, final := none, prev := none, err := none } = w at hw'
    dsimp only
    split
    · rename_i e he
      intro e' he'
      cases he'
      exact hw' e he
    · split
      · exact ih (fun q hq => hp q (List.mem_cons_of_mem _ hq)) _ _
      · intro e' he'; cases he'
        rintro ⟨l, h⟩; cases h

/-! ### `callWith`: where its outcomes come from -/

theorem callWith_unsat (c : Ctx) (cgr : CallGraphResult) (target : FuncDesc) (fuel : Nat) (s0 : CallSt)
    (a : List Label) (fg : Bool) (h : (callWith c cgr target fuel s0).1 = .unsat a fg) :
    cgr.unsat ≠ [] ∨ (reach c false fuel [] cgr.target s0).1 = .error (.unsat a) := by
  unfold callWith at h
  split at h
  · rename_i hne
    left
    intro h0
    rw [h0] at hne
    simp at hne
  · right
    rcases hres : reach c false fuel [] cgr.target s0 with ⟨e | am, s⟩
    · rw [hres] at h
      cases e <;> simp only [reduceCtorEq] at h
      · simp only [Outcome.unsat.injEq] at h
        rw [h.1]
    · rw [hres] at h
      dsimp only at h
      rcases hcs : callDirect c target am s with ⟨e | ⟨r, u⟩, s2⟩
      · rw [hcs] at h
        cases e <;> simp at h
      · rw [hcs] at h
        dsimp only at h
        split at h <;> cases h

theorem callWith_panic (c : Ctx) (cgr : CallGraphResult) (target : FuncDesc) (fuel : Nat) (s0 : CallSt)
    (k : PanicKind) (h : (callWith c cgr target fuel s0).1 = .panic k) :
    (reach c false fuel [] cgr.target s0).1 = .error (.panic k) ∨ k = .setNotAssignable := by
  unfold callWith at h
  split at h
  · cases h
  · rcases hres : reach c false fuel [] cgr.target s0 with ⟨e | am, s⟩
    · rw [hres] at h
      cases e <;> simp only [reduceCtorEq] at h
      · simp only [Outcome.panic.injEq] at h
        left; rw [h]
    · rw [hres] at h
      dsimp only at h
      rcases hcs : callDirect c target am s with ⟨e | ⟨r, u⟩, s2⟩
      · rw [hcs] at h
        rcases Termination.callDirect_err c target am s e (by rw [hcs]) with rfl | rfl
        · simp at h
        · simp only [Outcome.panic.injEq] at h
          right; exact h.symm
      · rw [hcs] at h
        dsimp only at h
        split at h <;> cases h

/-- the four remaining outcomes -/
theorem outcome_cases (o : Outcome) (h1 : ∀ a fg, o ≠ .unsat a fg) (h2 : o ≠ .missingArg)
    (h3 : ∀ k, o ≠ .panic k) (h4 : o ≠ .outOfFuel) :
    (∃ res, o = .ok res) ∨ (∃ ε, o = .convErr ε) ∨ (∃ ε res, o = .targetErr ε res) ∨ (∃ w, o = .badOracle w) := by
  cases o with
  | ok res => exact Or.inl ⟨res, rfl⟩
  | unsat a fg => exact absurd rfl (h1 a fg)
  | convErr ε => exact Or.inr (Or.inl ⟨ε, rfl⟩)
  | targetErr ε res => exact Or.inr (Or.inr (Or.inl ⟨ε, res, rfl⟩))
  | missingArg => exact absurd rfl h2
  | panic k => exact absurd rfl (h3 k)
  | outOfFuel => exact absurd rfl h4
  | badOracle w => exact Or.inr (Or.inr (Or.inr ⟨w, rfl⟩))

/-! ### fuel -/

theorem callWith_no_fuel (c : Ctx) (htr : c.trackReaching = true) (hwf : c.g.WF)
    (cgr : CallGraphResult) (target : FuncDesc) (htv : cgr.target = .func target.key)
    (m : Nat) (hfuel : (c.g.verts.filter Vtx.isFunc).length ≤ m) (s0 : CallSt) :
    (callWith c cgr target (m + 1) s0).1 ≠ .outOfFuel := by
  intro h
  have h' := Termination.callWith_outOfFuel c cgr target (m + 1) s0 h
  rw [htv] at h'
  refine Termination.reach_succ_ok c Termination.IsFuel (Termination.safe_fuel c) hwf false m []
    (.func target.key) s0 ?_ ?_ _ h' rfl
  · intro k _ _ h; cases h
  · intro k hk hnr st e he hb
    cases hb
    refine Termination.reach_fuel c htr hwf false m [.func target.key] (.func k) st hk rfl (hnr htr) ?_ he
    exact Nat.le_trans (CompleteAcyclic.measure_cons_le _ _ _)
      (Nat.le_trans (CompleteAcyclic.measure_nil_le _) hfuel)

/-! ### the rank argument: no unsatisfied argument in an acyclic graph -/

theorem path_rank (c : Ctx) (rank : Vtx → Nat)
    (hacyc : ∀ x y, c.g.hasEdge x y = true → rank y < rank x) (cur : Vtx) (p : List Vtx)
    (h : validPath c.g cur p = true) : ∀ v ∈ p, rank v ≤ rank cur := by
  simp only [validPath, Bool.and_eq_true, beq_iff_eq] at h
  obtain ⟨⟨⟨_, hhead⟩, hlast⟩, hpath⟩ := h
  cases p with
  | nil => simp at hhead
  | cons a rest =>
    simp only [List.head?_cons, Option.some.injEq] at hhead
    subst hhead
    exact CompleteAcyclic.chain_rank c.g rank hacyc rest .root (chain_of_isPathB c.g rest .root hpath) cur hlast

theorem reach_no_unsat_rank (c : Ctx) (htr : c.trackReaching = true) (rank : Vtx → Nat)
    (hacyc : ∀ x y, c.g.hasEdge x y = true → rank y < rank x) (n : Nat) :
    ∀ (reaching : List Vtx) (k : Nat) (s : CallSt), (∀ r ∈ reaching, rank (.func k) < rank r) →
      ∀ e, (reach c false n reaching (.func k) s).1 = .error e → ¬ IsUnsat e := by
  induction n with
  | zero =>
    intro reaching k s _ e h
    simp only [reach, Except.error.injEq] at h
    subst h
    rintro ⟨l, h⟩; cases h
  | succ n ih =>
    intro reaching k s hreach
    unfold reach
    dsimp only
    have hmiss : ∀ cur ∈ (c.g.outs (.func k)).filter (fun v => !(v == Vtx.root || takenAsIs c s v)),
        rank cur < rank (.func k) := by
      intro cur hcur
      exact hacyc _ _ (hasEdge_of_mem_outs _ _ _ (List.mem_filter.1 hcur).1)
    generalize (c.g.outs (.func k)).filter (fun v => !(v == Vtx.root || takenAsIs c s v)) = missingM at hmiss
    generalize (if c.skipRecordsInput then
        ((c.g.outs (.func k)).filter (fun v => v == Vtx.root || takenAsIs c s v)).foldl CallSt.addInput s else s) = s1
    have nb : ∀ w, ¬ IsUnsat (.badOracle w) := fun w => by rintro ⟨l, h⟩; cases h
    split
    · intro e he; cases he; exact nb _
    · rename_i item orcRest _
      split
      · intro e he; cases he; exact nb _
      · split
        · intro e he; cases he; exact nb _
        · rename_i hsame
          have hsame' : sameMembers item.missing missingM = true := by simpa using hsame
          simp only [sameMembers, Bool.and_eq_true, List.all_eq_true, decide_eq_true_eq] at hsame'
          split
          · intro e he; cases he
          · split
            · intro e he; cases he; exact nb _
            · rename_i hlen
              simp only [ne_eq, Decidable.not_not] at hlen
              split
              · intro e he; cases he; exact nb _
              · rename_i hvalid
                have hvalid' : ((item.missing.zip item.paths).all fun cp => validPath c.g cp.1 cp.2) = true := by
                  simpa using hvalid
                -- every vertex of every path has a smaller rank than the function being resolved
                have hlow : ∀ cp ∈ item.missing.zip item.paths, ∀ v ∈ cp.2, rank v < rank (.func k) := by
                  intro cp hcp v hv
                  have h1 := path_rank c rank hacyc cp.1 cp.2 (List.all_eq_true.1 hvalid' _ hcp) v hv
                  have h2 := hmiss cp.1 (hsame'.1.1 _ (List.of_mem_zip hcp).1)
                  omega
                have hun : ((item.missing.zip item.paths).foldl
                    (planOne (.func k) (.func k :: reaching) c.trackReaching false)
                    { s := { s1 with orc := orcRest }, unsat := [] }).unsat = [] := by
                  rw [htr]
                  apply plan_unsat_nil _ _ _ _ _ _ rfl
                  intro cp hcp v hv hmem
                  have hl := hlow cp hcp v hv
                  rcases List.mem_cons.1 hmem with h | h
                  · rw [h] at hl; omega
                  · have := hreach v h; omega
                split
                · rename_i hne
                  rw [hun] at hne
                  simp at hne
                · apply walkPaths_unsat
                  intro p hp v hv k' hk' st e s' he
                  subst hk'
                  obtain ⟨cur, _, hz⟩ := zip_snd_mem item.missing item.paths hlen p hp
                  have hl := hlow _ hz _ hv
                  refine ih (.func k :: reaching) k' st ?_ e (by rw [he])
                  intro r hr
                  rcases List.mem_cons.1 hr with h | h
                  · rw [h]; exact hl
                  · have := hreach r h; omega

/-! ### the standard context: function objects, well-formedness, the remaining panic sites -/

section
variable {e : TypeEnv} {b : Builder} {funcs : Nat → Option FuncDesc} {target : FuncDesc}

theorem std_wf (beh : Nat → Nat → List PVal → BehOut) : (C01.stdCtx e b funcs target beh).g.WF := by
  rw [WalkPanic.std_g]; exact ExactWins.fin_wf e b funcs target

/-- every function vertex of the pruned graph has a function object -/
theorem std_funcOf_isSome (beh : Nat → Nat → List PVal → BehOut) (k : Nat)
    (hk : Vtx.func k ∈ (C01.stdCtx e b funcs target beh).g.verts) :
    ((C01.stdCtx e b funcs target beh).funcOf k).isSome = true := by
  rw [WalkPanic.std_g] at hk
  unfold ExactWins.fin at hk
  rw [ExactWins.prune_verts] at hk
  have hwf := ExactWins.pre_wf e b funcs target
  obtain ⟨u, _, hge⟩ := WalkPanic.kept_pred _ hwf (ExactWins.pre_root e b funcs target) _ _ hk.2 (by simp)
  obtain ⟨w, hw⟩ := (ExactWins.hasEdge_iff_weight _ _ _).1 hge
  have hr := ExactWins.pre_rule e b funcs target _ _ _ hw
  have key : ∃ f ∈ C01.allFuncs b funcs target, f.key = k := by
    generalize hx : Vtx.func k = x at hr
    cases hr with
    | funcRoot f hf => cases hx; exact ⟨f, hf, rfl⟩
    | funcNamed f v hf _ _ => cases hx; exact ⟨f, hf, rfl⟩
    | funcTyped f v hf _ _ => cases hx; exact ⟨f, hf, rfl⟩
    | inputRoot x' hx' =>
      subst hx
      rcases ExactWins.inputVerts_kind hx' with h | h <;> cases h
    | namedOut => cases hx
    | typedOut => cases hx
    | valueOut => cases hx
    | argValue => cases hx
    | argOut => cases hx
    | outOut => cases hx
    | valueValue => cases hx
    | argOutSub => cases hx
  obtain ⟨f, hf, hfk⟩ := key
  obtain ⟨f0, h0, _, _⟩ := find_key hf hfk
  show ((C01.allFuncs b funcs target).find? (fun f => f.key == k)).isSome = true
  rw [h0]; rfl

/-- the outcome of `Call` is success, a body's error or `badOracle`, once `reachTarget` is known never to
report an unsatisfied argument and the requirement edges are known to survive pruning -/
theorem finish' (H : WalkPanic.Hyps e b funcs target) (beh : Nat → Nat → List PVal → BehOut)
    (hsat : (callGraph {} e b funcs target false none).unsat = [])
    (hreqs : ∀ k f, (C01.stdCtx e b funcs target beh).funcOf k = some f →
        (∃ u, (C01.stdCtx e b funcs target beh).g.hasEdge (.func k) u = true) →
        ∀ v ∈ f.input.values, v.lab.vertex ∈ (C01.stdCtx e b funcs target beh).g.outs (.func k))
    (fuel : Nat)
    (hfuel : ((callGraph {} e b funcs target false none).cg.g.verts.filter Vtx.isFunc).length + 1 ≤ fuel)
    (memo : List (Nat × Memo)) (orc : List OrcItem)
    (hitems : ∀ it ∈ orc, (C01.stdCtx e b funcs target beh).hopCopies = true ∨
      WalkPanic.ItemOK (C01.stdCtx e b funcs target beh).g it)
    (hnu : ∀ a, (reach (C01.stdCtx e b funcs target beh) false fuel [] (.func target.key)
      (initSt (callGraph {} e b funcs target false none).cg memo orc)).1 ≠ .error (.unsat a)) :
    let r := callWith (C01.stdCtx e b funcs target beh) (callGraph {} e b funcs target false none) target fuel
              (initSt (callGraph {} e b funcs target false none).cg memo orc)
    (∃ res, r.1 = .ok res) ∨ (∃ ε, r.1 = .convErr ε) ∨ (∃ ε res, r.1 = .targetErr ε res) ∨ (∃ w, r.1 = .badOracle w) := by
  intro r
  obtain ⟨c1, c2, c3⟩ := WalkPanic.core_items' H beh True (fun _ _ => hreqs) fuel memo orc hitems
  obtain ⟨m, rfl⟩ : ∃ m, fuel = m + 1 := ⟨fuel - 1, by omega⟩
  apply outcome_cases
  · intro a fg h
    rcases callWith_unsat _ _ _ _ _ a fg h with h' | h'
    · exact h' hsat
    · exact hnu a h'
  · exact c3 trivial
  · intro k h
    rcases callWith_panic _ _ _ _ _ k h with h' | h'
    · have hp := Termination.reach_panic3 (C01.stdCtx e b funcs target beh) rfl (std_funcOf_isSome beh)
        (std_wf beh) false (m + 1) [] _ _ _ h'
      cases k with
      | finalValue => exact c1 h
      | setNotAssignable => exact c2 h
      | elemOnStruct => exact hp (Or.inl rfl)
      | emptyPath => exact hp (Or.inr (Or.inr rfl))
      | unknownVertex => exact hp (Or.inr (Or.inl rfl))
    · subst h'; exact c2 h
  · refine callWith_no_fuel _ rfl (std_wf beh) _ target rfl m ?_ _
    rw [CompleteAcyclic.stdCtx_g_eq]
    omega

/-- the outcome of `Call` is success, a body's error or `badOracle`, once `reachTarget` is known never to
report an unsatisfied argument and the requirement edges are known to survive pruning -/
theorem finish (H : WalkPanic.Hyps e b funcs target) (beh : Nat → Nat → List PVal → BehOut)
    (hsat : (callGraph {} e b funcs target false none).unsat = [])
    (hreqs : ∀ k f, (C01.stdCtx e b funcs target beh).funcOf k = some f →
        (∃ u, (C01.stdCtx e b funcs target beh).g.hasEdge (.func k) u = true) →
        ∀ v ∈ f.input.values, v.lab.vertex ∈ (C01.stdCtx e b funcs target beh).g.outs (.func k))
    (fuel : Nat)
    (hfuel : ((callGraph {} e b funcs target false none).cg.g.verts.filter Vtx.isFunc).length + 1 ≤ fuel)
    (memo : List (Nat × Memo)) (orc : List OrcItem)
    (hitems : ∀ it ∈ orc, WalkPanic.ItemOK (C01.stdCtx e b funcs target beh).g it)
    (hnu : ∀ a, (reach (C01.stdCtx e b funcs target beh) false fuel [] (.func target.key)
      (initSt (callGraph {} e b funcs target false none).cg memo orc)).1 ≠ .error (.unsat a)) :
    let r := callWith (C01.stdCtx e b funcs target beh) (callGraph {} e b funcs target false none) target fuel
              (initSt (callGraph {} e b funcs target false none).cg memo orc)
    (∃ res, r.1 = .ok res) ∨ (∃ ε, r.1 = .convErr ε) ∨ (∃ ε res, r.1 = .targetErr ε res) ∨ (∃ w, r.1 = .badOracle w) :=
  finish' H beh hsat hreqs fuel hfuel memo orc (fun it hit => Or.inr (hitems it hit)) hnu

/-- **clause (b), full label language**: acyclic pruned graph, every surviving converter keeps its parameter
vertices, legal oracle -/
theorem acyclic_core (H : WalkPanic.Hyps e b funcs target) (beh : Nat → Nat → List PVal → BehOut)
    (hsat : (callGraph {} e b funcs target false none).unsat = [])
    (rank : Vtx → Nat)
    (hacyc : ∀ x y, (callGraph {} e b funcs target false none).cg.g.hasEdge x y = true → rank y < rank x)
    (hall : ∀ f ∈ b.convs.filterMap funcs, Vtx.func f.key ∈ (callGraph {} e b funcs target false none).cg.g.verts →
      ∀ v ∈ f.input.values, v.lab.vertex ∈ (callGraph {} e b funcs target false none).cg.g.verts)
    (hsmall : ((callGraph {} e b funcs target false none).cg.g.edges.map (fun ed => ed.2.2)).sum < maxInt32)
    (fuel : Nat)
    (hfuel : ((callGraph {} e b funcs target false none).cg.g.verts.filter Vtx.isFunc).length + 1 ≤ fuel)
    (memo : List (Nat × Memo)) (orc : List OrcItem)
    (hleg : ∀ it ∈ orc, ∀ (i : Nat) (cur : Vtx) (path : List Vtx), it.missing[i]? = some cur →
      it.paths[i]? = some path →
      ∃ pops, Dijkstra.LegalPops (discount (callGraph {} e b funcs target false none).cg.g cur).reverse Vtx.root pops ∧
        path = choosePath (callGraph {} e b funcs target false none).cg.g cur pops) :
    let r := callWith (C01.stdCtx e b funcs target beh) (callGraph {} e b funcs target false none) target fuel
              (initSt (callGraph {} e b funcs target false none).cg memo orc)
    (∃ res, r.1 = .ok res) ∨ (∃ ε, r.1 = .convErr ε) ∨ (∃ ε res, r.1 = .targetErr ε res) ∨ (∃ w, r.1 = .badOracle w) := by
  refine finish H beh hsat (WalkPanic.reqs_of_kept H beh hsat hall) fuel hfuel memo orc
    (fun it hit => WalkPanic.itemOK_of_legal beh hsmall it (hleg it hit)) ?_
  intro a h
  refine reach_no_unsat_rank (C01.stdCtx e b funcs target beh) rfl rank ?_ fuel [] target.key _
    (fun r hr => by cases hr) _ h ⟨a, rfl⟩
  rw [CompleteAcyclic.stdCtx_g_eq]
  exact hacyc

end

end ArgMapper.CompleteLegal
