import ArgMapper.Proofs.CallGraphEdges
import ArgMapper.Proofs.ReachSound
import ArgMapper.Model.Redefine
/-!
# Helper lemmas for C08 (Redefine declares exactly the missing, permitted inputs)

* `declaredInputs` / `redefine`: elementary facts;
* `reach_inputSet`: everything `reach` records in `inputSet` is adjacent to the root (when
  `skipRecordsInput = false`);
* `callGraph_rootAdj`: in the Redefine graph, every value / arg vertex adjacent to the root is a
  supplied vertex or passes the input filter.
-/
set_option linter.unusedSectionVars false
set_option linter.unusedVariables false
namespace ArgMapper.RedefineInputs
open ArgMapper WalkEqs Generated

/-! ### `declaredInputs`, `redefine` -/

theorem mem_declaredInputs (inputSet provided : List Vtx) (l : Label) (h : l ∈ declaredInputs inputSet provided) :
    ∃ v ∈ inputSet, v ∉ provided ∧ (v.isValue = true ∨ v.isArg = true) ∧ l = { v.label with sub := "" } := by
  unfold declaredInputs at h
  rw [List.mem_filterMap] at h
  obtain ⟨v, hv, hl⟩ := h
  rw [List.mem_filter] at hv
  refine ⟨v, hv.1, by simpa using hv.2, ?_⟩
  cases v with
  | value n t s =>
    simp only [Option.some.injEq] at hl
    exact ⟨Or.inl rfl, hl.symm⟩
  | arg t s =>
    simp only [Option.some.injEq] at hl
    exact ⟨Or.inr rfl, hl.symm⟩
  | root => cases hl
  | out t s => cases hl
  | func k => cases hl

theorem redefine_outputFiltered (c : Ctx) (cgr : CallGraphResult) (target : FuncDesc) (fout : Option Filter)
    (fuel : Nat) (s0 : CallSt) :
    redefine c cgr target fout fuel s0 = .outputFiltered ↔ outputsPass c.env target fout = false := by
  unfold redefine
  constructor
  · intro h
    split at h
    · rename_i h1
      simpa using h1
    · split at h
      · cases h
      · split at h <;> try (cases h)
        dsimp only at h
        split at h
        · cases h
        · split at h <;> cases h
  · intro h
    rw [h]
    rfl

theorem redefine_ok (c : Ctx) (cgr : CallGraphResult) (target : FuncDesc) (fout : Option Filter)
    (fuel : Nat) (s0 : CallSt) (ls : List Label) (h : redefine c cgr target fout fuel s0 = .ok ls) :
    ls = declaredInputs (reach c true fuel [] cgr.target s0).2.inputSet cgr.inputs := by
  unfold redefine at h
  split at h
  · cases h
  · split at h
    · cases h
    · split at h <;> try (cases h)
      rename_i am s heq
      rw [heq]
      dsimp only at h ⊢
      split at h
      · simp only [RedefOutcome.ok.injEq] at h
        exact h.symm
      · split at h <;> cases h

/-! ### `inputSet` is touched only by `addInput` -/

/-- the property carried through `reach`: every recorded input is adjacent to the root -/
def P (c : Ctx) (s : CallSt) : Prop := ∀ v ∈ s.inputSet, c.g.hasEdge v .root = true

theorem P.congr {c : Ctx} {s s' : CallSt} (h : P c s) (hi : s'.inputSet = s.inputSet) : P c s' := by
  intro v hv
  rw [hi] at hv
  exact h v hv

@[simp] theorem set_inputSet (s : CallSt) (v : Vtx) (x : Option PVal) : (s.set v x).inputSet = s.inputSet := by
  unfold CallSt.set; split <;> rfl

theorem mem_addInput (s : CallSt) (v u : Vtx) (h : u ∈ (s.addInput v).inputSet) : u ∈ s.inputSet ∨ u = v := by
  unfold CallSt.addInput at h
  split at h
  · exact Or.inl h
  · simpa using h

theorem P.addInput {c : Ctx} {s : CallSt} (h : P c s) (v : Vtx) (hv : c.g.hasEdge v .root = true) :
    P c (s.addInput v) := by
  intro u hu
  rcases mem_addInput s v u hu with h' | rfl
  · exact h u h'
  · exact hv

theorem callDirect_inputSet (c : Ctx) (f : FuncDesc) (am : ArgMap) (s : CallSt) :
    (callDirect c f am s).2.inputSet = s.inputSet := by
  unfold callDirect
  split
  · rfl
  · split
    · rfl
    · dsimp only
      split <;> rfl

theorem oStep_inputSet (f : FuncDesc) (r : BehOut) (s : CallSt) (v : Vtx) :
    (ReachSound.oStep f r s v).inputSet = s.inputSet := by
  unfold ReachSound.oStep
  split
  · split
    · simp
    · rfl
  · split
    · simp
    · rfl
  · rfl

theorem oFold_inputSet (f : FuncDesc) (r : BehOut) (l : List Vtx) (s : CallSt) :
    (l.foldl (ReachSound.oStep f r) s).inputSet = s.inputSet := by
  induction l generalizing s with
  | nil => rfl
  | cons a l ih => rw [List.foldl_cons, ih, oStep_inputSet]

theorem outputValues_inputSet (c : Ctx) (f : FuncDesc) (r : BehOut) (u : Bool) (s s' : CallSt)
    (h : outputValues c f r u s = .ok s') : s'.inputSet = s.inputSet := by
  rw [ReachSound.outputValues_eq] at h
  split at h
  · cases h
  · simp only [Except.ok.injEq] at h
    subst h
    rw [oFold_inputSet]
    split <;> rfl

theorem copyFrom_inputSet (s : CallSt) (prev : Option Vtx) (v : Vtx) :
    (copyFrom s prev v).inputSet = s.inputSet := by
  unfold copyFrom
  split
  · simp
  · rfl

theorem valCopy_inputSet (c : Ctx) (s : CallSt) (prev : Option Vtx) (v : Vtx) :
    (valCopy c s prev v).inputSet = s.inputSet := by
  rcases valCopy_cases c s prev v with h | ⟨_, _, _, _, _, _, _, h⟩ <;> rw [h]
  · exact copyFrom_inputSet s prev v
  · simp

theorem argStore_inputSet (c : Ctx) (s : CallSt) (t : Nat) (v : Vtx) :
    (argStore c s t v).inputSet = s.inputSet := by
  unfold argStore
  split
  · split
    · simp
    · rfl
  · rfl

/-- the recursive call preserves the property -/
def RecP (c : Ctx) (rec : Vtx → CallSt → Except RErr ArgMap × CallSt) : Prop :=
  ∀ v s, P c s → P c (rec v s).2

theorem walkStep_P (c : Ctx) (rec : Vtx → CallSt → Except RErr ArgMap × CallSt) (hrec : RecP c rec)
    (w : WalkSt) (v : Vtx) (hw : P c w.s) : P c (walkStep c rec w v).s := by
  cases herr : w.err with
  | some e => rw [walkStep_err c rec herr]; exact hw
  | none =>
    cases v with
    | root => rw [walkStep_root c rec herr]; exact hw
    | value n t u =>
      rw [walkStep_value c rec herr]
      exact hw.congr (valCopy_inputSet _ _ _ _)
    | arg t u =>
      rw [walkStep_arg c rec herr]
      exact hw.congr (argStore_inputSet _ _ _ _)
    | out t u =>
      rw [walkStep_out c rec herr]
      exact hw.congr (copyFrom_inputSet _ _ _)
    | func k =>
      cases hfo : c.funcOf k with
      | none => rw [walkStep_func_none c rec herr k hfo]; exact hw
      | some f =>
        have hr := hrec (.func k) w.s hw
        rcases hrs : rec (Vtx.func k) w.s with ⟨e | am, s1⟩
        · rw [walkStep_func_recErr c rec herr k hfo hrs]
          rw [hrs] at hr
          exact hr
        · rw [hrs] at hr
          have h2 : P c (callDirect c f am s1).2 := P.congr hr (callDirect_inputSet c f am s1)
          rcases hcs : callDirect c f am s1 with ⟨e | ⟨r, unw⟩, s2⟩
          · rw [walkStep_func_cdErr c rec herr k hfo hrs hcs]
            rw [hcs] at h2
            exact h2
          · rw [hcs] at h2
            cases hre : r.err with
            | some ε =>
              rw [walkStep_func_funcErr c rec herr k hfo hrs hcs hre]
              exact h2
            | none =>
              cases hov : outputValues c f r unw s2 with
              | error e =>
                rw [walkStep_func_outErr c rec herr k hfo hrs hcs hre hov]
                exact h2
              | ok s3 =>
                rw [walkStep_func_ok c rec herr k hfo hrs hcs hre hov]
                exact P.congr h2 (outputValues_inputSet c f r unw s2 s3 hov)

theorem walkFold_P (c : Ctx) (rec : Vtx → CallSt → Except RErr ArgMap × CallSt) (hrec : RecP c rec)
    (p : List Vtx) (w : WalkSt) (hw : P c w.s) : P c (p.foldl (walkStep c rec) w).s := by
  induction p generalizing w with
  | nil => exact hw
  | cons v rest ih =>
    rw [List.foldl_cons]
    exact ih _ (walkStep_P c rec hrec w v hw)

theorem walkPaths_P (c : Ctx) (rec : Vtx → CallSt → Except RErr ArgMap × CallSt) (hrec : RecP c rec)
    (paths : List (List Vtx)) (am : ArgMap) (s : CallSt) (hs : P c s) :
    P c (walkPaths c rec paths am s).2 := by
  induction paths generalizing am s with
  | nil => exact hs
  | cons p rest ih =>
    unfold walkPaths
    have hfold := walkFold_P c rec hrec p { s := s, final := none, prev := none, err := none } hs
    generalize p.foldl (walkStep c rec) { s := s, final := none, prev := none, err := none } = w at hfold
    dsimp only
    split
    · exact hfold
    · split
      · exact ih _ _ hfold
      · exact hfold

/-! ### the planning loop -/

/-- a valid path to a requirement other than the root has at least two vertices, and its second
vertex is adjacent to the root -/
theorem pathInput_of_valid (g : AGraph Vtx) (cur : Vtx) (p : List Vtx) (hne : cur ≠ .root)
    (h : validPath g cur p = true) : ∃ y, pathInput p = some y ∧ g.hasEdge y .root = true := by
  simp only [validPath, Bool.and_eq_true, beq_iff_eq] at h
  obtain ⟨⟨⟨_, hhead⟩, hlast⟩, hpath⟩ := h
  cases p with
  | nil => cases hhead
  | cons a rest =>
    simp only [List.head?_cons, Option.some.injEq] at hhead
    subst hhead
    cases rest with
    | nil =>
      simp only [List.getLast?_singleton, Option.some.injEq] at hlast
      exact absurd hlast.symm hne
    | cons y rest' =>
      refine ⟨y, rfl, ?_⟩
      simp only [AGraph.isPathB, Bool.and_eq_true] at hpath
      exact (ReachSound.hasEdge_reverse _ _ _).1 hpath.1

theorem planOne_P (c : Ctx) (target : Vtx) (reaching : List Vtx) (tr rd : Bool) (ps : PlanSt)
    (cp : Vtx × List Vtx) (hne : cp.1 ≠ .root) (hvalid : validPath c.g cp.1 cp.2 = true)
    (h : P c ps.s) : P c (planOne target reaching tr rd ps cp).s := by
  obtain ⟨y, hy, hedge⟩ := pathInput_of_valid c.g cp.1 cp.2 hne hvalid
  unfold planOne
  dsimp only
  rw [hy]
  dsimp only
  have h1 : P c (ps.s.addInput y) := h.addInput y hedge
  split
  · split
    · split
      · exact h1.congr (by simp)
      · exact h1
    · exact h1.congr (by simp)
    · exact h1
  · exact h1

theorem reach_inputSet (c : Ctx) (hskip : c.skipRecordsInput = false) (rd : Bool) (n : Nat)
    (reaching : List Vtx) (t : Vtx) (s : CallSt) (hs : P c s) :
    P c (reach c rd n reaching t s).2 := by
  induction n generalizing reaching t s with
  | zero =>
    unfold reach
    exact hs
  | succ n ih =>
    unfold reach
    dsimp only
    have hmiss : ∀ cur ∈ (c.g.outs t).filter (fun v => !(v == Vtx.root || takenAsIs c s v)),
        cur ≠ Vtx.root := by
      intro cur hcur hroot
      simp only [List.mem_filter] at hcur
      subst hroot
      simp at hcur
    generalize (c.g.outs t).filter (fun v => !(v == Vtx.root || takenAsIs c s v)) = missingM at hmiss
    generalize ((c.g.outs t).filter (fun v => v == Vtx.root || takenAsIs c s v)).filterMap
      (fun v => if v == Vtx.root then none else (s.get v).map (fun x => (v, x))) = am0
    have hs1 : P c (if c.skipRecordsInput then
        ((c.g.outs t).filter (fun v => v == Vtx.root || takenAsIs c s v)).foldl CallSt.addInput s else s) := by
      rw [if_neg (by simp [hskip])]
      exact hs
    generalize (if c.skipRecordsInput then
        ((c.g.outs t).filter (fun v => v == Vtx.root || takenAsIs c s v)).foldl CallSt.addInput s else s) = s1
      at hs1
    split
    · exact hs1
    · rename_i item orcRest _
      have hs2 : P c { s1 with orc := orcRest } := hs1.congr rfl
      split
      · exact hs2
      · split
        · exact hs2
        · rename_i hsame
          split
          · exact hs2
          · split
            · exact hs2
            · split
              · exact hs2
              · rename_i hvalid
                have hsame' : sameMembers item.missing missingM = true := by simpa using hsame
                simp only [sameMembers, Bool.and_eq_true, List.all_eq_true, decide_eq_true_eq] at hsame'
                have hvalid' : ((item.missing.zip item.paths).all fun cp => validPath c.g cp.1 cp.2) = true := by
                  simpa using hvalid
                have hs3 : P c ((item.missing.zip item.paths).foldl
                    (planOne t (t :: reaching) c.trackReaching rd)
                    { s := { s1 with orc := orcRest }, unsat := [] }).s := by
                  apply CGE.foldl_inv (fun (ps : PlanSt) => P c ps.s)
                    (fun (cp : Vtx × List Vtx) => cp.1 ≠ Vtx.root ∧ validPath c.g cp.1 cp.2 = true)
                  · intro ps cp hcp hps
                    exact planOne_P c _ _ _ _ ps cp hcp.1 hcp.2 hps
                  · intro cp hcp
                    refine ⟨?_, List.all_eq_true.1 hvalid' cp hcp⟩
                    have hm : cp.1 ∈ item.missing := (List.of_mem_zip (show (cp.1, cp.2) ∈ _ from hcp)).1
                    exact hmiss _ (hsame'.1.1 _ hm)
                  · exact hs2
                split
                · exact hs3
                · exact walkPaths_P c _ (fun v st hst => ih _ v st hst) _ _ _ hs3

/-! ### root-adjacent vertices of the Redefine graph -/

/-- does the input filter admit a value of this type? (`none` = no filter given) -/
def passesF (e : TypeEnv) (fin : Option Filter) (t : Nat) : Bool :=
  match fin with
  | none => true
  | some f => f.eval e t

/-- every value / arg vertex adjacent to the root is in `ins` or passes the filter -/
def J (e : TypeEnv) (fin : Option Filter) (ins : List Vtx) (c : CG) : Prop :=
  ∀ v, (v.isValue = true ∨ v.isArg = true) → c.g.hasEdge v .root = true →
    v ∈ ins ∨ passesF e fin v.ty = true

variable {e : TypeEnv} {fin : Option Filter}

theorem J_empty (ins : List Vtx) : J e fin ins CG.empty := by
  intro v _ h
  simp [CG.empty, AGraph.hasEdge, AGraph.weight, AGraph.empty] at h

theorem J_mono {ins ins' : List Vtx} {c : CG} (h : J e fin ins c) (hsub : ∀ v ∈ ins, v ∈ ins') :
    J e fin ins' c := by
  intro v hv hedge
  rcases h v hv hedge with h' | h'
  · exact Or.inl (hsub v h')
  · exact Or.inr h'

theorem J_add {ins : List Vtx} {c : CG} (v : Vtx) (h : J e fin ins c) : J e fin ins (c.add v) := by
  intro x hx hedge
  apply h x hx
  have : (c.g.add v).hasEdge x .root = true := hedge
  rwa [CGE.hasEdge_add] at this

theorem J_addValued {ins : List Vtx} {c : CG} (v : Vtx) (x : Val) (h : J e fin ins c) :
    J e fin ins (c.addValued v x) := by
  intro y hy hedge
  apply h y hy
  have : (c.g.add v).hasEdge y .root = true := hedge
  rwa [CGE.hasEdge_add] at this

theorem J_edge {ins : List Vtx} {c : CG} (u v : Vtx) (w : Int) (h : J e fin ins c)
    (hnew : v = .root → (u.isValue = true ∨ u.isArg = true) → u ∈ ins ∨ passesF e fin u.ty = true) :
    J e fin ins (c.edge u v w) := by
  intro x hx hedge
  have hedge' : (c.g.addEdge u v w).hasEdge x .root = true := hedge
  rcases (CGE.hasEdge_addEdge _ _ _ _ _ _).1 hedge' with ⟨rfl, hr⟩ | h'
  · exact hnew hr.symm hx
  · exact h x hx h'

theorem J_remove {ins : List Vtx} {c : CG} (v : Vtx) (h : J e fin ins c) :
    J e fin ins { c with g := c.g.remove v } := by
  intro x hx hedge
  exact h x hx (CGE.hasEdge_remove _ _ _ _ hedge)

theorem J_funcGraph {ins : List Vtx} {c : CG} (f : FuncDesc) (io : Bool) (h : J e fin ins c) :
    J e fin ins (funcGraph c f io) := by
  unfold funcGraph
  dsimp only
  have h1 : J e fin ins (c.add (Vtx.func f.key)) := J_add _ h
  have h2 : J e fin ins (if f.input.empty = true then (c.add (Vtx.func f.key)).edge (Vtx.func f.key) .root weightNormal
      else c.add (Vtx.func f.key)) := by
    split
    · exact J_edge _ _ _ h1 (fun _ hk => by simp [Vtx.isValue, Vtx.isArg] at hk)
    · exact h1
  have h3 := CGE.foldl_inv' (J e fin ins) (fun (c : CG) (val : SVal) =>
      if val.lab.name ≠ "" then
        (c.add (.value val.lab.name val.lab.ty val.lab.sub)).edge (Vtx.func f.key)
          (.value val.lab.name val.lab.ty val.lab.sub) weightNormal
      else
        (c.add (.arg val.lab.ty val.lab.sub)).edge (Vtx.func f.key) (.arg val.lab.ty val.lab.sub) weightTyped)
    (by
      intro c val hc
      split
      · exact J_edge _ _ _ (J_add _ hc) (fun hr => by cases hr)
      · exact J_edge _ _ _ (J_add _ hc) (fun hr => by cases hr))
    f.input.values _ h2
  split
  · exact h3
  · apply CGE.foldl_inv'
    · intro c p hc
      exact J_edge _ _ _ (J_add _ hc) (fun hr => by cases hr)
    · apply CGE.foldl_inv'
      · intro c p hc
        exact J_edge _ _ _ (J_add _ hc) (fun hr => by cases hr)
      · exact h3

theorem J_inputs_step (acc : CG × List Vtx) (v : Vtx) (x : Val) (h : J e fin acc.2 acc.1) :
    J e fin (((acc.1.addValued v x).edge v .root weightNormal), acc.2 ++ [v]).2
      (((acc.1.addValued v x).edge v .root weightNormal), acc.2 ++ [v]).1 := by
  dsimp only
  apply J_edge
  · exact J_addValued _ _ (J_mono h (fun u hu => List.mem_append_left _ hu))
  · intro _ _
    exact Or.inl (by simp)

theorem J_inputsGraph {c : CG} (b : Builder) (h : J e fin [] c) :
    J e fin (inputsGraph c b).2 (inputsGraph c b).1 := by
  unfold inputsGraph
  dsimp only
  apply CGE.foldl_inv' (fun acc : CG × List Vtx => J e fin acc.2 acc.1)
  · intro acc p hacc
    exact J_inputs_step acc _ _ hacc
  apply CGE.foldl_inv' (fun acc : CG × List Vtx => J e fin acc.2 acc.1)
  · intro acc p hacc
    exact J_inputs_step acc _ _ hacc
  apply CGE.foldl_inv' (fun acc : CG × List Vtx => J e fin acc.2 acc.1)
  · intro acc p hacc
    exact J_inputs_step acc _ _ hacc
  apply CGE.foldl_inv' (fun acc : CG × List Vtx => J e fin acc.2 acc.1)
  · intro acc p hacc
    exact J_inputs_step acc _ _ hacc
  exact h

theorem J_edge_ne {ins : List Vtx} {c : CG} (u v : Vtx) (w : Int) (h : J e fin ins c) (hv : v ≠ .root) :
    J e fin ins (c.edge u v w) :=
  J_edge u v w h (fun hr => absurd hr hv)

theorem ne_root_of_isValue {v : Vtx} (h : v.isValue = true) : v ≠ .root := by
  intro hr; subst hr; cases h

theorem ne_root_of_isOut {v : Vtx} (h : v.isOut = true) : v ≠ .root := by
  intro hr; subst hr; cases h

theorem J_phaseR3 {ins : List Vtx} {c : CG} (h : J e fin ins c) : J e fin ins (phaseR3 c) := by
  unfold phaseR3
  apply CGE.foldl_filter_inv (J e fin ins)
  · intro c v hv hc
    dsimp only
    have h1 := J_edge_ne v (.out v.ty "") weightTyped (J_add (.out v.ty "") hc) (by intro hr; cases hr)
    have h2 := J_edge_ne (.arg v.ty "") v weightTyped (J_add (.arg v.ty "") h1) (ne_root_of_isValue hv)
    split
    · exact J_edge_ne _ _ _ (J_add _ h2) (ne_root_of_isValue hv)
    · exact h2
  · exact h

theorem J_phaseR4 {ins : List Vtx} {c : CG} (h : J e fin ins c) : J e fin ins (phaseR4 c) := by
  unfold phaseR4
  apply CGE.foldl_inv' (J e fin ins)
  · intro c v hc
    exact J_edge_ne _ _ _ (J_add _ hc) (by intro hr; cases hr)
  · exact h

theorem J_phaseR5 {ins : List Vtx} {c : CG} (sk : Bool) (h : J e fin ins c) : J e fin ins (phaseR5 e sk c) := by
  unfold phaseR5
  apply CGE.foldl_inv' (J e fin ins)
  · intro c v hc
    apply CGE.foldl_filter_inv (J e fin ins)
    · intro c v2 hv2 hc
      simp only [Bool.and_eq_true] at hv2
      exact J_edge_ne _ _ _ hc (ne_root_of_isOut hv2.1.1.1)
    · exact hc
  · exact h

theorem J_phaseR6 {ins : List Vtx} {c : CG} (nt : Bool) (h : J e fin ins c) : J e fin ins (phaseR6 nt c) := by
  unfold phaseR6
  apply CGE.foldl_inv' (J e fin ins)
  · intro c' v hc
    apply CGE.foldl_filter_inv (J e fin ins)
    · intro c'' v2 hv2 hc
      simp only [Bool.and_eq_true] at hv2
      exact J_edge_ne _ _ _ hc (ne_root_of_isValue hv2.1.1.1)
    · exact hc
  · exact h

theorem J_phaseR7 {ins : List Vtx} {c : CG} (h : J e fin ins c) : J e fin ins (phaseR7 c) := by
  unfold phaseR7
  dsimp only
  apply CGE.foldl_inv' (J e fin ins)
  · intro c' v hc
    apply CGE.foldl_filter_inv (J e fin ins)
    · intro c'' v2 hv2 hc
      simp only [Bool.and_eq_true] at hv2
      exact J_edge_ne _ _ _ hc (ne_root_of_isOut hv2.1.1)
    · exact hc
  apply CGE.foldl_inv' (J e fin ins)
  · intro c' v hc
    apply CGE.foldl_filter_inv (J e fin ins)
    · intro c'' v2 hv2 hc
      simp only [Bool.and_eq_true] at hv2
      exact J_edge_ne _ _ _ hc (ne_root_of_isOut hv2.1.1)
    · exact hc
  · exact h

theorem J_phaseR8 {ins : List Vtx} {c : CG} (sk : Bool) (h : J e fin ins c) :
    J e fin ins (phaseR8 e fin sk c) := by
  unfold phaseR8
  apply CGE.foldl_inv' (J e fin ins)
  · intro c' v hc
    split
    · exact hc
    · split
      · rename_i f
        split
        · rename_i hf
          exact J_edge _ _ _ hc (fun _ _ => Or.inr hf)
        · exact hc
      · exact J_edge _ _ _ hc (fun _ _ => Or.inr rfl)
  · exact h

theorem J_prune {ins : List Vtx} {c : CG} (target : Vtx) (h : J e fin ins c) : J e fin ins (prune c target) := by
  unfold prune
  dsimp only
  apply CGE.foldl_inv' (J e fin ins)
  · intro c v hc
    exact J_remove v hc
  · exact h

theorem callGraph_rootAdj (var : Variant) (e : TypeEnv) (b : Builder) (funcs : Nat → Option FuncDesc)
    (target : FuncDesc) (fin : Option Filter) :
    J e fin (callGraph var e b funcs target true fin).inputs (callGraph var e b funcs target true fin).cg := by
  unfold callGraph
  dsimp only
  apply J_prune
  have h0 : J e fin (inputsGraph (funcGraph (CG.empty.add .root) target false) b).2
      (inputsGraph (funcGraph (CG.empty.add .root) target false) b).1 :=
    J_inputsGraph b (J_funcGraph target false (J_add _ (J_empty [])))
  have h1 := CGE.foldl_inv' (J e fin (inputsGraph (funcGraph (CG.empty.add .root) target false) b).2)
    (fun (c : CG) (fid : Nat) => match funcs fid with
      | some f => funcGraph c f true
      | none => c)
    (by
      intro c fid hc
      split
      · exact J_funcGraph _ _ hc
      · exact hc)
    b.convs _ h0
  have h7 := J_phaseR7 (J_phaseR6 var.r6NameTest (J_phaseR5 var.r5SkipSame (J_phaseR4 (J_phaseR3 h1))))
  exact J_phaseR8 _ h7

end ArgMapper.RedefineInputs
