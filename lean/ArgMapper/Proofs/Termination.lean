import ArgMapper.Model.Reach
import ArgMapper.Proofs.WalkEqs
import ArgMapper.Proofs.ErrorProp
import ArgMapper.Proofs.ReachSound
import ArgMapper.Proofs.Args
/-!
# Helper lemmas for C06 (bounded recursion, unreachable panic sites, malformed options)

The common skeleton: a set `Bad` of errors that no *local* step of `reach` produces (`Safe`), so that a
`Bad` error of `reach c rd (n+1) …` can only have been propagated from a nested call
`reach c rd n (target :: reaching) v …` on a function vertex `v` that lies on a chosen path; such a
`v` is a vertex of the graph (consecutive path vertices are joined by edges, whose endpoints are
vertices by `AGraph.WF`; the first vertex is the root) and — when `trackReaching` — is not on the
resolution stack.
-/
namespace ArgMapper.Termination
open ArgMapper WalkEqs ReachSound

/-! ### where errors come from -/

theorem gatherArgs_err (e : TypeEnv) (f : FuncDesc) (am : ArgMap) (x : RErr)
    (h : gatherArgs e f am = .error x) : x = .missingArg ∨ x = .panic .setNotAssignable := by
  rw [gatherArgs_eq] at h
  have key : ∀ (vals : List SVal) (r : Except RErr (List PVal)),
      (∀ x, r = .error x → x = .missingArg ∨ x = .panic .setNotAssignable) →
      ∀ x, vals.foldl (gStep e am) r = .error x → x = .missingArg ∨ x = .panic .setNotAssignable := by
    intro vals
    induction vals with
    | nil => intro r hr x hx; exact hr x hx
    | cons v vs ih =>
      intro r hr x hx
      rw [List.foldl_cons] at hx
      refine ih _ ?_ x hx
      intro y hy
      unfold gStep at hy
      split at hy
      · exact hr _ hy
      · split at hy
        · cases hy; exact Or.inl rfl
        · split at hy
          · cases hy
          · cases hy; exact Or.inr rfl
  exact key _ _ (fun x hx => by cases hx) x h

theorem callDirect_err (c : Ctx) (f : FuncDesc) (am : ArgMap) (s : CallSt) (e : RErr)
    (h : (callDirect c f am s).1 = .error e) : e = .missingArg ∨ e = .panic .setNotAssignable := by
  unfold callDirect at h
  split at h
  · cases h
  · split at h
    · rename_i x hx
      simp only [Except.error.injEq] at h
      subst h
      exact gatherArgs_err _ _ _ _ hx
    · cases h

theorem outputValues_err (c : Ctx) (f : FuncDesc) (r : BehOut) (u : Bool) (s : CallSt) (e : RErr)
    (h : outputValues c f r u s = .error e) : e = .panic .elemOnStruct ∧ c.memoCopy = false := by
  unfold outputValues at h
  split at h
  · rename_i hc
    cases h
    refine ⟨rfl, ?_⟩
    have := hc.2.2.2
    simpa using this
  · cases h

/-! ### the generic propagation argument -/

/-- no local step of `reach` produces an error in `Bad` (except the two sites handled separately:
fuel exhaustion and an unknown function vertex) -/
structure Safe (c : Ctx) (Bad : RErr → Prop) : Prop where
  funcErr : ∀ ε, ¬ Bad (.funcErr ε)
  missingArg : ¬ Bad .missingArg
  setNotAssignable : ¬ Bad (.panic .setNotAssignable)
  elemOnStruct : c.memoCopy = false → ¬ Bad (.panic .elemOnStruct)
  finalValue : ¬ Bad (.panic .finalValue)
  badOracle : ∀ w, ¬ Bad (.badOracle w)
  unsat : ∀ l, ¬ Bad (.unsat l)

def WOK (Bad : RErr → Prop) (w : WalkSt) : Prop := ∀ e, w.err = some e → ¬ Bad e

/-- what is needed of a vertex on a path -/
def VOK (c : Ctx) (Bad : RErr → Prop) (rec : Vtx → CallSt → Except RErr ArgMap × CallSt) (v : Vtx) : Prop :=
  ∀ k, v = .func k →
    (c.funcOf k = none → ¬ Bad (.panic .unknownVertex)) ∧ ∀ s e, (rec v s).1 = .error e → ¬ Bad e

theorem walkStep_ok (c : Ctx) (Bad : RErr → Prop) (hS : Safe c Bad)
    (rec : Vtx → CallSt → Except RErr ArgMap × CallSt) (w : WalkSt) (v : Vtx)
    (hw : WOK Bad w) (hv : VOK c Bad rec v) : WOK Bad (walkStep c rec w v) := by
  cases herr : w.err with
  | some e => rw [walkStep_err c rec herr]; exact hw
  | none =>
    cases v with
    | root => rw [walkStep_root c rec herr]; exact hw
    | value n t u => rw [walkStep_value c rec herr]; exact hw
    | arg t u => rw [walkStep_arg c rec herr]; exact hw
    | out t u => rw [walkStep_out c rec herr]; exact hw
    | func k =>
      obtain ⟨hunk, hrec⟩ := hv k rfl
      cases hf : c.funcOf k with
      | none =>
        rw [walkStep_func_none c rec herr k hf]
        intro e he; cases he; exact hunk hf
      | some f =>
        rcases hrs : rec (Vtx.func k) w.s with ⟨e | am, s1⟩
        · rw [walkStep_func_recErr c rec herr k hf hrs]
          intro e' he'; cases he'
          exact hrec w.s e (by rw [hrs])
        · rcases hcs : callDirect c f am s1 with ⟨e | ⟨r, unw⟩, s2⟩
          · rw [walkStep_func_cdErr c rec herr k hf hrs hcs]
            intro e' he'; cases he'
            rcases callDirect_err c f am s1 e (by rw [hcs]) with rfl | rfl
            · exact hS.missingArg
            · exact hS.setNotAssignable
          · cases hre : r.err with
            | some ε =>
              rw [walkStep_func_funcErr c rec herr k hf hrs hcs hre]
              intro e' he'; cases he'; exact hS.funcErr ε
            | none =>
              cases hov : outputValues c f r unw s2 with
              | error e =>
                rw [walkStep_func_outErr c rec herr k hf hrs hcs hre hov]
                intro e' he'; cases he'
                obtain ⟨rfl, hm⟩ := outputValues_err _ _ _ _ _ _ hov
                exact hS.elemOnStruct hm
              | ok s3 =>
                rw [walkStep_func_ok c rec herr k hf hrs hcs hre hov]
                intro e' he'
                exact hw e' he'

theorem walkFold_ok (c : Ctx) (Bad : RErr → Prop) (hS : Safe c Bad)
    (rec : Vtx → CallSt → Except RErr ArgMap × CallSt) (p : List Vtx) (w : WalkSt)
    (hw : WOK Bad w) (hp : ∀ v ∈ p, VOK c Bad rec v) : WOK Bad (p.foldl (walkStep c rec) w) := by
  induction p generalizing w with
  | nil => exact hw
  | cons v rest ih =>
    rw [List.foldl_cons]
    exact ih _ (walkStep_ok c Bad hS rec w v hw (hp v (by simp)))
      (fun u hu => hp u (List.mem_cons_of_mem _ hu))

theorem walkPaths_ok (c : Ctx) (Bad : RErr → Prop) (hS : Safe c Bad)
    (rec : Vtx → CallSt → Except RErr ArgMap × CallSt) (ps : List (List Vtx))
    (hp : ∀ p ∈ ps, ∀ v ∈ p, VOK c Bad rec v) (am : ArgMap) (s : CallSt) :
    ∀ e, (walkPaths c rec ps am s).1 = .error e → ¬ Bad e := by
  induction ps generalizing am s with
  | nil => intro e h; cases h
  | cons p rest ih =>
    unfold walkPaths
    have hw : WOK Bad (p.foldl (walkStep c rec) { s := s, final := none, prev := none, err := none }) :=
      walkFold_ok c Bad hS rec p _ (fun e he => by cases he) (hp p (by simp))
    generalize p.foldl (walkStep c rec) { s := s, final := none, prev := none, err := none } = w at hw
    dsimp only
    split
    · rename_i e he
      intro e' he'
      cases he'
      exact hw e he
    · split
      · exact ih (fun q hq => hp q (List.mem_cons_of_mem _ hq)) _ _
      · intro e' he'; cases he'; exact hS.finalValue

/-! ### vertices on a valid path -/

theorem mem_verts_of_hasEdge (g : AGraph Vtx) (hwf : g.WF) (u v : Vtx) (h : g.hasEdge u v = true) :
    u ∈ g.verts ∧ v ∈ g.verts := by
  rw [hasEdge_iff] at h
  obtain ⟨e, he, rfl, rfl⟩ := h
  exact hwf.2.2 e he

theorem mem_verts_of_isPathB (g : AGraph Vtx) (hwf : g.WF) (a : Vtx) (rest : List Vtx)
    (hp : AGraph.isPathB g.reverse (a :: rest) = true) : ∀ v ∈ rest, v ∈ g.verts := by
  induction rest generalizing a with
  | nil => intro v hv; cases hv
  | cons b rest' ih =>
    simp only [AGraph.isPathB, Bool.and_eq_true] at hp
    intro v hv
    rcases List.mem_cons.1 hv with rfl | hv
    · exact (mem_verts_of_hasEdge g hwf _ _ ((hasEdge_reverse _ _ _).1 hp.1)).1
    · exact ih b hp.2 v hv

theorem mem_verts_of_valid (g : AGraph Vtx) (hwf : g.WF) (cur : Vtx) (p : List Vtx)
    (h : validPath g cur p = true) : ∀ v ∈ p, v = .root ∨ v ∈ g.verts := by
  simp only [validPath, Bool.and_eq_true, beq_iff_eq] at h
  obtain ⟨⟨⟨_, hhead⟩, _⟩, hpath⟩ := h
  cases p with
  | nil => intro v hv; cases hv
  | cons a rest =>
    simp only [List.head?_cons, Option.some.injEq] at hhead
    subst hhead
    intro v hv
    rcases List.mem_cons.1 hv with rfl | hv
    · exact Or.inl rfl
    · exact Or.inr (mem_verts_of_isPathB g hwf _ rest hpath v hv)

/-! ### the planning loop records every path through the resolution stack -/

theorem planOne_unsat (target : Vtx) (reaching : List Vtx) (tr rd : Bool) (ps : PlanSt) (cp : Vtx × List Vtx) :
    (planOne target reaching tr rd ps cp).unsat =
      ps.unsat ++ ((if tr then cp.2.filter (fun v => decide (v ∈ reaching))
        else cp.2.filter (fun v => decide (v = target))).map (fun _ => cp.1.label)) := by
  unfold planOne
  dsimp only
  split <;> rfl

theorem plan_unsat_mono (target : Vtx) (reaching : List Vtx) (tr rd : Bool) (l : List (Vtx × List Vtx))
    (ps : PlanSt) (h : ps.unsat ≠ []) : (l.foldl (planOne target reaching tr rd) ps).unsat ≠ [] := by
  induction l generalizing ps with
  | nil => exact h
  | cons cp rest ih =>
    rw [List.foldl_cons]
    apply ih
    rw [planOne_unsat]
    intro h'
    exact h (List.append_eq_nil_iff.1 h').1

theorem plan_unsat_empty (target : Vtx) (reaching : List Vtx) (rd : Bool) (l : List (Vtx × List Vtx))
    (ps : PlanSt) (h : (l.foldl (planOne target reaching true rd) ps).unsat = []) :
    ∀ cp ∈ l, ∀ v ∈ cp.2, v ∉ reaching := by
  induction l generalizing ps with
  | nil => intro cp hcp; cases hcp
  | cons cp0 rest ih =>
    rw [List.foldl_cons] at h
    intro cp hcp
    rcases List.mem_cons.1 hcp with rfl | hcp
    · intro v hv hr
      apply plan_unsat_mono target reaching true rd rest _ _ h
      rw [planOne_unsat]
      intro h'
      have h2 := (List.append_eq_nil_iff.1 h').2
      simp only [if_true, List.map_eq_nil_iff, List.filter_eq_nil_iff] at h2
      exact h2 v hv (by simpa using hr)
    · exact ih _ h cp hcp

/-! ### one unfolding of `reach` -/

theorem reach_succ_ok (c : Ctx) (Bad : RErr → Prop) (hS : Safe c Bad) (hwf : c.g.WF) (redefine : Bool)
    (n : Nat) (reaching : List Vtx) (target : Vtx) (s : CallSt)
    (hunk : ∀ k, Vtx.func k ∈ c.g.verts → c.funcOf k = none → ¬ Bad (.panic .unknownVertex))
    (hrec : ∀ k, Vtx.func k ∈ c.g.verts → (c.trackReaching = true → Vtx.func k ∉ target :: reaching) →
      ∀ st e, (reach c redefine n (target :: reaching) (.func k) st).1 = .error e → ¬ Bad e) :
    ∀ e, (reach c redefine (n + 1) reaching target s).1 = .error e → ¬ Bad e := by
  unfold reach
  dsimp only
  generalize (if c.skipRecordsInput then
      ((c.g.outs target).filter (fun v => v == Vtx.root || takenAsIs c s v)).foldl CallSt.addInput s else s) = s1
  split
  · intro e he; cases he; exact hS.badOracle _
  · rename_i item orcRest _
    split
    · intro e he; cases he; exact hS.badOracle _
    · split
      · intro e he; cases he; exact hS.badOracle _
      · split
        · intro e he; cases he
        · split
          · intro e he; cases he; exact hS.badOracle _
          · rename_i hlen
            split
            · intro e he; cases he; exact hS.badOracle _
            · rename_i hvalid
              split
              · intro e he; cases he; exact hS.unsat _
              · rename_i hunsat
                apply walkPaths_ok c Bad hS
                intro p hp v hv k hk
                subst hk
                simp only [ne_eq, Decidable.not_not] at hlen
                obtain ⟨cur, hcur, hz⟩ := zip_snd_mem item.missing item.paths hlen p hp
                have hvalid' : ((item.missing.zip item.paths).all fun cp => validPath c.g cp.1 cp.2) = true := by
                  simpa using hvalid
                have hvp := List.all_eq_true.1 hvalid' _ hz
                have hmem : Vtx.func k ∈ c.g.verts := by
                  rcases mem_verts_of_valid c.g hwf cur p hvp _ hv with h | h
                  · cases h
                  · exact h
                refine ⟨hunk k hmem, hrec k hmem ?_⟩
                intro htr
                rw [htr] at hunsat
                have hun : ((item.missing.zip item.paths).foldl
                    (planOne target (target :: reaching) true redefine)
                    { s := { s1 with orc := orcRest }, unsat := [] }).unsat = [] := by
                  simpa using hunsat
                exact plan_unsat_empty target (target :: reaching) redefine _ _ hun _ hz _ hv

/-! ### the measure -/

theorem filter_length_le {α : Type} (p q : α → Bool) (hpq : ∀ x, q x = true → p x = true) (l : List α) :
    (l.filter q).length ≤ (l.filter p).length := by
  induction l with
  | nil => simp
  | cons a l ih =>
    simp only [List.filter_cons]
    cases hq : q a with
    | true => simp [hpq a hq]; exact ih
    | false =>
      cases hp : p a with
      | true => simp; omega
      | false => simpa using ih

theorem filter_length_lt {α : Type} (p q : α → Bool) (hpq : ∀ x, q x = true → p x = true) (l : List α)
    (a : α) (ha : a ∈ l) (hpa : p a = true) (hqa : q a = false) :
    (l.filter q).length < (l.filter p).length := by
  induction l with
  | nil => cases ha
  | cons b l ih =>
    have hle := filter_length_le p q hpq l
    simp only [List.filter_cons]
    rcases List.mem_cons.1 ha with rfl | ha
    · simp [hpa, hqa]; omega
    · have := ih ha
      cases hq : q b with
      | true => simp [hpq b hq]; exact this
      | false =>
        cases hp : p b with
        | true => simp; omega
        | false => simpa using this

/-- function vertices not yet on the resolution stack -/
def measure (g : AGraph Vtx) (reaching : List Vtx) : Nat :=
  ((g.verts.filter Vtx.isFunc).filter (fun v => !decide (v ∈ reaching))).length

theorem measure_lt (g : AGraph Vtx) (reaching : List Vtx) (target : Vtx) (ht : target ∈ g.verts)
    (htf : target.isFunc = true) (hnr : target ∉ reaching) :
    measure g (target :: reaching) < measure g reaching := by
  unfold measure
  apply filter_length_lt _ _ _ _ target
  · exact List.mem_filter.2 ⟨ht, htf⟩
  · simpa using hnr
  · simp
  · intro x hx
    simp only [List.mem_cons, not_or, Bool.not_eq_eq_eq_not, Bool.not_true, decide_eq_false_iff_not] at hx ⊢
    exact hx.2

def IsFuel : RErr → Prop := fun e => e = .outOfFuel

theorem safe_fuel (c : Ctx) : Safe c IsFuel := by
  constructor <;> intros <;> intro h <;> cases h

theorem reach_fuel (c : Ctx) (htr : c.trackReaching = true) (hwf : c.g.WF) (redefine : Bool)
    (fuel : Nat) (reaching : List Vtx) (target : Vtx) (s : CallSt)
    (ht : target ∈ c.g.verts) (htf : target.isFunc = true) (hnr : target ∉ reaching)
    (hfuel : measure c.g reaching ≤ fuel) :
    (reach c redefine fuel reaching target s).1 ≠ .error .outOfFuel := by
  induction fuel generalizing reaching target s with
  | zero =>
    have := measure_lt c.g reaching target ht htf hnr
    omega
  | succ n ih =>
    intro h
    refine reach_succ_ok c IsFuel (safe_fuel c) hwf redefine n reaching target s ?_ ?_ _ h rfl
    · intro k _ _ h; cases h
    · intro k hk hnr' st e he hb
      cases hb
      have hlt := measure_lt c.g reaching target ht htf hnr
      exact ih (target :: reaching) (.func k) st hk rfl (hnr' htr) (by omega) he

theorem callWith_outOfFuel (c : Ctx) (cgr : CallGraphResult) (target : FuncDesc) (fuel : Nat) (s0 : CallSt)
    (h : (callWith c cgr target fuel s0).1 = .outOfFuel) :
    (reach c false fuel [] cgr.target s0).1 = .error .outOfFuel := by
  unfold callWith at h
  split at h
  · cases h
  · split at h <;> first | (rename_i heq; rw [heq]) | skip
    all_goals first
      | cases h
      | rfl
      | skip
    all_goals
      split at h
      · cases h
      · cases h
      · split at h <;> cases h

/-- executable test for "ran out of fuel" (`Except RErr ArgMap` has no `DecidableEq`) -/
def isOutOfFuel : Except RErr ArgMap → Bool
  | .error .outOfFuel => true
  | _ => false

theorem eq_of_isOutOfFuel {r : Except RErr ArgMap} (h : isOutOfFuel r = true) : r = .error .outOfFuel := by
  unfold isOutOfFuel at h
  split at h
  · rfl
  · cases h

/-! ### panic sites -/

def IsPanic3 : RErr → Prop := fun e =>
  e = .panic .elemOnStruct ∨ e = .panic .unknownVertex ∨ e = .panic .emptyPath

theorem safe_panic3 (c : Ctx) (hmc : c.memoCopy = true) : Safe c IsPanic3 := by
  constructor
  case elemOnStruct => intro h; rw [hmc] at h; cases h
  all_goals intros; intro h; rcases h with h | h | h <;> cases h

theorem reach_panic3 (c : Ctx) (hmc : c.memoCopy = true)
    (hfun : ∀ k, Vtx.func k ∈ c.g.verts → (c.funcOf k).isSome = true) (hwf : c.g.WF)
    (redefine : Bool) (fuel : Nat) (reaching : List Vtx) (target : Vtx) (s : CallSt) :
    ∀ e, (reach c redefine fuel reaching target s).1 = .error e → ¬ IsPanic3 e := by
  induction fuel generalizing reaching target s with
  | zero =>
    unfold reach
    intro e he; cases he
    intro h; rcases h with h | h | h <;> cases h
  | succ n ih =>
    apply reach_succ_ok c IsPanic3 (safe_panic3 c hmc) hwf redefine n reaching target s
    · intro k hk hf
      have := hfun k hk
      rw [hf] at this; cases this
    · intro k _ _ st e he
      exact ih _ _ _ e he

/-! ### options -/

theorem setTyped_errs (b : Builder) (v : Option Val) : (setTyped b v).errs = b.errs := by
  unfold setTyped; split <;> rfl

theorem setTypedSub_errs (b : Builder) (v : Option Val) (st : String) : (setTypedSub b v st).errs = b.errs := by
  unfold setTypedSub; split
  · exact setTyped_errs b v
  · split <;> rfl

theorem setNamed_errs (b : Builder) (n : String) (v : Option Val) : (setNamed b n v).errs = b.errs := by
  unfold setNamed; split
  · exact setTyped_errs b v
  · split <;> rfl

theorem setNamedSub_errs (b : Builder) (n : String) (v : Option Val) (st : String) :
    (setNamedSub b n v st).errs = b.errs := by
  unfold setNamedSub; split
  · exact setTypedSub_errs b v st
  · split
    · exact setNamed_errs b n v
    · split <;> rfl

theorem foldl_setTyped_errs (vs : List (Option Val)) (b : Builder) : (vs.foldl setTyped b).errs = b.errs := by
  induction vs generalizing b with
  | nil => rfl
  | cons v vs ih => rw [List.foldl_cons, ih, setTyped_errs]

theorem addConvs_errs_le (fs : List (Option Nat)) (b : Builder) : b.errs ≤ (addConvs b fs).errs := by
  induction fs generalizing b with
  | nil => exact Nat.le_refl _
  | cons f fs ih =>
    cases f with
    | none => simp [addConvs]
    | some x => exact ih { b with convs := b.convs ++ [x] }

theorem addConvs_errs_lt (fs : List (Option Nat)) (h : none ∈ fs) (b : Builder) :
    b.errs < (addConvs b fs).errs := by
  induction fs generalizing b with
  | nil => cases h
  | cons f fs ih =>
    cases f with
    | none => simp [addConvs]
    | some x =>
      have : none ∈ fs := by simpa using h
      exact ih this { b with convs := b.convs ++ [x] }

theorem applyOpt_errs_le (b : Builder) (o : Opt) : b.errs ≤ (applyOpt b o).errs := by
  cases o <;> simp only [applyOpt]
  case named => rw [setNamed_errs]; exact Nat.le_refl _
  case namedSub => rw [setNamedSub_errs]; exact Nat.le_refl _
  case typed => rw [foldl_setTyped_errs]; exact Nat.le_refl _
  case typedSub => rw [setTypedSub_errs]; exact Nat.le_refl _
  case conv => exact addConvs_errs_le _ _
  all_goals exact Nat.le_refl _

theorem foldl_applyOpt_errs_le (opts : List Opt) (b : Builder) : b.errs ≤ (opts.foldl applyOpt b).errs := by
  induction opts generalizing b with
  | nil => exact Nat.le_refl _
  | cons o rest ih => rw [List.foldl_cons]; exact Nat.le_trans (applyOpt_errs_le b o) (ih _)

theorem foldl_applyOpt_errs_pos (opts : List Opt) (fs : List (Option Nat)) (hm : Opt.conv fs ∈ opts)
    (hn : none ∈ fs) (b : Builder) : 0 < (opts.foldl applyOpt b).errs := by
  induction opts generalizing b with
  | nil => cases hm
  | cons o rest ih =>
    rw [List.foldl_cons]
    rcases List.mem_cons.1 hm with rfl | hm
    · have h1 : b.errs < (applyOpt b (.conv fs)).errs := addConvs_errs_lt fs hn b
      have h2 := foldl_applyOpt_errs_le rest (applyOpt b (.conv fs))
      omega
    · exact ih hm _

theorem build_optErr (opts : List Opt) (hnil : Opt.nilOpt ∉ opts) (fs : List (Option Nat))
    (hm : Opt.conv fs ∈ opts) (hn : none ∈ fs) : ∃ b, build opts = .optErr b := by
  unfold build
  rw [buildFrom_of_not_mem opts hnil]
  have := foldl_applyOpt_errs_pos opts fs hm hn Builder.empty
  refine ⟨opts.foldl applyOpt Builder.empty, ?_⟩
  rw [if_neg (by omega)]

end ArgMapper.Termination
