import ArgMapper.Model.Gens
import ArgMapper.Proofs.Prune
/-!
# Helper lemmas for the converter-generator properties (`ArgMapper/Props/Gens.lean`)

* a closed form of `runGens`: `none` iff some generator reports an error for some vertex of the
  order, otherwise the concatenation over the order of the functions returned per vertex;
* the vertices reported by `inputsGraph` are in the graph before the generators run.
-/
namespace ArgMapper
namespace GensLemmas

/-! ### the closed form of `runGens` -/

/-- the function a generator result carries -/
def resFunc : GenRes → Option Nat
  | .func fid => some fid
  | _ => none

/-- the functions the generators return for `v`, in generator order -/
def outs (genOf : Nat → Vtx → GenRes) (gens : List Nat) (v : Vtx) : List Nat :=
  gens.filterMap (fun g => resFunc (genOf g v))

/-- some generator reports an error for `v` -/
def bad (genOf : Nat → Vtx → GenRes) (gens : List Nat) (v : Vtx) : Bool :=
  gens.any (fun g => genOf g v == .err)

/-- the step function of the inner loop of `runGens` -/
def gstep (genOf : Nat → Vtx → GenRes) (v : Vtx) (acc : Option (List Nat)) (g : Nat) : Option (List Nat) :=
  match acc with
  | none => none
  | some l =>
    match genOf g v with
    | .nothing => some l
    | .func fid => some (l ++ [fid])
    | .err => none

theorem foldl_gstep_none (genOf : Nat → Vtx → GenRes) (v : Vtx) (gens : List Nat) :
    gens.foldl (gstep genOf v) none = none := by
  induction gens with
  | nil => rfl
  | cons g gens ih => rw [List.foldl_cons]; exact ih

theorem foldl_gstep_some (genOf : Nat → Vtx → GenRes) (v : Vtx) (gens : List Nat) :
    ∀ l, gens.foldl (gstep genOf v) (some l) =
      if bad genOf gens v then none else some (l ++ outs genOf gens v) := by
  induction gens with
  | nil => intro l; simp [bad, outs]
  | cons g gens ih =>
    intro l
    rw [List.foldl_cons]
    cases hg : genOf g v with
    | nothing =>
      have : gstep genOf v (some l) g = some l := by simp [gstep, hg]
      rw [this, ih]
      simp [bad, outs, hg, resFunc]
    | func fid =>
      have : gstep genOf v (some l) g = some (l ++ [fid]) := by simp [gstep, hg]
      rw [this, ih]
      simp [bad, outs, hg, resFunc]
    | err =>
      have : gstep genOf v (some l) g = none := by simp [gstep, hg]
      rw [this, foldl_gstep_none]
      simp [bad, hg]

theorem runGens_cons (genOf : Nat → Vtx → GenRes) (gens : List Nat) (v : Vtx) (rest : List Vtx) :
    runGens genOf gens (v :: rest) =
      if bad genOf gens v then none
      else (runGens genOf gens rest).map (fun l' => outs genOf gens v ++ l') := by
  have h := foldl_gstep_some genOf v gens []
  show (match gens.foldl (gstep genOf v) (some []), runGens genOf gens rest with
    | some l, some l' => some (l ++ l')
    | _, _ => none) = _
  rw [h]
  cases hb : bad genOf gens v
  · cases runGens genOf gens rest <;> simp
  · simp

/-- closed form of the generator loop -/
theorem runGens_eq (genOf : Nat → Vtx → GenRes) (gens : List Nat) (order : List Vtx) :
    runGens genOf gens order =
      if order.any (bad genOf gens) then none else some (order.flatMap (outs genOf gens)) := by
  induction order with
  | nil => simp [runGens]
  | cons v rest ih =>
    rw [runGens_cons, ih]
    cases hb : bad genOf gens v
    · cases hr : rest.any (bad genOf gens) <;> simp [hb, hr]
    · simp [hb]

theorem any_bad_iff (genOf : Nat → Vtx → GenRes) (gens : List Nat) (order : List Vtx) :
    order.any (bad genOf gens) = true ↔ ∃ v ∈ order, ∃ g ∈ gens, genOf g v = .err := by
  simp [bad, List.any_eq_true]

theorem runGens_eq_none_iff (genOf : Nat → Vtx → GenRes) (gens : List Nat) (order : List Vtx) :
    runGens genOf gens order = none ↔ ∃ v ∈ order, ∃ g ∈ gens, genOf g v = .err := by
  rw [runGens_eq, ← any_bad_iff]
  cases order.any (bad genOf gens) <;> simp

theorem runGens_eq_some (genOf : Nat → Vtx → GenRes) (gens : List Nat) (order : List Vtx) (l : List Nat)
    (h : runGens genOf gens order = some l) : l = order.flatMap (outs genOf gens) := by
  rw [runGens_eq] at h
  split at h
  · cases h
  · exact (Option.some.inj h).symm

theorem mem_outs (genOf : Nat → Vtx → GenRes) (gens : List Nat) (v : Vtx) (fid : Nat) :
    fid ∈ outs genOf gens v ↔ ∃ g ∈ gens, genOf g v = .func fid := by
  simp only [outs, List.mem_filterMap]
  constructor
  · rintro ⟨g, hg, h⟩
    refine ⟨g, hg, ?_⟩
    cases hr : genOf g v <;> rw [hr] at h <;> simp [resFunc] at h
    rw [h]
  · rintro ⟨g, hg, h⟩
    exact ⟨g, hg, by rw [h]; rfl⟩

theorem runGens_nil_gens (genOf : Nat → Vtx → GenRes) (order : List Vtx) :
    runGens genOf [] order = some [] := by
  rw [runGens_eq]
  have h1 : order.any (bad genOf []) = false := by simp [bad]
  have h2 : order.flatMap (outs genOf []) = [] := by simp [outs]
  rw [h1, h2]
  rfl

theorem any_bad_perm (genOf : Nat → Vtx → GenRes) (gens : List Nat) {o₁ o₂ : List Vtx} (hp : o₁.Perm o₂) :
    o₁.any (bad genOf gens) = o₂.any (bad genOf gens) := by
  induction hp with
  | nil => rfl
  | cons x _ ih => simp [List.any_cons, ih]
  | swap x y l => simp only [List.any_cons]; rw [← Bool.or_assoc, ← Bool.or_assoc, Bool.or_comm (bad genOf gens y)]
  | trans _ _ ih1 ih2 => exact ih1.trans ih2

theorem flatMap_perm {α β : Type} (f : α → List β) {l₁ l₂ : List α} (hp : l₁.Perm l₂) :
    (l₁.flatMap f).Perm (l₂.flatMap f) := by
  induction hp with
  | nil => exact .refl _
  | cons x _ ih => simp only [List.flatMap_cons]; exact List.Perm.append_left _ ih
  | swap x y l =>
    simp only [List.flatMap_cons, ← List.append_assoc]
    exact List.Perm.append_right _ List.perm_append_comm
  | trans _ _ ih1 ih2 => exact ih1.trans ih2

/-! ### the snapshot -/

open Prune

theorem convFold_eq (funcs : Nat → Option FuncDesc) (l : List Nat) (c : CG) :
    l.foldl (fun c fid => match funcs fid with
      | some f => funcGraph c f true
      | none => c) c = l.foldl (convStep funcs) c := rfl

theorem preGenGraph_eq (b : Builder) (funcs : Nat → Option FuncDesc) (target : FuncDesc) :
    preGenGraph b funcs target = b.convs.foldl (convStep funcs) (inputsCG (base target) b) := by
  unfold preGenGraph
  dsimp only
  rw [inputsGraph_eq]
  rfl

theorem ext_convs (funcs : Nat → Option FuncDesc) (l : List Nat) (c : CG) (hroot : Vtx.root ∈ c.g.verts) :
    Ext (fun _ _ => True) c (l.foldl (convStep funcs) c) := by
  apply Ext.foldl' (R := fun _ _ => True)
  intro c' fid _ hc
  unfold convStep
  split
  · next f hf =>
    exact ext_funcGraph c' f true (hc.verts hroot) (fun _ => trivial) (fun _ _ => trivial)
      (fun _ _ _ => trivial) (fun _ _ _ => trivial)
  · exact .refl _

theorem inputsList_kind (b : Builder) (u : Vtx) (hu : u ∈ inputsList b) :
    (u.isValue || u.isOut) = true := by
  simp only [inputsList, List.mem_append, List.mem_map] at hu
  rcases hu with ((⟨p, _, rfl⟩ | ⟨p, _, rfl⟩) | ⟨p, _, rfl⟩) | ⟨p, _, rfl⟩ <;> rfl

theorem inputs_mem_preGen (b : Builder) (funcs : Nat → Option FuncDesc) (target : FuncDesc) (v : Vtx)
    (h : v ∈ inputsList b) : v ∈ (preGenGraph b funcs target).g.verts := by
  have e0 : Ext (fun _ _ => True) (CG.empty.add .root) (base target) :=
    ext_base target (fun _ => trivial) (fun _ _ => trivial)
  have hroot : Vtx.root ∈ (base target).g.verts := e0.verts root_mem_init
  have e1 : Ext (fun _ _ => True) (base target) (inputsCG (base target) b) :=
    ext_inputsCG _ b hroot (fun _ _ => trivial)
  have hwf : (inputsCG (base target) b).g.WF := e1.wf (e0.wf wf_init)
  have hv : v ∈ (inputsCG (base target) b).g.verts :=
    (hasEdge_mem_verts _ hwf _ _ (inputsCG_edge_root _ b hroot v h)).1
  rw [preGenGraph_eq]
  exact (ext_convs funcs b.convs _ (e1.verts hroot)).verts hv

end GensLemmas
end ArgMapper
