import ArgMapper.Proofs.Dijkstra
/-!
# Helper lemmas for C18: exactness of the distances (non-negative weights, no `int32` overflow)

The invariant has two phases.  While some reachable vertex is still unvisited the state is `Clean`
(the classical Dijkstra invariant, plus the bound `dist ≤ fsum visited` that rules out overflow).
As soon as a vertex is popped at distance `MaxInt32`, every reachable vertex has been visited
(`Done`); from then on relaxations may produce wrapped garbage, but only on unvisited —
hence unreachable — vertices, and `Base` (the facts about visited reachable vertices) is frozen.
-/
namespace ArgMapper.DijkstraProofs
open ArgMapper AGraph Dijkstra
variable {α : Type} [DecidableEq α]

/-- copy of `C18.PathFromTo` -/
def PathFT (g : AGraph α) (u v : α) (p : List α) : Prop :=
  p.head? = some u ∧ p.getLast? = some v ∧ IsPath g p

/-- copy of `C18.IsDist` -/
def DistSpec (g : AGraph α) (u v : α) (d : Int) : Prop :=
  (∃ p, PathFT g u v p ∧ pathWeight g p = d) ∧ ∀ p, PathFT g u v p → d ≤ pathWeight g p

/-- standing hypotheses on the graph -/
structure Hyp (g : AGraph α) (src : α) : Prop where
  wf : g.WF
  src_mem : src ∈ g.verts
  nonneg : NonNeg g
  total : wsum g.edges < maxInt32

theorem wrap32_id {x : Int} (h0 : 0 ≤ x) (h1 : x < maxInt32) : wrap32 x = x := by
  unfold wrap32; unfold maxInt32 at h1; omega

theorem pathFT_snoc {g : AGraph α} {s a b : α} {w : Int} {p : List α} (hp : PathFT g s a p)
    (hw : g.weight a b = some w) :
    PathFT g s b (p ++ [b]) ∧ pathWeight g (p ++ [b]) = pathWeight g p + w := by
  obtain ⟨hh, hl, hi⟩ := hp
  refine ⟨⟨?_, by simp, isPath_snoc hl hi (hasEdge_iff_weight.2 ⟨w, hw⟩)⟩, ?_⟩
  · cases p with
    | nil => simp at hh
    | cons x xs => simpa using hh
  · rw [pathWeight_snoc hl, hw]; rfl

theorem reach_verts {g : AGraph α} {src : α} (h : Hyp g src) {y : α} (hr : Reach g src y) :
    y ∈ g.verts := by
  induction hr with
  | refl => exact h.src_mem
  | step _ he _ =>
    obtain ⟨w, hw⟩ := hasEdge_iff_weight.1 he
    exact (h.wf.2.2 _ (weight_some_mem hw)).2

/-- how `x` got its distance: it is the source, or via its predecessor -/
def Link (g : AGraph α) (src : α) (s : DSt α) (x : α) : Prop :=
  (x = src ∧ s.prev x = none ∧ s.dist x = 0) ∨
  ∃ a w, s.prev x = some a ∧ a ∈ s.visited ∧ Reach g src a ∧ g.weight a x = some w ∧
    s.dist x = s.dist a + w

theorem link_transfer {g : AGraph α} {src : α} {s s' : DSt α} {x : α} (h : Link g src s x)
    (hd : s'.dist x = s.dist x) (hp : s'.prev x = s.prev x)
    (hv : ∀ a, a ∈ s.visited → a ∈ s'.visited ∧ s'.dist a = s.dist a) : Link g src s' x := by
  rcases h with ⟨h1, h2, h3⟩ | ⟨a, w, h1, h2, h3, h4, h5⟩
  · exact Or.inl ⟨h1, hp.trans h2, hd.trans h3⟩
  · exact Or.inr ⟨a, w, hp.trans h1, (hv a h2).1, h3, h4, by rw [hd, (hv a h2).2]; exact h5⟩

/-- facts about visited reachable vertices; never invalidated -/
def Base (g : AGraph α) (src : α) (s : DSt α) : Prop :=
  ∀ x, x ∈ s.visited → Reach g src x → DistSpec g src x (s.dist x) ∧ Link g src s x

/-- all reachable vertices are visited -/
def Done (g : AGraph α) (src : α) (s : DSt α) : Prop := ∀ y, Reach g src y → y ∈ s.visited

/-- the Dijkstra invariant of the overflow-free phase -/
structure Clean (g : AGraph α) (src : α) (s : DSt α) : Prop where
  nonneg : ∀ x, 0 ≤ s.dist x
  src0 : s.dist src = 0
  link : ∀ x, s.dist x < maxInt32 → Link g src s x
  bound : ∀ x, s.dist x = maxInt32 ∨ s.dist x ≤ fsum g s.visited
  edge : ∀ a, a ∈ s.visited → ∀ x w, g.weight a x = some w →
    (x ∉ s.visited → s.dist x ≤ s.dist a + w) ∧ s.dist a + w ≤ fsum g s.visited

theorem clean_init (g : AGraph α) (src : α) : Clean g src (init src) := by
  refine ⟨?_, by simp [init], ?_, ?_, ?_⟩
  · intro x; simp only [init]; split <;> simp [maxInt32]
  · intro x hx
    simp only [init] at hx
    split at hx
    · rename_i h; exact Or.inl ⟨h, rfl, by simp [init, h]⟩
    · omega
  · intro x
    by_cases h : x = src
    · right; simp [init, h, fsum_nil]
    · left; simp [init, h]
  · intro a ha; simp [init] at ha

theorem base_init (g : AGraph α) (src : α) : Base g src (init src) := by
  intro x hx; simp [init] at hx

/-- lower bound: a path that leaves the visited set passes an unvisited vertex of small `dist` -/
theorem lb_aux {g : AGraph α} {src : α} (h : Hyp g src) {s : DSt α} (hB : Base g src s)
    (hC : Clean g src s) : ∀ (p : List α) (a y : α), a ∈ s.visited → Reach g src a →
    p.head? = some a → p.getLast? = some y → IsPath g p → y ∉ s.visited →
    ∃ z, z ∈ g.verts ∧ z ∉ s.visited ∧ s.dist z ≤ s.dist a + pathWeight g p ∧
      s.dist z < maxInt32
  | [], _, _, _, _, hh, _, _, _ => by simp at hh
  | [x], a, y, ha, _, hh, hl, _, hy => by
    simp at hh hl; subst hh; subst hl; exact absurd ha hy
  | x :: b :: rest, a, y, ha, hra, hh, hl, hp, hy => by
    simp at hh; subst hh
    have hl' : (b :: rest).getLast? = some y := by
      simpa [List.getLast?_cons_cons] using hl
    obtain ⟨w, hw⟩ := hasEdge_iff_weight.1 hp.1
    have hbv : b ∈ g.verts := (h.wf.2.2 _ (weight_some_mem hw)).2
    have hpw : pathWeight g (x :: b :: rest) = w + pathWeight g (b :: rest) := by
      simp only [pathWeight, hw, Option.getD_some]
    by_cases hb : b ∈ s.visited
    · have hrb : Reach g src b := Reach.step hra hp.1
      obtain ⟨z, hz1, hz2, hz3, hz4⟩ := lb_aux h hB hC (b :: rest) b y hb hrb rfl hl' hp.2 hy
      refine ⟨z, hz1, hz2, ?_, hz4⟩
      obtain ⟨⟨pa, hpa, hpaw⟩, _⟩ := (hB x ha hra).1
      obtain ⟨hq1, hq2⟩ := pathFT_snoc hpa hw
      have := (hB b hb hrb).1.2 _ hq1
      omega
    · obtain ⟨he1, he2⟩ := hC.edge x ha b w hw
      have := he1 hb
      have := pathWeight_nonneg h.nonneg (b :: rest)
      have := fsum_le_total h.nonneg s.visited
      have := h.total
      exact ⟨b, hbv, hb, by omega, by omega⟩

theorem lb {g : AGraph α} {src : α} (h : Hyp g src) {s : DSt α} (hB : Base g src s)
    (hC : Clean g src s) (p : List α) (y : α) (hp : PathFT g src y p) (hy : y ∉ s.visited) :
    ∃ z, z ∈ g.verts ∧ z ∉ s.visited ∧ s.dist z ≤ pathWeight g p ∧ s.dist z < maxInt32 := by
  by_cases hs : src ∈ s.visited
  · obtain ⟨z, h1, h2, h3, h4⟩ := lb_aux h hB hC p src y hs (Reach.refl _) hp.1 hp.2.1 hp.2.2 hy
    have := hC.src0
    exact ⟨z, h1, h2, by omega, h4⟩
  · have := hC.src0
    have := pathWeight_nonneg h.nonneg p
    exact ⟨src, h.src_mem, hs, by omega, by rw [hC.src0]; decide⟩

/-- `pop_spec` with the projections of the intermediate state simplified away -/
theorem pop_facts (g : AGraph α) (s : DSt α) (u : α) :
    (pop g s u).visited = u :: s.visited ∧
    (∀ x, x ∈ u :: s.visited → (pop g s u).dist x = s.dist x ∧ (pop g s u).prev x = s.prev x) ∧
    (∀ x, (pop g s u).dist x ≤ s.dist x) ∧
    (∀ x w, (x, w) ∈ g.outsW u → x ∉ u :: s.visited →
      (pop g s u).dist x ≤ wrap32 (s.dist u + wrap32 w)) ∧
    (∀ x, ((pop g s u).dist x = s.dist x ∧ (pop g s u).prev x = s.prev x) ∨
      (x ∉ u :: s.visited ∧ (pop g s u).prev x = some u ∧
        ∃ w, (x, w) ∈ g.outsW u ∧ (pop g s u).dist x = wrap32 (s.dist u + wrap32 w) ∧
          (pop g s u).dist x < s.dist x)) :=
  have sp := pop_spec g s u
  ⟨sp.vis, sp.frozen, sp.mono, sp.relaxed, sp.cases⟩

theorem step_done {g : AGraph α} {src : α} {s : DSt α} (u : α) (hB : Base g src s)
    (hD : Done g src s) : Base g src (pop g s u) ∧ Done g src (pop g s u) := by
  obtain ⟨hv, hfro, _, _, _⟩ := pop_facts g s u
  refine ⟨?_, fun y hy => hv ▸ List.mem_cons_of_mem _ (hD y hy)⟩
  intro x _ hr
  have hxv := hD x hr
  obtain ⟨h1, h2⟩ := hB x hxv hr
  have hx' := hfro x (List.mem_cons_of_mem _ hxv)
  refine ⟨hx'.1 ▸ h1, link_transfer h2 hx'.1 hx'.2 ?_⟩
  intro a ha
  exact ⟨hv ▸ List.mem_cons_of_mem _ ha, (hfro a (List.mem_cons_of_mem _ ha)).1⟩

theorem step_clean {g : AGraph α} {src : α} (h : Hyp g src) {s : DSt α} {u : α}
    (hB : Base g src s) (hC : Clean g src s) (huv : u ∉ s.visited)
    (hmin : ∀ x ∈ g.verts, x ∈ s.visited ∨ s.dist u ≤ s.dist x) (hlt : s.dist u < maxInt32) :
    Base g src (pop g s u) ∧ Clean g src (pop g s u) := by
  obtain ⟨hv, hfro, hmono, hrel, hcases⟩ := pop_facts g s u
  generalize pop g s u = s' at hv hfro hmono hrel hcases
  have hlu := hC.link u hlt
  -- `u` is reachable
  have hur : Reach g src u := by
    rcases hlu with ⟨h1, _, _⟩ | ⟨a, w, _, _, h3, h4, _⟩
    · rw [h1]; exact Reach.refl _
    · exact Reach.step h3 (hasEdge_iff_weight.2 ⟨w, h4⟩)
  have hub : s.dist u ≤ fsum g s.visited := by
    rcases hC.bound u with hb | hb
    · omega
    · exact hb
  have hu0 := hC.nonneg u
  have htot := h.total
  have hfs := fsum_le_total h.nonneg (u :: s.visited)
  have hfm := fsum_mono_cons h.nonneg huv
  -- no overflow when relaxing out of `u`
  have hwid : ∀ x w, g.weight u x = some w →
      wrap32 (s.dist u + wrap32 w) = s.dist u + w ∧ 0 ≤ w ∧
      s.dist u + w ≤ fsum g (u :: s.visited) := by
    intro x w hw
    have hw0 := weight_nonneg h.nonneg hw
    have hadd := fsum_add_le h.nonneg huv (weight_some_mem hw)
    rw [wrap32_id hw0 (by omega), wrap32_id (by omega) (by omega)]
    exact ⟨rfl, hw0, by omega⟩
  have hkeep : ∀ a, a ∈ s.visited → a ∈ s'.visited ∧ s'.dist a = s.dist a := fun a ha =>
    ⟨hv ▸ List.mem_cons_of_mem _ ha, (hfro a (List.mem_cons_of_mem _ ha)).1⟩
  have hfu := hfro u (List.mem_cons_self ..)
  -- the popped vertex has its true distance
  have hdu : DistSpec g src u (s.dist u) := by
    constructor
    · rcases hlu with ⟨h1, _, h3⟩ | ⟨a, w, _, h2, h3, h4, h5⟩
      · exact ⟨[u], ⟨by simp [h1], rfl, trivial⟩, by simp [pathWeight, h3]⟩
      · obtain ⟨⟨pa, hpa, hpaw⟩, _⟩ := (hB a h2 h3).1
        obtain ⟨hq1, hq2⟩ := pathFT_snoc hpa h4
        exact ⟨pa ++ [u], hq1, by omega⟩
    · intro p hp
      obtain ⟨z, hz1, hz2, hz3, _⟩ := lb h hB hC p u hp huv
      rcases hmin z hz1 with hz | hz
      · exact absurd hz hz2
      · omega
  refine ⟨?_, ?_, ?_, ?_, ?_, ?_⟩
  · -- Base
    intro x hx hr
    rw [hv] at hx
    have hx' := hfro x hx
    rcases List.mem_cons.1 hx with rfl | hxv
    · exact ⟨hx'.1 ▸ hdu, link_transfer hlu hx'.1 hx'.2 hkeep⟩
    · obtain ⟨h1, h2⟩ := hB x hxv hr
      exact ⟨hx'.1 ▸ h1, link_transfer h2 hx'.1 hx'.2 hkeep⟩
  · -- nonneg
    intro x
    rcases hcases x with ⟨hd, _⟩ | ⟨_, _, w, hw, hd, _⟩
    · rw [hd]; exact hC.nonneg x
    · have := hwid x w ((weight_iff_outsW h.wf).1 hw)
      omega
  · -- src0
    rcases hcases src with ⟨hd, _⟩ | ⟨_, _, w, hw, hd, hl⟩
    · rw [hd]; exact hC.src0
    · have := hwid src w ((weight_iff_outsW h.wf).1 hw)
      have := hC.src0
      omega
  · -- link
    intro x hx
    rcases hcases x with ⟨hd, hp⟩ | ⟨_, hp, w, hw, hd, _⟩
    · exact link_transfer (hC.link x (hd ▸ hx)) hd hp hkeep
    · have hw' := (weight_iff_outsW h.wf).1 hw
      have := hwid x w hw'
      exact Or.inr ⟨u, w, hp, hv ▸ List.mem_cons_self .., hur, hw', by omega⟩
  · -- bound
    intro x
    rw [hv]
    rcases hcases x with ⟨hd, _⟩ | ⟨_, _, w, hw, hd, _⟩
    · rcases hC.bound x with hb | hb
      · exact Or.inl (hd.trans hb)
      · exact Or.inr (by omega)
    · have := hwid x w ((weight_iff_outsW h.wf).1 hw)
      exact Or.inr (by omega)
  · -- edge
    intro a ha x w hw
    rw [hv] at ha ⊢
    rcases List.mem_cons.1 ha with rfl | hav
    · have := hwid x w hw
      refine ⟨fun hx => ?_, by omega⟩
      have := hrel x w (weight_some_mem_outsW hw) hx
      omega
    · obtain ⟨he1, he2⟩ := hC.edge a hav x w hw
      have hda := (hkeep a hav).2
      refine ⟨fun hx => ?_, by omega⟩
      have := he1 (fun hxv => hx (List.mem_cons_of_mem _ hxv))
      have := hmono x
      omega

theorem step {g : AGraph α} {src : α} (h : Hyp g src) {s : DSt α} {u : α}
    (hB : Base g src s) (hI : Clean g src s ∨ Done g src s) (huv : u ∉ s.visited)
    (hmin : ∀ x ∈ g.verts, x ∈ s.visited ∨ s.dist u ≤ s.dist x) :
    Base g src (pop g s u) ∧ (Clean g src (pop g s u) ∨ Done g src (pop g s u)) := by
  rcases hI with hC | hD
  · by_cases hlt : s.dist u < maxInt32
    · obtain ⟨h1, h2⟩ := step_clean h hB hC huv hmin hlt
      exact ⟨h1, Or.inl h2⟩
    · have hD : Done g src s := by
        intro y hy
        apply Classical.byContradiction
        intro hyv
        obtain ⟨p, hp⟩ := path_of_reach hy
        obtain ⟨z, hz1, hz2, _, hz4⟩ := lb h hB hC p y hp hyv
        rcases hmin z hz1 with hz | hz
        · exact hyv (absurd hz hz2)
        · omega
      obtain ⟨h1, h2⟩ := step_done u hB hD
      exact ⟨h1, Or.inr h2⟩
  · obtain ⟨h1, h2⟩ := step_done u hB hD
    exact ⟨h1, Or.inr h2⟩

theorem inv_foldl {g : AGraph α} {src : α} (h : Hyp g src) : ∀ (pops : List α) (s : DSt α),
    Base g src s → (Clean g src s ∨ Done g src s) → legalFrom g s pops = true →
    Base g src (pops.foldl (pop g) s)
  | [], _, hB, _, _ => hB
  | u :: pops, s, hB, hI, hl => by
    simp only [legalFrom, Bool.and_eq_true, decide_eq_true_eq, Bool.not_eq_true',
      decide_eq_false_iff_not, List.all_eq_true, Bool.or_eq_true] at hl
    obtain ⟨⟨⟨_, huv⟩, hmin⟩, hrest⟩ := hl
    obtain ⟨h1, h2⟩ := step h hB hI huv hmin
    exact inv_foldl h pops _ h1 h2 hrest

theorem dist_exact_aux {g : AGraph α} {src : α} (h : Hyp g src) (pops : List α)
    (hl : LegalPops g src pops) (v : α) (hr : Reach g src v) :
    DistSpec g src v ((run g src pops).dist v) ∧
    PathFT g src v (edgeToPath (run g src pops).prev (pops.length + 1) v) ∧
    pathWeight g (edgeToPath (run g src pops).prev (pops.length + 1) v) =
      (run g src pops).dist v := by
  obtain ⟨hleg, hnd, hcov⟩ := hl
  have hB : Base g src (run g src pops) :=
    inv_foldl h pops _ (base_init g src) (Or.inl (clean_init g src)) hleg
  have hvis : ∀ x, x ∈ g.verts → x ∈ (run g src pops).visited := by
    intro x hx; rw [run_visited]; exact List.mem_reverse.2 (hcov x hx)
  obtain ⟨hc, hp, hlast, r, hhead, hrn⟩ := tree_aux g src pops hnd v
  generalize edgeToPath (run g src pops).prev (pops.length + 1) v = c at hc hp hlast hhead
  generalize run g src pops = s at hB hvis hc hrn
  have hvv := hvis v (reach_verts h hr)
  have hG : ∀ x ∈ c, x ∈ s.visited ∧ Reach g src x := by
    refine pchain_all (G := fun x => x ∈ s.visited ∧ Reach g src x) ?_ c v hc hlast ⟨hvv, hr⟩
    intro x u hx hpx
    rcases (hB x hx.1 hx.2).2 with ⟨_, h2, _⟩ | ⟨a, w, h1, h2, h3, _, _⟩
    · rw [h2] at hpx; cases hpx
    · rw [h1] at hpx; cases hpx; exact ⟨h2, h3⟩
  have hrc : r ∈ c := by
    cases c with
    | nil => simp at hhead
    | cons x xs => simp at hhead; subst hhead; exact List.mem_cons_self ..
  have hrs : r = src ∧ s.dist r = 0 := by
    obtain ⟨hr1, hr2⟩ := hG r hrc
    rcases (hB r hr1 hr2).2 with ⟨h1, _, h3⟩ | ⟨a, w, h1, _⟩
    · exact ⟨h1, h3⟩
    · rw [hrn] at h1; cases h1
  have hw := pchain_weight (g := g) (dist := s.dist) c r v hc (by
    intro x hx u hpx
    obtain ⟨hx1, hx2⟩ := hG x hx
    rcases (hB x hx1 hx2).2 with ⟨_, h2, _⟩ | ⟨a, w, h1, _, _, h4, h5⟩
    · rw [h2] at hpx; cases hpx
    · rw [h1] at hpx; cases hpx; exact ⟨w, h4, h5⟩) hhead hlast
  refine ⟨(hB v hvv hr).1, ⟨hrs.1 ▸ hhead, hlast, hp⟩, ?_⟩
  rw [hw, hrs.2]; omega

end ArgMapper.DijkstraProofs
