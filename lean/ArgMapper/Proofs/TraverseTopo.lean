import ArgMapper.Proofs.TraverseReach
/-!
# Helper lemmas for `Props/C20.lean`: `topoShortestPath` computes exact distances on a DAG

The run of `topoShortestPath g L` is flattened into one `foldl` over the sequence of relaxed
edges (`edgeSeq`).  When `L` is a topological order, that sequence has the property that no edge
leaves a vertex before an edge that enters it (`Pairwise (a.1 ≠ b.2.1)`), so the value of a
vertex is final when its out-edges are relaxed.
-/
namespace ArgMapper
namespace TraverseTopo
open AGraph Traverse TraverseReach
variable {α : Type} [DecidableEq α]

/-! ## `lookupD` / `setD` / `topoRelax` -/

theorem lookupD_setD (m : List (α × Int)) (v : α) (x : Int) (y : α) :
    lookupD (setD m v x) y = if y = v then some x else lookupD m y := by
  unfold lookupD setD
  induction m with
  | nil =>
    by_cases h : y = v
    · subst h; simp
    · have : ¬ v = y := fun h' => h h'.symm
      simp [h, this]
  | cons p m ih =>
    by_cases hp : p.1 = v
    · simp only [List.filter_cons, hp, decide_true, Bool.not_true, Bool.false_eq_true, if_false]
      rw [ih]
      by_cases h : y = v
      · simp [h]
      · have : ¬ v = y := fun h' => h h'.symm
        simp [h, hp, this]
    · simp only [List.filter_cons, hp, decide_false, Bool.not_false, if_true, List.cons_append,
        List.find?_cons]
      by_cases hy : p.1 = y
      · have : ¬ y = v := fun h' => hp (hy.trans h')
        simp [hy, this]
      · simp only [hy, decide_false]
        exact ih

theorem relax_spec (s : TopoSt α) (u v : α) (w : Int) :
    (∀ y, y ≠ v → lookupD (topoRelax u s (v, w)).dist y = lookupD s.dist y) ∧
    ∃ d', lookupD (topoRelax u s (v, w)).dist v = some d' ∧
      d' ≤ (lookupD s.dist u).getD 0 + w ∧
      (∀ dv, lookupD s.dist v = some dv → d' ≤ dv) ∧
      (d' = (lookupD s.dist u).getD 0 + w ∨ lookupD s.dist v = some d') := by
  unfold topoRelax
  split
  · rename_i hnone
    simp only at hnone
    refine ⟨fun y hy => by simp [lookupD_setD, hy], _, by simp [lookupD_setD], Int.le_refl _, ?_, Or.inl rfl⟩
    intro dv hdv
    rw [hnone] at hdv
    cases hdv
  · rename_i dv hsome
    simp only at hsome
    split
    · rename_i hgt
      refine ⟨fun y hy => by simp [lookupD_setD, hy], _, by simp [lookupD_setD], Int.le_refl _, ?_,
        Or.inl rfl⟩
      intro dv' hdv'
      rw [hsome] at hdv'
      cases hdv'
      omega
    · rename_i hle
      refine ⟨fun y _ => rfl, dv, hsome, by omega, ?_, Or.inr hsome⟩
      intro dv' hdv'
      rw [hsome] at hdv'
      cases hdv'
      exact Int.le_refl _

/-! ## paths extended by one edge -/

theorem isPath_snoc {g : AGraph α} : ∀ (p : List α) (u v : α), p.getLast? = some u → IsPath g p →
    g.hasEdge u v = true → IsPath g (p ++ [v]) := by
  intro p
  induction p with
  | nil => intro u v h; simp at h
  | cons a p ih =>
    intro u v hl hp he
    cases p with
    | nil =>
      simp at hl
      subst hl
      exact ⟨he, trivial⟩
    | cons b q =>
      rw [List.getLast?_cons_cons] at hl
      exact ⟨hp.1, ih u v hl hp.2 he⟩

theorem pathWeight_snoc {g : AGraph α} : ∀ (p : List α) (u v : α), p.getLast? = some u →
    pathWeight g (p ++ [v]) = pathWeight g p + (g.weight u v).getD 0 := by
  intro p
  induction p with
  | nil => intro u v h; simp at h
  | cons a p ih =>
    intro u v hl
    cases p with
    | nil =>
      simp at hl
      subst hl
      simp [pathWeight]
    | cons b q =>
      rw [List.getLast?_cons_cons] at hl
      have := ih u v hl
      simp only [List.cons_append] at this ⊢
      simp only [pathWeight]
      rw [this]
      omega

/-! ## rank of a vertex in a topological order -/

section Rank
variable {g : AGraph α} {L : List α}

theorem idxOf_of_getElem? (hnd : L.Nodup) {i : Nat} {a : α} (h : L[i]? = some a) :
    L.idxOf a = i := by
  obtain ⟨hi, rfl⟩ := List.getElem?_eq_some_iff.mp h
  exact hnd.idxOf_getElem i hi

theorem edge_rank (hnd : L.Nodup)
    (hord : ∀ e ∈ g.edges, ∃ i j : Nat, L[i]? = some e.1 ∧ L[j]? = some e.2.1 ∧ i < j)
    {u v : α} (h : g.hasEdge u v = true) : L.idxOf u < L.idxOf v := by
  obtain ⟨w, hw⟩ := hasEdge_iff_mem.mp h
  obtain ⟨i, j, hi, hj, hij⟩ := hord _ hw
  rw [idxOf_of_getElem? hnd hi, idxOf_of_getElem? hnd hj]
  exact hij

theorem reach_rank (hnd : L.Nodup)
    (hord : ∀ e ∈ g.edges, ∃ i j : Nat, L[i]? = some e.1 ∧ L[j]? = some e.2.1 ∧ i < j)
    {u v : α} (h : Reach g u v) : L.idxOf u ≤ L.idxOf v := by
  induction h with
  | refl => exact Nat.le_refl _
  | step _ he ih => exact Nat.le_trans ih (Nat.le_of_lt (edge_rank hnd hord he))

end Rank

/-! ## the flattened sequence of relaxations -/

def relaxE (s : TopoSt α) (e : α × α × Int) : TopoSt α := topoRelax e.1 s (e.2.1, e.2.2)

def edgeSeq (g : AGraph α) (L : List α) : List (α × α × Int) :=
  L.flatMap (fun u => (g.outsW u).map (fun e => (u, e.1, e.2)))

theorem topo_eq_foldl (g : AGraph α) (L : List α) :
    topoShortestPath g L = (edgeSeq g L).foldl relaxE { dist := [], prev := [] } := by
  unfold topoShortestPath edgeSeq
  rw [List.foldl_flatMap]
  congr 1
  funext s u
  rw [List.foldl_map]
  rfl

theorem mem_edgeSeq {g : AGraph α} {L : List α} {e : α × α × Int} :
    e ∈ edgeSeq g L ↔ e.1 ∈ L ∧ e ∈ g.edges := by
  unfold edgeSeq
  simp only [List.mem_flatMap, List.mem_map]
  constructor
  · rintro ⟨u, hu, ⟨v, w⟩, hm, rfl⟩
    exact ⟨hu, mem_outsW.mp hm⟩
  · obtain ⟨u, v, w⟩ := e
    rintro ⟨hu, hm⟩
    exact ⟨u, hu, (v, w), mem_outsW.mpr hm, rfl⟩

theorem edgeSeq_pairwise {g : AGraph α} {L : List α} (hnd : L.Nodup)
    (hord : ∀ e ∈ g.edges, ∃ i j : Nat, L[i]? = some e.1 ∧ L[j]? = some e.2.1 ∧ i < j) :
    (edgeSeq g L).Pairwise (fun a b => a.1 ≠ b.2.1) := by
  have hrank : ∀ b ∈ edgeSeq g L, L.idxOf b.1 < L.idxOf b.2.1 := by
    intro b hb
    obtain ⟨u, v, w⟩ := b
    exact edge_rank hnd hord (hasEdge_of_mem (mem_edgeSeq.mp hb).2)
  have hsrc : (edgeSeq g L).Pairwise (fun a b => L.idxOf a.1 ≤ L.idxOf b.1) := by
    unfold edgeSeq
    rw [List.pairwise_flatMap]
    constructor
    · intro u _
      apply List.pairwise_of_forall_mem_list
      intro a ha b hb
      simp only [List.mem_map] at ha hb
      obtain ⟨_, _, rfl⟩ := ha
      obtain ⟨_, _, rfl⟩ := hb
      exact Nat.le_refl _
    · rw [List.pairwise_iff_getElem]
      intro i j hi hj hij x hx y hy
      simp only [List.mem_map] at hx hy
      obtain ⟨_, _, rfl⟩ := hx
      obtain ⟨_, _, rfl⟩ := hy
      simp only
      rw [hnd.idxOf_getElem i hi, hnd.idxOf_getElem j hj]
      exact Nat.le_of_lt hij
  refine hsrc.imp_of_mem ?_
  intro a b _ hb hab heq
  have := hrank b hb
  rw [heq] at hab
  omega

/-! ## the invariant -/

/-- invariant after relaxing the edges in `E1` -/
structure Inv (g : AGraph α) (root : α) (E1 : List (α × α × Int)) (s : TopoSt α) : Prop where
  wit : ∀ v d, lookupD s.dist v = some d →
    ∃ p, p.head? = some root ∧ p.getLast? = some v ∧ IsPath g p ∧ pathWeight g p = d
  rel : ∀ e ∈ E1, ∃ d, lookupD s.dist e.2.1 = some d ∧ d ≤ (lookupD s.dist e.1).getD 0 + e.2.2
  non : ∀ v, (∀ e ∈ E1, e.2.1 ≠ v) → lookupD s.dist v = none

/-- global facts on the whole relaxation sequence -/
structure Seq (g : AGraph α) (root : α) (E : List (α × α × Int)) : Prop where
  edge : ∀ e ∈ E, g.hasEdge e.1 e.2.1 = true ∧ g.weight e.1 e.2.1 = some e.2.2
  ord : E.Pairwise (fun a b => a.1 ≠ b.2.1)
  noloop : ∀ e ∈ E, e.1 ≠ e.2.1
  hasIn : ∀ e ∈ E, e.1 ≠ root → ∃ e' ∈ E, e'.2.1 = e.1
  rootIn : ∀ e ∈ E, e.2.1 ≠ root

theorem inv_step {g : AGraph α} {root : α} {E E1 E2 : List (α × α × Int)} {e : α × α × Int}
    (hE : Seq g root E) (hsplit : E = E1 ++ e :: E2) {s : TopoSt α} (hI : Inv g root E1 s) :
    Inv g root (E1 ++ [e]) (relaxE s e) := by
  obtain ⟨u, v, w⟩ := e
  have heE : (u, v, w) ∈ E := by rw [hsplit]; simp
  have hord := hE.ord
  rw [hsplit, List.pairwise_append] at hord
  obtain ⟨_, hord2, hord3⟩ := hord
  rw [List.pairwise_cons] at hord2
  have hsrc1 : ∀ a ∈ E1, a.1 ≠ v := fun a ha => hord3 a ha (u, v, w) List.mem_cons_self
  have huv : u ≠ v := hE.noloop _ heE
  obtain ⟨hsame, d', hd', hle, hmono, hcase⟩ := relax_spec s u v w
  have hedge := hE.edge _ heE
  simp only at hedge
  unfold relaxE
  simp only
  refine ⟨?_, ?_, ?_⟩
  · -- witnesses
    intro y d hy
    by_cases hyv : y = v
    · subst hyv
      rw [hd'] at hy
      have hdd : d = d' := (Option.some.inj hy).symm
      subst hdd
      rcases hcase with hnew | hold
      · -- new value: path to `u` extended by the edge
        by_cases hur : u = root
        · subst hur
          have hnone : lookupD s.dist u = none := by
            apply hI.non
            intro e' he'
            apply hE.rootIn
            rw [hsplit]; exact List.mem_append.mpr (Or.inl he')
          refine ⟨[u, y], rfl, rfl, ⟨hedge.1, trivial⟩, ?_⟩
          rw [hnew, hnone]
          simp [pathWeight, hedge.2]
        · obtain ⟨e', he'E, he't⟩ := hE.hasIn _ heE hur
          simp only at he't
          have he'1 : e' ∈ E1 := by
            rw [hsplit] at he'E
            rcases List.mem_append.mp he'E with h | h
            · exact h
            · rcases List.mem_cons.mp h with h | h
              · subst h; simp at he't; exact absurd he't.symm huv
              · exact absurd he't.symm (hord2.1 e' h)
          obtain ⟨du, hdu, _⟩ := hI.rel e' he'1
          rw [he't] at hdu
          obtain ⟨p, hp1, hp2, hp3, hp4⟩ := hI.wit u du hdu
          refine ⟨p ++ [y], ?_, ?_, isPath_snoc p u y hp2 hp3 hedge.1, ?_⟩
          · cases p with
            | nil => simp at hp1
            | cons a q => simpa using hp1
          · simp
          · rw [pathWeight_snoc p u y hp2, hp4, hedge.2, hnew, hdu]
            simp
      · exact hI.wit y d hold
    · rw [hsame y hyv] at hy
      exact hI.wit y d hy
  · -- relaxed edges stay relaxed
    intro a ha
    rcases List.mem_append.mp ha with ha1 | ha2
    · obtain ⟨d, hd, hdle⟩ := hI.rel a ha1
      have hsrc : lookupD (topoRelax u s (v, w)).dist a.1 = lookupD s.dist a.1 :=
        hsame _ (hsrc1 a ha1)
      rw [hsrc]
      by_cases hav : a.2.1 = v
      · rw [hav] at hd ⊢
        exact ⟨d', hd', Int.le_trans (hmono d hd) hdle⟩
      · rw [hsame _ hav]
        exact ⟨d, hd, hdle⟩
    · simp at ha2
      subst ha2
      simp only
      rw [hsame u huv]
      exact ⟨d', hd', hle⟩
  · -- untouched vertices
    intro y hy
    have hyv : y ≠ v := by
      intro h
      exact hy (u, v, w) (List.mem_append.mpr (Or.inr List.mem_cons_self)) h.symm
    rw [hsame y hyv]
    exact hI.non y (fun e' he' => hy e' (List.mem_append.mpr (Or.inl he')))

theorem inv_foldl {g : AGraph α} {root : α} {E : List (α × α × Int)} (hE : Seq g root E) :
    ∀ (E2 E1 : List (α × α × Int)) (s : TopoSt α), E = E1 ++ E2 → Inv g root E1 s →
      Inv g root E (E2.foldl relaxE s) := by
  intro E2
  induction E2 with
  | nil =>
    intro E1 s h hI
    simp at h
    subst h
    exact hI
  | cons e E2 ih =>
    intro E1 s h hI
    rw [List.foldl_cons]
    exact ih (E1 ++ [e]) (relaxE s e) (by rw [h]; simp) (inv_step hE h hI)

theorem inv_init (g : AGraph α) (root : α) : Inv g root [] { dist := [], prev := [] } := by
  refine ⟨?_, ?_, ?_⟩
  · intro v d h; simp [lookupD] at h
  · intro e he; cases he
  · intro v _; simp [lookupD]

/-- lower bound along any path, from a fully relaxed state -/
theorem lower_bound {g : AGraph α} {root : α} {E : List (α × α × Int)} {s : TopoSt α}
    (hall : ∀ e ∈ g.edges, e ∈ E) (hI : Inv g root E s) (v : α) :
    ∀ (p : List α) (x : α), p.head? = some x → p.getLast? = some v → IsPath g p →
      (lookupD s.dist v).getD 0 ≤ (lookupD s.dist x).getD 0 + pathWeight g p := by
  intro p
  induction p with
  | nil => intro x h; simp at h
  | cons a p ih =>
    intro x hh hl hp
    simp at hh
    subst hh
    cases p with
    | nil =>
      simp at hl
      subst hl
      simp [pathWeight]
    | cons b q =>
      rw [List.getLast?_cons_cons] at hl
      have h1 := ih b rfl hl hp.2
      obtain ⟨c, hc⟩ := hasEdge_iff_weight.mp hp.1
      obtain ⟨d, hd, hdle⟩ := hI.rel _ (hall _ (weight_some_mem hc))
      simp only at hd hdle
      rw [hd] at h1
      simp only [pathWeight, hc, Option.getD_some] at h1 ⊢
      omega

/-- the main theorem, with `IsTopo` and `IsDist` unfolded -/
theorem topo_exact' (g : AGraph α) (hwf : g.WF) (root : α) (hroot : ∀ v ∈ g.verts, Reach g root v)
    (L : List α) (hnd : L.Nodup) (hmem : ∀ v, v ∈ L ↔ v ∈ g.verts)
    (hord : ∀ e ∈ g.edges, ∃ i j : Nat, L[i]? = some e.1 ∧ L[j]? = some e.2.1 ∧ i < j)
    (v : α) (hv : v ∈ g.verts) (hne : v ≠ root) :
    ∃ d, lookupD (topoShortestPath g L).dist v = some d ∧
      (∃ p, p.head? = some root ∧ p.getLast? = some v ∧ IsPath g p ∧ pathWeight g p = d) ∧
      ∀ p, p.head? = some root → p.getLast? = some v → IsPath g p → d ≤ pathWeight g p := by
  have hall : ∀ e ∈ g.edges, e ∈ edgeSeq g L := fun e he =>
    mem_edgeSeq.mpr ⟨(hmem _).mpr (hwf.2.2 e he).1, he⟩
  -- every non-root vertex has an incoming edge
  have hin : ∀ x ∈ g.verts, x ≠ root → ∃ e ∈ edgeSeq g L, e.2.1 = x := by
    intro x hx hxr
    have := hroot x hx
    cases this with
    | refl => exact absurd rfl hxr
    | step _ he =>
      obtain ⟨c, hc⟩ := hasEdge_iff_mem.mp he
      exact ⟨_, hall _ hc, rfl⟩
  have hE : Seq g root (edgeSeq g L) := by
    refine ⟨?_, edgeSeq_pairwise hnd hord, ?_, ?_, ?_⟩
    · rintro ⟨a, b, c⟩ he
      have := (mem_edgeSeq.mp he).2
      exact ⟨hasEdge_of_mem this, weight_of_mem hwf this⟩
    · rintro ⟨a, b, c⟩ he hab
      have := edge_rank hnd hord (hasEdge_of_mem (mem_edgeSeq.mp he).2)
      simp only at hab
      rw [hab] at this
      omega
    · rintro ⟨a, b, c⟩ he har
      exact hin a (hwf.2.2 _ (mem_edgeSeq.mp he).2).1 har
    · rintro ⟨a, b, c⟩ he hbr
      simp only at hbr
      have hm := (mem_edgeSeq.mp he).2
      have h1 := edge_rank hnd hord (hasEdge_of_mem hm)
      have h2 := reach_rank hnd hord (hroot a (hwf.2.2 _ hm).1)
      rw [hbr] at h1
      omega
  have hI := inv_foldl hE (edgeSeq g L) [] _ (by simp) (inv_init g root)
  rw [← topo_eq_foldl] at hI
  obtain ⟨e, heE, het⟩ := hin v hv hne
  obtain ⟨d, hd, _⟩ := hI.rel e heE
  rw [het] at hd
  refine ⟨d, hd, hI.wit v d hd, ?_⟩
  intro p hp1 hp2 hp3
  have hrootnone : lookupD (topoShortestPath g L).dist root = none :=
    hI.non root (fun e' he' => hE.rootIn e' he')
  have := lower_bound hall hI v p root hp1 hp2 hp3
  rw [hd, hrootnone] at this
  simpa using this

end TraverseTopo
end ArgMapper
