import ArgMapper.Model.Dijkstra
/-!
# Helper lemmas for C18: edges, paths, reachability, weight sums
-/
namespace ArgMapper.DijkstraProofs
open ArgMapper AGraph Dijkstra
variable {α : Type} [DecidableEq α]

/-! ### `weight` (uses `find?`) versus `outsW` (uses `filter`) -/

theorem weight_some_mem {g : AGraph α} {u v : α} {w : Int} (h : g.weight u v = some w) :
    (u, v, w) ∈ g.edges := by
  unfold weight at h
  cases hf : g.edges.find? (isEdge u v) with
  | none => simp [hf] at h
  | some e =>
    rw [hf] at h
    have hm := List.mem_of_find?_eq_some hf
    have hp := List.find?_some hf
    obtain ⟨a, b, c⟩ := e
    simp [isEdge] at hp h
    obtain ⟨rfl, rfl⟩ := hp
    subst h
    exact hm

theorem weight_some_mem_outsW {g : AGraph α} {u v : α} {w : Int} (h : g.weight u v = some w) :
    (v, w) ∈ g.outsW u := by
  have := weight_some_mem h
  unfold outsW
  simp only [List.mem_map, List.mem_filter]
  exact ⟨(u, v, w), ⟨this, by simp⟩, rfl⟩

theorem mem_outsW {g : AGraph α} {u v : α} {w : Int} :
    (v, w) ∈ g.outsW u ↔ (u, v, w) ∈ g.edges := by
  unfold outsW
  simp only [List.mem_map, List.mem_filter]
  constructor
  · rintro ⟨⟨a, b, c⟩, ⟨hm, ha⟩, hbc⟩
    simp at ha hbc
    obtain ⟨rfl, rfl⟩ := hbc
    subst ha
    exact hm
  · intro h
    exact ⟨(u, v, w), ⟨h, by simp⟩, rfl⟩

theorem hasEdge_of_mem {g : AGraph α} {u v : α} {w : Int} (h : (u, v, w) ∈ g.edges) :
    g.hasEdge u v = true := by
  unfold hasEdge weight
  rw [Option.isSome_map, List.find?_isSome]
  exact ⟨(u, v, w), h, by simp [isEdge]⟩

theorem hasEdge_iff_weight {g : AGraph α} {u v : α} :
    g.hasEdge u v = true ↔ ∃ w, g.weight u v = some w := by
  unfold hasEdge
  rw [Option.isSome_iff_exists]

theorem nodup_map_inj {β γ : Type} {f : β → γ} : ∀ {l : List β}, (l.map f).Nodup →
    ∀ {a b}, a ∈ l → b ∈ l → f a = f b → a = b
  | [], _, _, _, ha, _, _ => by simp at ha
  | x :: xs, hnd, a, b, ha, hb, hab => by
    simp only [List.map_cons, List.nodup_cons, List.mem_map, not_exists, not_and] at hnd
    simp only [List.mem_cons] at ha hb
    rcases ha with rfl | ha <;> rcases hb with rfl | hb
    · rfl
    · exact absurd hab.symm (hnd.1 b hb)
    · exact absurd hab (hnd.1 a ha)
    · exact nodup_map_inj hnd.2 ha hb hab

theorem weight_of_mem {g : AGraph α} (hwf : g.WF) {u v : α} {w : Int} (h : (u, v, w) ∈ g.edges) :
    g.weight u v = some w := by
  obtain ⟨w', hw'⟩ := hasEdge_iff_weight.1 (hasEdge_of_mem h)
  have hm := weight_some_mem hw'
  have := nodup_map_inj hwf.2.1 h hm rfl
  simp at this
  subst this
  exact hw'

theorem weight_iff_outsW {g : AGraph α} (hwf : g.WF) {u v : α} {w : Int} :
    (v, w) ∈ g.outsW u ↔ g.weight u v = some w :=
  ⟨fun h => weight_of_mem hwf (mem_outsW.1 h), weight_some_mem_outsW⟩

/-! ### paths -/

theorem isPath_tail {g : AGraph α} {a : α} {p : List α} (h : IsPath g (a :: p)) : IsPath g p := by
  cases p with
  | nil => trivial
  | cons b rest => exact h.2

theorem isPath_snoc {g : AGraph α} : ∀ {p : List α} {a b : α}, p.getLast? = some a → IsPath g p →
    g.hasEdge a b = true → IsPath g (p ++ [b])
  | [], _, _, hl, _, _ => by simp at hl
  | [x], a, b, hl, _, he => by
    simp at hl; subst hl
    exact ⟨he, trivial⟩
  | x :: y :: rest, a, b, hl, hp, he => by
    have hl' : (y :: rest).getLast? = some a := by
      simpa [List.getLast?_cons_cons] using hl
    exact ⟨hp.1, isPath_snoc hl' hp.2 he⟩

theorem pathWeight_snoc {g : AGraph α} : ∀ {p : List α} {a b : α}, p.getLast? = some a →
    pathWeight g (p ++ [b]) = pathWeight g p + (g.weight a b).getD 0
  | [], _, _, hl => by simp at hl
  | [x], a, b, hl => by
    simp at hl; subst hl
    simp [pathWeight]
  | x :: y :: rest, a, b, hl => by
    have hl' : (y :: rest).getLast? = some a := by
      simpa [List.getLast?_cons_cons] using hl
    have ih := pathWeight_snoc (g := g) (b := b) hl'
    simp only [List.cons_append] at ih ⊢
    simp only [pathWeight]
    rw [ih]; omega

theorem reach_trans {g : AGraph α} {a b c : α} (h1 : Reach g a b) (h2 : Reach g b c) :
    Reach g a c := by
  induction h2 with
  | refl => exact h1
  | step _ he ih => exact Reach.step ih he

theorem reach_edge {g : AGraph α} {a b : α} (h : g.hasEdge a b = true) : Reach g a b :=
  Reach.step (Reach.refl a) h

/-- every vertex on a path reaches the path's end -/
theorem reach_of_mem_path {g : AGraph α} : ∀ {p : List α} {v : α}, IsPath g p →
    p.getLast? = some v → ∀ w ∈ p, Reach g w v
  | [], _, _, hl, _, _ => by simp at hl
  | [x], v, _, hl, w, hw => by
    simp at hl hw; subst hl; subst hw; exact Reach.refl _
  | x :: y :: rest, v, hp, hl, w, hw => by
    have hl' : (y :: rest).getLast? = some v := by
      simpa [List.getLast?_cons_cons] using hl
    have ih := reach_of_mem_path hp.2 hl'
    rcases List.mem_cons.1 hw with rfl | hw
    · exact reach_trans (reach_edge hp.1) (ih y (List.mem_cons_self ..))
    · exact ih w hw

/-- reachability is witnessed by a path -/
theorem path_of_reach {g : AGraph α} {u v : α} (h : Reach g u v) :
    ∃ p : List α, p.head? = some u ∧ p.getLast? = some v ∧ IsPath g p := by
  induction h with
  | refl => exact ⟨[u], rfl, rfl, trivial⟩
  | @step a b hr he ih =>
    obtain ⟨p, hh, hl, hp⟩ := ih
    refine ⟨p ++ [b], ?_, by simp, isPath_snoc hl hp he⟩
    cases p with
    | nil => simp at hh
    | cons x xs => simpa using hh

/-! ### non-negative weights -/

def NonNeg (g : AGraph α) : Prop := ∀ e ∈ g.edges, 0 ≤ e.2.2

theorem weight_nonneg {g : AGraph α} (hn : NonNeg g) {u v : α} {w : Int}
    (h : g.weight u v = some w) : 0 ≤ w := hn _ (weight_some_mem h)

theorem getD_weight_nonneg {g : AGraph α} (hn : NonNeg g) (u v : α) :
    0 ≤ (g.weight u v).getD 0 := by
  cases h : g.weight u v with
  | none => simp
  | some w => simpa using weight_nonneg hn h

theorem pathWeight_nonneg {g : AGraph α} (hn : NonNeg g) : ∀ p : List α, 0 ≤ pathWeight g p
  | [] => by simp [pathWeight]
  | [_] => by simp [pathWeight]
  | x :: y :: rest => by
    have := pathWeight_nonneg hn (y :: rest)
    have := getD_weight_nonneg hn x y
    simp only [pathWeight]; omega

/-! ### sum of the weights of the edges leaving a set of vertices -/

def wsum (l : List (α × α × Int)) : Int := (l.map (fun e => e.2.2)).sum

def fsum (g : AGraph α) (S : List α) : Int := wsum (g.edges.filter (fun e => decide (e.1 ∈ S)))

omit [DecidableEq α] in
theorem wsum_filter_le : ∀ (l : List (α × α × Int)) (p : α × α × Int → Bool),
    (∀ e ∈ l, 0 ≤ e.2.2) → wsum (l.filter p) ≤ wsum l
  | [], _, _ => by simp [wsum]
  | e :: l, p, hn => by
    have ih := wsum_filter_le l p (fun e he => hn e (List.mem_cons_of_mem _ he))
    have h0 := hn e (List.mem_cons_self ..)
    unfold wsum at ih ⊢
    by_cases hp : p e = true <;> simp [hp] <;> omega

theorem fsum_le_total {g : AGraph α} (hn : NonNeg g) (S : List α) : fsum g S ≤ wsum g.edges :=
  wsum_filter_le _ _ hn

omit [DecidableEq α] in
theorem wsum_filter_mono : ∀ (l : List (α × α × Int)) (p q : α × α × Int → Bool),
    (∀ e ∈ l, 0 ≤ e.2.2) → (∀ e, p e = true → q e = true) →
    wsum (l.filter p) ≤ wsum (l.filter q) ∧
    (∀ e0 ∈ l, q e0 = true → p e0 = false → wsum (l.filter p) + e0.2.2 ≤ wsum (l.filter q))
  | [], _, _, _, _ => by simp [wsum]
  | e :: l, p, q, hn, hpq => by
    obtain ⟨ih1, ih2⟩ := wsum_filter_mono l p q (fun e he => hn e (List.mem_cons_of_mem _ he)) hpq
    have h0 := hn e (List.mem_cons_self ..)
    unfold wsum at ih1 ih2 ⊢
    by_cases hp : p e = true
    · have hq := hpq e hp
      simp only [List.filter_cons, hp, hq, if_true, List.map_cons, List.sum_cons, List.mem_cons]
      refine ⟨by omega, ?_⟩
      rintro e0 (h | h) hq0 hp0
      · rw [h, hp] at hp0; cases hp0
      · have := ih2 e0 h hq0 hp0; omega
    · by_cases hq : q e = true
      · simp only [List.filter_cons, hp, hq, if_true, List.map_cons, List.sum_cons, List.mem_cons,
          Bool.false_eq_true, if_false]
        refine ⟨by omega, ?_⟩
        rintro e0 (h | h) hq0 hp0
        · rw [h]; omega
        · have := ih2 e0 h hq0 hp0; omega
      · simp only [List.filter_cons, hp, hq, List.mem_cons, Bool.false_eq_true, if_false]
        refine ⟨ih1, ?_⟩
        rintro e0 (h | h) hq0 hp0
        · rw [h] at hq0; exact absurd hq0 hq
        · exact ih2 e0 h hq0 hp0

theorem fsum_cons_aux {g : AGraph α} (hn : NonNeg g) {u : α} {S : List α} (hu : u ∉ S) :
    fsum g S ≤ fsum g (u :: S) ∧
    ∀ x w, (u, x, w) ∈ g.edges → fsum g S + w ≤ fsum g (u :: S) := by
  have := wsum_filter_mono g.edges (fun e => decide (e.1 ∈ S)) (fun e => decide (e.1 ∈ u :: S)) hn
    (by intro e he; simp at he ⊢; exact Or.inr he)
  refine ⟨this.1, fun x w he => ?_⟩
  exact this.2 (u, x, w) he (by simp) (by simpa using hu)

theorem fsum_mono_cons {g : AGraph α} (hn : NonNeg g) {u : α} {S : List α} (hu : u ∉ S) :
    fsum g S ≤ fsum g (u :: S) :=
  (fsum_cons_aux hn hu).1

theorem fsum_add_le {g : AGraph α} (hn : NonNeg g) {u x : α} {w : Int} {S : List α} (hu : u ∉ S)
    (he : (u, x, w) ∈ g.edges) : fsum g S + w ≤ fsum g (u :: S) :=
  (fsum_cons_aux hn hu).2 x w he

theorem fsum_nil (g : AGraph α) : fsum g [] = 0 := by
  have : g.edges.filter (fun e => decide (e.1 ∈ ([] : List α))) = [] := by
    rw [List.filter_eq_nil_iff]; intro e _; simp
  unfold fsum; rw [this]; rfl

end ArgMapper.DijkstraProofs
