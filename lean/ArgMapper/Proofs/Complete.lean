import ArgMapper.Proofs.ExactWinsTyped
import ArgMapper.Proofs.Termination
/-!
# Completeness of conversion chaining on single-input converter sets (helper lemmas for C05)

Dynamic part.  For a context `c` whose graph satisfies `Facts` (the subtype-free shape of a `Call`
graph: no R6 edge, edges into the root come from functions or supplied vertices, a converter vertex
requires the root or the vertex of its only input, the target vertex has no in-edge, output lookups
succeed with the vertex's type) every walk along a valid path maintains

* (V) type soundness of the store, (S) supplied vertices hold a value, (M) no erring memo cell when
  no body reports an error (`SInv`);
* (P) progress: the vertex processed last holds a value (`PrevOK`),

so a converter vertex on a path always finds its only requirement filled: the nested `reach` returns
at once (`ExactWins.reach_all_present`), `callDirect` finds its argument, and the only errors are
`badOracle` and the error a function body reported.
-/
set_option linter.unusedSectionVars false
set_option linter.unusedVariables false
namespace ArgMapper.Complete
open ArgMapper WalkEqs ReachSound

/-- no function body reports an error -/
def NE (c : Ctx) : Prop := ∀ f n a, (c.beh f n a).err = none

/-- the errors a complete resolution may end in -/
def Allowed (N : Prop) (e : RErr) : Prop :=
  (∃ w, e = .badOracle w) ∨ ((∃ ε, e = .funcErr ε) ∧ ¬ N)

/-- lookups in the output maps of `f` at the output vertices `l` succeed with the vertex's type -/
def OutTyped (f : FuncDesc) (l : List Vtx) : Prop :=
  ∀ v ∈ l,
    (∀ n t s, v = .value n t s → ∃ sv, mapGet f.output.named n = some sv ∧ sv.lab.ty = t) ∧
    (∀ t s, v = .out t s → ∃ sv, mapGet f.output.typed t = some sv ∧ sv.lab.ty = t) ∧
    (v.isValue = true ∨ v.isOut = true)

/-- what the dynamic part needs to know about the context -/
structure Facts (c : Ctx) (N : Prop) (tk : Nat) (Sup : Vtx → Prop) : Prop where
  /-- `N`: "no function body reports an error" (taken to be `False` when nothing is assumed) -/
  hN : N → NE c
  pub : c.publishAfterUpdate = true
  tvn : c.takeValuedNamed = true
  mc : c.memoCopy = true
  tr : c.trackReaching = true
  sri : c.skipRecordsInput = false
  auto : c.auto = false
  trans : ImplTrans c.env
  edgeOK : EdgeOK c.env c.g
  valSub : ∀ x n t s, c.g.hasEdge x (.value n t s) = true → s = ""
  toRoot : ∀ x, c.g.hasEdge x .root = true → x.isFunc = true ∨ Sup x
  supKind : ∀ x, Sup x → x.isValue = true ∨ x.isOut = true
  funcReq : ∀ k y, c.g.hasEdge (.func k) y = true →
    ∃ f, c.funcOf k = some f ∧ (y = .root ∨ ∃ v ∈ f.input.values, y = v.lab.vertex)
  funcKey : ∀ k f, c.funcOf k = some f → f.key = k
  funcRoot : ∀ k f, k ≠ tk → c.funcOf k = some f → c.g.hasEdge (.func k) .root = true →
    f.input.values = []
  single : ∀ k f, k ≠ tk → c.funcOf k = some f → f.input.values.length ≤ 1
  noTarget : ∀ x, c.g.hasEdge x (.func tk) = false
  outTyped : ∀ k f, c.funcOf k = some f → OutTyped f (c.g.ins (.func k))

/-- state invariant: (V), (S), (M) -/
structure SInv (c : Ctx) (N : Prop) (Sup : Vtx → Prop) (s : CallSt) : Prop where
  typed : ∀ x v, s.get x = some v → c.env.assignable v.ty x.ty = true
  sup : ∀ x, Sup x → (s.get x).isSome = true
  memo : N → ∀ p ∈ s.memo, p.2.res.err = none

variable {c : Ctx} {N : Prop} {tk : Nat} {Sup : Vtx → Prop}

theorem SInv.congr {s s' : CallSt} (h : SInv c N Sup s) (hs : s'.store = s.store) (hm : s'.memo = s.memo) :
    SInv c N Sup s' := by
  refine ⟨?_, ?_, ?_⟩
  · intro x v hv
    unfold CallSt.get at hv
    rw [hs] at hv
    exact h.typed x v hv
  · intro x hx
    have := h.sup x hx
    unfold CallSt.get at this ⊢
    rw [hs]; exact this
  · rw [hm]; exact h.memo

@[simp] theorem set_memo (s : CallSt) (v : Vtx) (x : Option PVal) : (s.set v x).memo = s.memo := by
  unfold CallSt.set; split <;> rfl

theorem SInv.set {s : CallSt} (h : SInv c N Sup s) (v : Vtx) (a : PVal)
    (ha : c.env.assignable a.ty v.ty = true) : SInv c N Sup (s.set v (some a)) := by
  refine ⟨?_, ?_, ?_⟩
  · intro x b hb
    rw [get_set] at hb
    split at hb
    · rename_i hxv
      simp only [Option.some.injEq] at hb
      subst hb; subst hxv; exact ha
    · exact h.typed x b hb
  · intro x hx
    rw [get_set]
    split
    · rfl
    · exact h.sup x hx
  · rw [set_memo]; exact h.memo

/-! ### small facts -/

theorem vertex_ty (l : Label) : l.vertex.ty = l.ty := by
  unfold Label.vertex; split <;> rfl

theorem vertex_ne_root (l : Label) : l.vertex ≠ .root := by
  unfold Label.vertex; split <;> simp

theorem vertex_kind (l : Label) : l.vertex.isValue = true ∨ l.vertex.isArg = true := by
  unfold Label.vertex; split
  · exact Or.inl rfl
  · exact Or.inr rfl

theorem takenAsIs_of_isSome (htvn : c.takeValuedNamed = true) (s : CallSt) (v : Vtx)
    (hk : v.isValue = true ∨ v.isArg = true) (h : (s.get v).isSome = true) : takenAsIs c s v = true := by
  cases v <;> simp_all [takenAsIs, Vtx.isValue, Vtx.isArg]

theorem assignable_refl (e : TypeEnv) (t : Nat) : e.assignable t t = true := by
  simp [TypeEnv.assignable]

theorem assignable_trans_impl (e : TypeEnv) (ht : ImplTrans e) (a t' i : Nat)
    (h1 : e.assignable a t' = true) (hi : e.isIface i = true) (h2 : e.impl t' i = true) :
    e.assignable a i = true := by
  unfold TypeEnv.assignable at h1 ⊢
  simp only [Bool.or_eq_true, beq_iff_eq, Bool.and_eq_true] at h1 ⊢
  rcases h1 with rfl | ⟨_, h1⟩
  · exact Or.inr ⟨hi, h2⟩
  · exact Or.inr ⟨hi, ht _ _ _ h1 h2⟩

theorem eq_of_length_le_one {α : Type} {l : List α} (h : l.length ≤ 1) {a b : α} (ha : a ∈ l) (hb : b ∈ l) :
    a = b := by
  match l, h with
  | [], _ => cases ha
  | [x], _ =>
    simp only [List.mem_singleton] at ha hb
    rw [ha, hb]
  | _ :: _ :: _, h => simp at h

/-! ### inversion of the edge rules -/

theorem rule_value_out {e : TypeEnv} {n : String} {t : Nat} {x : String} {t' : Nat} {x' : String}
    (h : EdgeRule e (.value n t x) (.out t' x')) : t' = t := by
  cases h; rfl

theorem rule_out_out {e : TypeEnv} {t : Nat} {x : String} {t' : Nat} {x' : String}
    (h : EdgeRule e (.out t x) (.out t' x')) : e.isIface t = true ∧ e.impl t' t = true := by
  cases h with
  | ifaceOut _ _ _ _ h1 h2 _ => exact ⟨h1, h2⟩

theorem rule_arg_value {e : TypeEnv} {t : Nat} {x : String} {n' : String} {t' : Nat} {x' : String}
    (h : EdgeRule e (.arg t x) (.value n' t' x')) : t' = t := by
  cases h; rfl

theorem rule_arg_out {e : TypeEnv} {t : Nat} {x : String} {t' : Nat} {x' : String}
    (h : EdgeRule e (.arg t x) (.out t' x')) : t' = t := by
  cases h <;> rfl

theorem rule_value_value {e : TypeEnv} {n : String} {t : Nat} {x : String} {n' : String} {t' : Nat} {x' : String}
    (h : EdgeRule e (.value n t x) (.value n' t' x')) : x' ≠ "" := by
  cases h with
  | valueValue _ _ _ hs => exact hs

/-! ### callDirect and outputValues -/

theorem callDirect_spec (hN : N → NE c) (f : FuncDesc) (am : ArgMap) (s : CallSt) (hs : SInv c N Sup s)
    (hga : ∃ args, gatherArgs c.env f am = .ok args) :
    ∃ r u s2, callDirect c f am s = (.ok (r, u), s2) ∧ s2.store = s.store ∧ (N → r.err = none) ∧
      (N → ∀ p ∈ s2.memo, p.2.res.err = none) := by
  obtain ⟨args, hga⟩ := hga
  unfold callDirect
  split
  · rename_i m hm
    refine ⟨_, _, _, rfl, rfl, ?_, hs.memo⟩
    intro hne
    have hm' : mapGet s.memo f.id = some m := by
      split at hm
      · exact hm
      · cases hm
    exact hs.memo hne _ (ExactWins.mem_of_mapGet' hm')
  · rw [hga]
    dsimp only
    refine ⟨_, _, _, rfl, ?_, fun hne => hN hne _ _ _, ?_⟩
    · split <;> rfl
    · intro hne p hp
      split at hp
      · rcases ExactWins.mem_mapSet hp with h | h
        · exact hs.memo hne p h
        · subst h; exact hN hne _ _ _
      · exact hs.memo hne p hp

theorem outputValues_spec (hmc : c.memoCopy = true) (f : FuncDesc) (r : BehOut) (u : Bool) (s : CallSt) :
    outputValues c f r u s = .ok ((c.g.ins (.func f.key)).foldl (oStep f r) s) := by
  rw [outputValues_eq]
  simp [hmc]

theorem oStep_memo (f : FuncDesc) (r : BehOut) (s : CallSt) (v : Vtx) : (oStep f r s v).memo = s.memo := by
  unfold oStep
  split
  · split
    · rw [set_memo]
    · rfl
  · split
    · rw [set_memo]
    · rfl
  · rfl

theorem resultField_ty (f : FuncDesc) (r : BehOut) (idx ty : Nat) (v : Vtx) :
    (resultField f r idx ty v).ty = ty := by
  unfold resultField; split <;> rfl

theorem oStep_sinv (f : FuncDesc) (r : BehOut) (s : CallSt) (v : Vtx) (hv : OutTyped f [v])
    (h : SInv c N Sup s) : SInv c N Sup (oStep f r s v) ∧ ((oStep f r s v).get v).isSome = true := by
  obtain ⟨h1, h2, h3⟩ := hv v (by simp)
  unfold oStep
  cases v with
  | value n t u =>
    obtain ⟨sv, hsv, hty⟩ := h1 n t u rfl
    dsimp only
    rw [hsv]
    dsimp only
    refine ⟨h.set _ _ ?_, by rw [get_set]; simp⟩
    rw [resultField_ty, hty]
    exact assignable_refl _ _
  | out t u =>
    obtain ⟨sv, hsv, hty⟩ := h2 t u rfl
    dsimp only
    rw [hsv]
    dsimp only
    refine ⟨h.set _ _ ?_, by rw [get_set]; simp⟩
    rw [resultField_ty, hty]
    exact assignable_refl _ _
  | _ => simp [Vtx.isValue, Vtx.isOut] at h3

theorem oFold_sinv (f : FuncDesc) (r : BehOut) (l : List Vtx) (hl : OutTyped f l) (s : CallSt)
    (h : SInv c N Sup s) :
    SInv c N Sup (l.foldl (oStep f r) s) ∧ ∀ v ∈ l, ((l.foldl (oStep f r) s).get v).isSome = true := by
  induction l generalizing s with
  | nil => exact ⟨h, fun _ hv => by cases hv⟩
  | cons a l ih =>
    have hl' : OutTyped f l := fun v hv => hl v (List.mem_cons_of_mem _ hv)
    have ha : OutTyped f [a] := fun v hv => by
      simp only [List.mem_singleton] at hv; subst hv; exact hl _ (by simp)
    obtain ⟨i1, i2⟩ := oStep_sinv f r s a ha h
    obtain ⟨j1, j2⟩ := ih hl' (oStep f r s a) i1
    refine ⟨j1, ?_⟩
    intro v hv
    rcases List.mem_cons.1 hv with rfl | hv
    · rw [List.foldl_cons]
      have : ∀ (l : List Vtx) (s : CallSt) (u : Vtx), (s.get u).isSome = true →
          ((l.foldl (oStep f r) s).get u).isSome = true := by
        intro l
        induction l with
        | nil => intro s u h; exact h
        | cons b l ih2 => intro s u h; exact ih2 _ _ (oStep_mono f r s b u h)
      exact this _ _ _ i2
    · exact j2 v hv

/-! ### one step of the walk -/

/-- (P): what is known right after the vertex `prev` was processed -/
def PrevOK (c : Ctx) (s : CallSt) (final : Option PVal) : Option Vtx → Prop
  | none => True
  | some .root => True
  | some (.value n t u) =>
    (s.get (.value n t u)).isSome = true ∧ s.last = s.get (.value n t u) ∧ final = s.get (.value n t u)
  | some (.out t u) => (s.get (.out t u)).isSome = true ∧ s.last = s.get (.out t u)
  | some (.arg t u) => (s.get (.arg t u)).isSome = true ∧ final = s.get (.arg t u)
  | some (.func k) => ∀ v ∈ c.g.ins (.func k), (s.get v).isSome = true

def WInv (c : Ctx) (N : Prop) (Sup : Vtx → Prop) (w : WalkSt) : Prop :=
  (∀ e, w.err = some e → Allowed N e) ∧
  (w.err = none → SInv c N Sup w.s ∧ PrevOK c w.s w.final w.prev)

/-- the nested search of a converter whose requirements are all filled returns at once -/
def RecSpec (c : Ctx) (rec : Vtx → CallSt → Except RErr ArgMap × CallSt) : Prop :=
  ∀ k s, (∀ v ∈ c.g.outs (.func k), (v == Vtx.root || takenAsIs c s v) = true) →
    (∃ w, (rec (.func k) s).1 = .error (.badOracle w)) ∨
    ∃ rest, rec (.func k) s =
      (.ok ((c.g.outs (.func k)).filterMap (fun v => if v == Vtx.root then none else (s.get v).map (fun x => (v, x)))),
       { s with orc := rest })

theorem prevOK_isSome {s : CallSt} {fin : Option PVal} {v : Vtx} (hk : v.isData = true)
    (h : PrevOK c s fin (some v)) : (s.get v).isSome = true := by
  cases v with
  | value n t u => exact h.1
  | out t u => exact h.1
  | arg t u => exact h.1
  | _ => simp [Vtx.isData, Vtx.isValue, Vtx.isArg, Vtx.isOut] at hk

theorem copyFrom_store_eq (s : CallSt) (v u : Vtx) (h : u.isOut = false) : copyFrom s (some u) v = s := by
  cases u <;> first | rfl | simp [Vtx.isOut] at h

theorem valCopy_store_eq (c : Ctx) (s : CallSt) (v u : Vtx) (h : u.isOut = false) (h' : u.isValue = false) :
    valCopy c s (some u) v = s := by
  cases u <;> first | rfl | (simp [Vtx.isOut] at h; done) | simp [Vtx.isValue] at h'

theorem pair_of_fst {α β : Type} (p : α × β) (a : α) (h : p.1 = a) : p = (a, p.2) := by
  cases p; simp only at h; subst h; rfl

theorem no_err {w : WalkSt} (herr : w.err = none) {e : RErr} (h : w.err = some e) : False := by
  rw [herr] at h; cases h

theorem walkStep_winv (gf : Facts c N tk Sup) (rec : Vtx → CallSt → Except RErr ArgMap × CallSt)
    (hrec : RecSpec c rec) (w : WalkSt) (v : Vtx) (hw : WInv c N Sup w)
    (hedge : w.err = none → ∃ u, w.prev = some u ∧ c.g.hasEdge v u = true) (hv : v ≠ .func tk) :
    WInv c N Sup (walkStep c rec w v) := by
  cases herr : w.err with
  | some e => rw [walkStep_err c rec herr]; exact hw
  | none =>
    obtain ⟨hS, hP⟩ := hw.2 herr
    obtain ⟨u, hu, he⟩ := hedge herr
    rw [hu] at hP
    have hrule := gf.edgeOK _ _ he
    have hkind := kindOK_of_rule hrule
    cases v with
    | root =>
      rw [walkStep_root c rec herr]
      exact ⟨fun e h => (no_err herr h).elim, fun _ => ⟨hS, trivial⟩⟩
    | value n t x =>
      rw [walkStep_value c rec herr, hu]
      -- the copy
      have key : SInv c N Sup (valCopy c w.s (some u) (.value n t x)) ∧
          ((valCopy c w.s (some u) (.value n t x)).get (.value n t x)).isSome = true := by
        cases u with
        | root =>
          rw [valCopy_store_eq _ _ _ _ rfl rfl]
          rcases gf.toRoot _ he with h | h
          · cases h
          · exact ⟨hS, hS.sup _ h⟩
        | value n' t' x' =>
          exact absurd (gf.valSub _ _ _ _ he) (rule_value_value hrule)
        | arg t' x' => simp [kindOK] at hkind
        | out t' x' =>
          have ht := rule_value_out hrule
          subst ht
          obtain ⟨a, ha⟩ := Option.isSome_iff_exists.1 hP.1
          show SInv c N Sup (w.s.set _ (w.s.get (.out t' x'))) ∧ ((w.s.set _ (w.s.get (.out t' x'))).get _).isSome = true
          rw [ha]
          refine ⟨hS.set _ _ (hS.typed (.out t' x') a ha), ?_⟩
          rw [get_set]; simp
        | func k =>
          rw [valCopy_store_eq _ _ _ _ rfl rfl]
          exact ⟨hS, hP _ (mem_ins_of_hasEdge _ _ _ he)⟩
      generalize valCopy c w.s (some u) (.value n t x) = s1 at key
      obtain ⟨k1, k2⟩ := key
      refine ⟨fun e h => (no_err herr h).elim, fun _ => ⟨k1.congr rfl rfl, ?_⟩⟩
      obtain ⟨a, ha⟩ := Option.isSome_iff_exists.1 k2
      show (s1.get (.value n t x)).isSome = true ∧
        (if c.publishAfterUpdate = true then s1.get (.value n t x) else w.s.get (.value n t x)) = s1.get (.value n t x) ∧
        (s1.get (.value n t x)).or w.final = s1.get (.value n t x)
      rw [gf.pub, ha]
      simp
    | out t x =>
      rw [walkStep_out c rec herr, hu]
      have key : SInv c N Sup (copyFrom w.s (some u) (.out t x)) ∧
          ((copyFrom w.s (some u) (.out t x)).get (.out t x)).isSome = true := by
        cases u with
        | root =>
          rw [copyFrom_store_eq _ _ _ rfl]
          rcases gf.toRoot _ he with h | h
          · cases h
          · exact ⟨hS, hS.sup _ h⟩
        | value n' t' x' => simp [kindOK] at hkind
        | arg t' x' => simp [kindOK] at hkind
        | out t' x' =>
          obtain ⟨hi, him⟩ := rule_out_out hrule
          obtain ⟨a, ha⟩ := Option.isSome_iff_exists.1 hP.1
          show SInv c N Sup (w.s.set _ (w.s.get (.out t' x'))) ∧ ((w.s.set _ (w.s.get (.out t' x'))).get _).isSome = true
          rw [ha]
          refine ⟨hS.set _ _ (assignable_trans_impl _ gf.trans _ _ _ (hS.typed (.out t' x') a ha) hi him), ?_⟩
          rw [get_set]; simp
        | func k =>
          rw [copyFrom_store_eq _ _ _ rfl]
          exact ⟨hS, hP _ (mem_ins_of_hasEdge _ _ _ he)⟩
      generalize copyFrom w.s (some u) (.out t x) = s1 at key
      obtain ⟨k1, k2⟩ := key
      exact ⟨fun e h => (no_err herr h).elim, fun _ => ⟨k1.congr rfl rfl, k2, rfl⟩⟩
    | arg t x =>
      rw [walkStep_arg c rec herr]
      have key : ∃ a, w.s.last = some a ∧ c.env.assignable a.ty t = true := by
        cases u with
        | root =>
          rcases gf.toRoot _ he with h | h
          · cases h
          · rcases gf.supKind _ h with h' | h' <;> cases h'
        | value n' t' x' =>
          have ht := rule_arg_value hrule
          subst ht
          obtain ⟨a, ha⟩ := Option.isSome_iff_exists.1 hP.1
          exact ⟨a, by rw [hP.2.1, ha], hS.typed _ _ ha⟩
        | arg t' x' => simp [kindOK] at hkind
        | out t' x' =>
          have ht := rule_arg_out hrule
          subst ht
          obtain ⟨a, ha⟩ := Option.isSome_iff_exists.1 hP.1
          exact ⟨a, by rw [hP.2, ha], hS.typed _ _ ha⟩
        | func k => simp [kindOK] at hkind
      obtain ⟨a, hla, hta⟩ := key
      have hst : argStore c w.s t (.arg t x) = w.s.set (.arg t x) (some a) := by
        unfold argStore
        rw [hla]
        dsimp only
        rw [if_pos hta]
      rw [hst]
      refine ⟨fun e h => (no_err herr h).elim, fun _ => ⟨hS.set _ _ hta, ?_, rfl⟩⟩
      show ((w.s.set (.arg t x) (some a)).get (.arg t x)).isSome = true
      rw [get_set]; simp
    | func k =>
      have hk : k ≠ tk := fun h => hv (by rw [h])
      obtain ⟨f, hfo, hreq⟩ := gf.funcReq k u he
      have hlen := gf.single k f hk hfo
      -- every requirement of the converter is the root or holds a value
      have hu_some : u ≠ .root → (w.s.get u).isSome = true := by
        intro hur
        rcases hreq with h | ⟨v0, _, h⟩
        · exact absurd h hur
        · have hd : u.isData = true := by
            rw [h]; rcases vertex_kind v0.lab with h' | h' <;> simp [Vtx.isData, h']
          exact prevOK_isSome hd hP
      have hvals : ∀ v' ∈ f.input.values, u = v'.lab.vertex := by
        intro v' hv'
        rcases hreq with h | ⟨v0, hv0, h⟩
        · subst h
          rw [gf.funcRoot k f hk hfo he] at hv'
          cases hv'
        · rw [h, eq_of_length_le_one hlen hv0 hv']
      have hready : ∀ r ∈ c.g.outs (.func k), (r == Vtx.root || takenAsIs c w.s r) = true := by
        intro r hr
        obtain ⟨f', hfo', hreq'⟩ := gf.funcReq k r (hasEdge_of_mem_outs _ _ _ hr)
        rw [hfo] at hfo'
        cases hfo'
        rcases hreq' with rfl | ⟨v', hv', rfl⟩
        · rfl
        · have hu' := hvals v' hv'
          rw [← hu']
          have : takenAsIs c w.s u = true :=
            takenAsIs_of_isSome gf.tvn _ _ (by rw [hu']; exact vertex_kind _)
              (hu_some (by rw [hu']; exact vertex_ne_root _))
          rw [this]; simp
      rcases hrec k w.s hready with ⟨wm, hbad⟩ | ⟨rest, hok⟩
      · rw [walkStep_func_recErr c rec herr k hfo (pair_of_fst _ _ hbad)]
        exact ⟨fun e h => by cases h; exact Or.inl ⟨_, rfl⟩, fun h => by cases h⟩
      · -- the argument map holds the converter's only argument
        have hS1 : SInv c N Sup { w.s with orc := rest } := hS.congr rfl rfl
        have hga : ∃ args, gatherArgs c.env f
            ((c.g.outs (.func k)).filterMap (fun v => if v == Vtx.root then none else (w.s.get v).map (fun x => (v, x))))
            = .ok args := by
          refine ⟨_, ExactWins.gatherArgs_ok _ _ _ ?_⟩
          intro v' hv'
          have hu' := hvals v' hv'
          have hne : u ≠ .root := by rw [hu']; exact vertex_ne_root _
          obtain ⟨a, ha⟩ := Option.isSome_iff_exists.1 (hu_some hne)
          refine ⟨a, ?_, ?_⟩
          · rw [ExactWins.mapGet_am0, ← hu', if_pos ⟨(ExactWins.mem_outs_iff_hasEdge _ _ _).2 he, hne⟩, ha]
          · have := hS.typed _ _ ha
            rw [hu', vertex_ty] at this
            exact this
        obtain ⟨r, unw, s2, hcd, hst2, hr2, hm2⟩ := callDirect_spec (Sup := Sup) gf.hN f _ _ hS1 hga
        cases hre : r.err with
        | some ε =>
          rw [walkStep_func_funcErr c rec herr k hfo hok hcd hre]
          refine ⟨fun e h => ?_, fun h => by cases h⟩
          cases h
          refine Or.inr ⟨⟨_, rfl⟩, fun hne => ?_⟩
          rw [hr2 hne] at hre; cases hre
        | none =>
          have hS2 : SInv c N Sup s2 := ⟨fun x v hv => hS1.typed x v (by unfold CallSt.get at hv ⊢; rw [← hst2]; exact hv),
            fun x hx => by have := hS1.sup x hx; unfold CallSt.get at this ⊢; rw [hst2]; exact this, hm2⟩
          have hov := outputValues_spec gf.mc f r unw s2
          rw [walkStep_func_ok c rec herr k hfo hok hcd hre hov]
          have hkey := gf.funcKey k f hfo
          have := oFold_sinv (c := c) (N := N) (Sup := Sup) f r (c.g.ins (.func f.key)) (by rw [hkey]; exact gf.outTyped k f hfo) s2 hS2
          refine ⟨fun e h => (no_err herr h).elim, fun _ => ⟨this.1, ?_⟩⟩
          show ∀ v ∈ c.g.ins (.func k), _
          rw [← hkey]
          exact this.2

/-! ### walking one path -/

/-- every vertex has an edge to the one processed before it -/
def Chain (g : AGraph Vtx) : Vtx → List Vtx → Prop
  | _, [] => True
  | u, v :: rest => g.hasEdge v u = true ∧ Chain g v rest

theorem chain_of_isPathB (g : AGraph Vtx) (rest : List Vtx) (a : Vtx)
    (hp : AGraph.isPathB g.reverse (a :: rest) = true) : Chain g a rest := by
  induction rest generalizing a with
  | nil => trivial
  | cons b rest' ih =>
    simp only [AGraph.isPathB, Bool.and_eq_true] at hp
    exact ⟨(hasEdge_reverse _ _ _).1 hp.1, ih b hp.2⟩

theorem chain_avoids (g : AGraph Vtx) (t : Vtx) (hnt : ∀ x, g.hasEdge x t = false) (rest : List Vtx) (u : Vtx)
    (hc : Chain g u rest) (hl : ∀ l, rest.getLast? = some l → l ≠ t) : ∀ v ∈ rest, v ≠ t := by
  induction rest generalizing u with
  | nil => intro v hv; cases hv
  | cons a rest' ih =>
    intro v hv
    cases rest' with
    | nil =>
      simp only [List.mem_singleton] at hv
      subst hv
      exact hl _ rfl
    | cons b rest'' =>
      rcases List.mem_cons.1 hv with rfl | hv
      · intro h
        have := hc.2.1
        rw [h, hnt] at this
        cases this
      · exact ih _ hc.2 (fun l h => hl l (by rw [List.getLast?_cons_cons]; exact h)) v hv

theorem walkFold_winv (gf : Facts c N tk Sup) (rec : Vtx → CallSt → Except RErr ArgMap × CallSt)
    (hrec : RecSpec c rec) (p : List Vtx) (w : WalkSt) (hw : WInv c N Sup w)
    (hpath : w.err = none → ∃ u, w.prev = some u ∧ Chain c.g u p) (hnt : ∀ v ∈ p, v ≠ .func tk) :
    WInv c N Sup (p.foldl (walkStep c rec) w) ∧
    ((p.foldl (walkStep c rec) w).err = none → ∀ l, p.getLast? = some l →
      (p.foldl (walkStep c rec) w).prev = some l) := by
  induction p generalizing w with
  | nil => exact ⟨hw, fun _ l h => by simp at h⟩
  | cons v rest ih =>
    rw [List.foldl_cons]
    have hw1 : WInv c N Sup (walkStep c rec w v) :=
      walkStep_winv gf rec hrec w v hw
        (fun he => by
          obtain ⟨u, hu, hc⟩ := hpath he
          exact ⟨u, hu, hc.1⟩)
        (hnt v (by simp))
    have hpath1 : (walkStep c rec w v).err = none →
        ∃ u, (walkStep c rec w v).prev = some u ∧ Chain c.g u rest := by
      intro he
      obtain ⟨u, _, hc⟩ := hpath (walkStep_err_mono c rec w v he)
      exact ⟨v, walkStep_prev c rec w v he, hc.2⟩
    obtain ⟨i1, i2⟩ := ih _ hw1 hpath1 (fun u hu => hnt u (List.mem_cons_of_mem _ hu))
    refine ⟨i1, fun he l hl => ?_⟩
    cases rest with
    | nil =>
      simp only [List.getLast?_singleton, Option.some.injEq] at hl
      subst hl
      exact walkStep_prev c rec w v he
    | cons b rest' =>
      rw [List.getLast?_cons_cons] at hl
      exact i2 he l hl

/-! ### walking all paths -/

/-- (V) for an argument map -/
def AmOK (c : Ctx) (am : ArgMap) : Prop := ∀ x a, mapGet am x = some a → c.env.assignable a.ty x.ty = true

/-- a root-first real path that avoids the target vertex and ends in a value or argument vertex -/
def GoodPath (c : Ctx) (tk : Nat) (p : List Vtx) : Prop :=
  ∃ rest, p = .root :: rest ∧ rest ≠ [] ∧ Chain c.g .root rest ∧ (∀ v ∈ rest, v ≠ .func tk) ∧
    ∀ l, rest.getLast? = some l → (l.isValue = true ∨ l.isArg = true)

theorem walkPaths_spec (gf : Facts c N tk Sup) (rec : Vtx → CallSt → Except RErr ArgMap × CallSt)
    (hrec : RecSpec c rec) (paths : List (List Vtx)) (hp : ∀ p ∈ paths, GoodPath c tk p) (am : ArgMap)
    (s : CallSt) (hs : SInv c N Sup s) (ham : AmOK c am) :
    (∀ e, (walkPaths c rec paths am s).1 = .error e → Allowed N e) ∧
    (∀ am', (walkPaths c rec paths am s).1 = .ok am' →
      AmOK c am' ∧ SInv c N Sup (walkPaths c rec paths am s).2 ∧
      (∀ x, (mapGet am x).isSome = true → (mapGet am' x).isSome = true) ∧
      ∀ p ∈ paths, ∀ l, p.getLast? = some l → (mapGet am' l).isSome = true) := by
  induction paths generalizing am s with
  | nil =>
    refine ⟨fun e h => (by cases h), fun am' h => ?_⟩
    simp only [walkPaths, Except.ok.injEq] at h
    subst h
    exact ⟨ham, hs, fun _ h => h, fun _ h => by cases h⟩
  | cons p rest ih =>
    obtain ⟨tl, hptl, htl, hchain, hnt, hkind⟩ := hp p (by simp)
    unfold walkPaths
    have hw1 : WInv c N Sup { s := s, final := none, prev := some .root, err := none } :=
      ⟨fun e h => (by cases h), fun _ => ⟨hs, trivial⟩⟩
    have hfold := walkFold_winv gf rec hrec tl _ hw1 (fun _ => ⟨.root, rfl, hchain⟩) hnt
    have hfeq : p.foldl (walkStep c rec) { s := s, final := none, prev := none, err := none } =
        tl.foldl (walkStep c rec) { s := s, final := none, prev := some .root, err := none } := by
      rw [hptl, List.foldl_cons, walkStep_root c rec rfl]
    have hlast : p.getLast? = tl.getLast? := by
      rw [hptl]
      cases tl with
      | nil => exact absurd rfl htl
      | cons a tl' => rw [List.getLast?_cons_cons]
    rw [hfeq]
    generalize tl.foldl (walkStep c rec) { s := s, final := none, prev := some .root, err := none } = w at hfold
    obtain ⟨⟨herrA, hok⟩, hprev⟩ := hfold
    dsimp only
    split
    · rename_i e he
      exact ⟨fun e' h => by cases h; exact herrA e he, fun am' h => by cases h⟩
    · rename_i herr
      obtain ⟨hS, hP⟩ := hok herr
      obtain ⟨l, hl⟩ : ∃ l, tl.getLast? = some l := by
        cases h : tl.getLast? with
        | none => exact absurd (List.getLast?_eq_none_iff.1 h) htl
        | some l => exact ⟨l, rfl⟩
      rw [hprev herr l hl] at hP
      have hfin : ∃ x, w.final = some x ∧ w.s.get l = some x := by
        rcases hkind l hl with hv | hv
        · cases l <;> simp [Vtx.isValue] at hv
          obtain ⟨x, hx⟩ := Option.isSome_iff_exists.1 hP.1
          exact ⟨x, by rw [hP.2.2, hx], hx⟩
        · cases l <;> simp [Vtx.isArg] at hv
          obtain ⟨x, hx⟩ := Option.isSome_iff_exists.1 hP.1
          exact ⟨x, by rw [hP.2, hx], hx⟩
      obtain ⟨x, hfx, hgx⟩ := hfin
      rw [hlast, hl, hfx]
      dsimp only
      have ham1 : AmOK c (mapSet am l x) := by
        intro y a hy
        rw [mapGet_mapSet'] at hy
        split at hy
        · rename_i hyl
          simp only [Option.some.injEq] at hy
          subst hy; subst hyl
          exact hS.typed _ _ hgx
        · exact ham y a hy
      obtain ⟨j1, j2⟩ := ih (fun q hq => hp q (List.mem_cons_of_mem _ hq)) (mapSet am l x) w.s hS ham1
      refine ⟨j1, fun am' h => ?_⟩
      obtain ⟨k1, k2, k3, k4⟩ := j2 am' h
      refine ⟨k1, k2, ?_, ?_⟩
      · intro y hy
        apply k3
        rw [mapGet_mapSet']
        split
        · rfl
        · exact hy
      · intro q hq l' hl'
        rcases List.mem_cons.1 hq with rfl | hq
        · rw [hlast, hl] at hl'
          cases hl'
          apply k3
          rw [mapGet_mapSet', if_pos rfl]; rfl
        · exact k4 q hq l' hl'

/-! ### planning -/

theorem addInput_memo (s : CallSt) (v : Vtx) : (s.addInput v).memo = s.memo := by
  unfold CallSt.addInput; split <;> rfl

theorem planOne_sinv (target : Vtx) (reaching : List Vtx) (trk : Bool) (ps : PlanSt) (cp : Vtx × List Vtx)
    (h : SInv c N Sup ps.s) : SInv c N Sup (planOne target reaching trk false ps cp).s := by
  unfold planOne
  dsimp only
  split
  · exact h
  · simp only [Bool.false_eq_true, if_false]
    exact h.congr (addInput_store _ _) (addInput_memo _ _)

theorem plan_unsat_nil (target : Vtx) (reaching : List Vtx) (rd : Bool) (l : List (Vtx × List Vtx))
    (hl : ∀ cp ∈ l, ∀ v ∈ cp.2, v ∉ reaching) (ps : PlanSt) (h : ps.unsat = []) :
    (l.foldl (planOne target reaching true rd) ps).unsat = [] := by
  induction l generalizing ps with
  | nil => exact h
  | cons cp rest ih =>
    rw [List.foldl_cons]
    apply ih (fun cp' h' => hl cp' (List.mem_cons_of_mem _ h'))
    rw [Termination.planOne_unsat]
    have : (cp.2.filter fun v => decide (v ∈ reaching)) = [] := by
      rw [List.filter_eq_nil_iff]
      intro v hv
      simpa using hl cp (by simp) v hv
    simp [this, h]

theorem zip_fst_mem {α β : Type} (l1 : List α) (l2 : List β) (hlen : l2.length = l1.length) (a : α)
    (ha : a ∈ l1) : ∃ b, b ∈ l2 ∧ (a, b) ∈ l1.zip l2 := by
  induction l1 generalizing l2 with
  | nil => cases ha
  | cons a' l1 ih =>
    cases l2 with
    | nil => simp at hlen
    | cons b' l2 =>
      rcases List.mem_cons.1 ha with rfl | ha
      · exact ⟨b', by simp, by simp⟩
      · obtain ⟨b, h1, h2⟩ := ih l2 (by simpa using hlen) ha
        exact ⟨b, List.mem_cons_of_mem _ h1, by simp [h2]⟩

theorem isSome_of_takenAsIs (s : CallSt) (v : Vtx) (h : takenAsIs c s v = true) : (s.get v).isSome = true := by
  cases v <;> simp_all [takenAsIs]

/-- a valid path to a value / argument requirement is a good path -/
theorem goodPath_of_valid (gf : Facts c N tk Sup) (cur : Vtx) (p : List Vtx)
    (hcur : cur.isValue = true ∨ cur.isArg = true) (h : validPath c.g cur p = true) :
    GoodPath c tk p ∧ p.getLast? = some cur := by
  simp only [validPath, Bool.and_eq_true, beq_iff_eq] at h
  obtain ⟨⟨⟨_, hhead⟩, hlast⟩, hpath⟩ := h
  refine ⟨?_, hlast⟩
  cases p with
  | nil => simp at hhead
  | cons a rest =>
    simp only [List.head?_cons, Option.some.injEq] at hhead
    subst hhead
    have hne : rest ≠ [] := by
      intro h
      subst h
      simp only [List.getLast?_singleton, Option.some.injEq] at hlast
      subst hlast
      rcases hcur with h | h <;> cases h
    have hl : rest.getLast? = some cur := by
      cases rest with
      | nil => exact absurd rfl hne
      | cons b r => rw [List.getLast?_cons_cons] at hlast; exact hlast
    have hch := chain_of_isPathB c.g rest .root hpath
    refine ⟨rest, rfl, hne, hch, ?_, ?_⟩
    · apply chain_avoids c.g _ gf.noTarget rest .root hch
      intro l h
      rw [hl] at h
      cases h
      intro h
      subst h
      rcases hcur with h | h <;> cases h
    · intro l h
      rw [hl] at h
      cases h
      exact hcur

/-! ### the top-level `reach` -/

theorem reach_top (gf : Facts c N tk Sup) (m : Nat)
    (hrec : RecSpec c (fun v st => reach c false m [.func tk] v st)) (s : CallSt) (hs : SInv c N Sup s) :
    (∀ e, (reach c false (m + 1) [] (.func tk) s).1 = .error e → Allowed N e) ∧
    (∀ am, (reach c false (m + 1) [] (.func tk) s).1 = .ok am →
      AmOK c am ∧ SInv c N Sup (reach c false (m + 1) [] (.func tk) s).2 ∧
      ∀ y ∈ c.g.outs (.func tk), y ≠ .root → (mapGet am y).isSome = true) := by
  unfold reach
  dsimp only
  -- the skipped requirements
  have ham0 : AmOK c (((c.g.outs (.func tk)).filter (fun v => v == Vtx.root || takenAsIs c s v)).filterMap
      (fun v => if v == Vtx.root then none else (s.get v).map (fun x => (v, x)))) := by
    intro x a h
    have hm := mem_of_mapGet h
    simp only [List.mem_filterMap] at hm
    obtain ⟨v, _, hv⟩ := hm
    split at hv
    · cases hv
    · cases hg : s.get v with
      | none => simp [hg] at hv
      | some y =>
        simp only [hg, Option.map_some, Option.some.injEq, Prod.mk.injEq] at hv
        obtain ⟨rfl, rfl⟩ := hv
        exact hs.typed _ _ hg
  have hsk : ∀ y ∈ c.g.outs (.func tk), y ≠ .root → (y == Vtx.root || takenAsIs c s y) = true →
      (mapGet (((c.g.outs (.func tk)).filter (fun v => v == Vtx.root || takenAsIs c s v)).filterMap
        (fun v => if v == Vtx.root then none else (s.get v).map (fun x => (v, x)))) y).isSome = true := by
    intro y hy hyr ht
    rw [ExactWins.mapGet_am0, if_pos ⟨List.mem_filter.2 ⟨hy, ht⟩, hyr⟩]
    apply isSome_of_takenAsIs
    have : (y == Vtx.root) = false := by simpa using hyr
    simpa [this] using ht
  generalize ((c.g.outs (.func tk)).filter (fun v => v == Vtx.root || takenAsIs c s v)).filterMap
    (fun v => if v == Vtx.root then none else (s.get v).map (fun x => (v, x))) = am0 at ham0 hsk
  have hmiss : ∀ cur ∈ (c.g.outs (.func tk)).filter (fun v => !(v == Vtx.root || takenAsIs c s v)),
      cur.isValue = true ∨ cur.isArg = true := by
    intro cur hcur
    simp only [List.mem_filter] at hcur
    obtain ⟨f, _, hreq⟩ := gf.funcReq tk cur (hasEdge_of_mem_outs _ _ _ hcur.1)
    rcases hreq with rfl | ⟨v, _, rfl⟩
    · simp at hcur
    · exact vertex_kind _
  have hcover : ∀ y ∈ c.g.outs (.func tk), (y == Vtx.root || takenAsIs c s y) = true ∨
      y ∈ (c.g.outs (.func tk)).filter (fun v => !(v == Vtx.root || takenAsIs c s v)) := by
    intro y hy
    cases h : (y == Vtx.root || takenAsIs c s y) with
    | true => exact Or.inl rfl
    | false => exact Or.inr (List.mem_filter.2 ⟨hy, by simp [h]⟩)
  generalize (c.g.outs (.func tk)).filter (fun v => !(v == Vtx.root || takenAsIs c s v)) = missingM
    at hmiss hcover
  have hs1 : SInv c N Sup (if c.skipRecordsInput then
      ((c.g.outs (.func tk)).filter (fun v => v == Vtx.root || takenAsIs c s v)).foldl CallSt.addInput s else s) := by
    rw [gf.sri]
    exact hs
  generalize (if c.skipRecordsInput then
      ((c.g.outs (.func tk)).filter (fun v => v == Vtx.root || takenAsIs c s v)).foldl CallSt.addInput s else s) = s1
    at hs1
  split
  · exact ⟨fun e h => by cases h; exact Or.inl ⟨_, rfl⟩, fun am h => by cases h⟩
  · rename_i item orcRest _
    have hs2 : SInv c N Sup { s1 with orc := orcRest } := hs1.congr rfl rfl
    split
    · exact ⟨fun e h => by cases h; exact Or.inl ⟨_, rfl⟩, fun am h => by cases h⟩
    · split
      · exact ⟨fun e h => by cases h; exact Or.inl ⟨_, rfl⟩, fun am h => by cases h⟩
      · rename_i hsame
        have hsame' : sameMembers item.missing missingM = true := by simpa using hsame
        simp only [sameMembers, Bool.and_eq_true, List.all_eq_true, decide_eq_true_eq] at hsame'
        split
        · rename_i hempty
          refine ⟨fun e h => (by cases h), fun am h => ?_⟩
          simp only [Except.ok.injEq] at h
          subst h
          refine ⟨ham0, hs2, fun y hy hyr => ?_⟩
          rcases hcover y hy with h | h
          · exact hsk y hy hyr h
          · rw [List.isEmpty_iff.1 hempty] at h; cases h
        · split
          · exact ⟨fun e h => by cases h; exact Or.inl ⟨_, rfl⟩, fun am h => by cases h⟩
          · rename_i hlen
            simp only [ne_eq, Decidable.not_not] at hlen
            split
            · exact ⟨fun e h => by cases h; exact Or.inl ⟨_, rfl⟩, fun am h => by cases h⟩
            · rename_i hvalid
              have hvalid' : ((item.missing.zip item.paths).all fun cp => validPath c.g cp.1 cp.2) = true := by
                simpa using hvalid
              have hgood : ∀ cp ∈ item.missing.zip item.paths, GoodPath c tk cp.2 ∧ cp.2.getLast? = some cp.1 := by
                intro cp hcp
                exact goodPath_of_valid gf cp.1 cp.2 (hmiss _ (hsame'.1.1 _ (List.of_mem_zip hcp).1))
                  (List.all_eq_true.1 hvalid' _ hcp)
              have hs3 : SInv c N Sup ((item.missing.zip item.paths).foldl
                  (planOne (.func tk) [.func tk] c.trackReaching false)
                  { s := { s1 with orc := orcRest }, unsat := [] }).s :=
                foldl_inv (fun (ps : PlanSt) => SInv c N Sup ps.s) _
                  (fun ps cp h => planOne_sinv _ _ _ ps cp h) _ _ hs2
              have hun : ((item.missing.zip item.paths).foldl
                  (planOne (.func tk) [.func tk] c.trackReaching false)
                  { s := { s1 with orc := orcRest }, unsat := [] }).unsat = [] := by
                rw [gf.tr]
                apply plan_unsat_nil _ _ _ _ _ _ rfl
                intro cp hcp v hv hmem
                simp only [List.mem_singleton] at hmem
                obtain ⟨⟨rest, hp, _, _, hnt, _⟩, _⟩ := hgood cp hcp
                rw [hp] at hv
                rcases List.mem_cons.1 hv with h | h
                · rw [h] at hmem; cases hmem
                · exact hnt v h hmem
              split
              · rename_i hne
                rw [hun] at hne
                simp at hne
              · have hwp := walkPaths_spec gf _ hrec item.paths
                  (by
                    intro p hp
                    obtain ⟨cur, _, hz⟩ := zip_snd_mem item.missing item.paths hlen p hp
                    exact (hgood _ hz).1)
                  am0 _ hs3 ham0
                refine ⟨hwp.1, fun am h => ?_⟩
                obtain ⟨k1, k2, k3, k4⟩ := hwp.2 am h
                refine ⟨k1, k2, fun y hy hyr => ?_⟩
                rcases hcover y hy with h | h
                · exact k3 y (hsk y hy hyr h)
                · obtain ⟨p, hp, hz⟩ := zip_fst_mem item.missing item.paths hlen y (hsame'.1.2 _ h)
                  exact k4 p hp y (hgood _ hz).2

/-! ### `callWith` -/

theorem callWith_complete (gf : Facts c N tk Sup) (cgr : CallGraphResult) (target : FuncDesc)
    (htk : target.key = tk) (htv : cgr.target = .func target.key) (hunsat : cgr.unsat = [])
    (hpar : ∀ v ∈ target.input.values, v.lab.vertex ∈ c.g.outs (.func tk))
    (m : Nat) (s0 : CallSt) (hs : SInv c N Sup s0) :
    (∃ res, (callWith c cgr target (m + 1 + 1) s0).1 = .ok res) ∨
    ((∃ ε, (callWith c cgr target (m + 1 + 1) s0).1 = .convErr ε) ∧ ¬ N) ∨
    ((∃ ε res, (callWith c cgr target (m + 1 + 1) s0).1 = .targetErr ε res) ∧ ¬ N) ∨
    (∃ w, (callWith c cgr target (m + 1 + 1) s0).1 = .badOracle w) := by
  have hrec : RecSpec c (fun v st => reach c false (m + 1) [.func tk] v st) :=
    fun k s hall => ExactWins.reach_all_present c gf.sri gf.auto m [.func tk] (.func k) s hall
  obtain ⟨hE, hO⟩ := reach_top gf (m + 1) hrec s0 hs
  unfold callWith
  rw [hunsat, htv, htk]
  simp only [List.isEmpty_nil, Bool.not_true, Bool.false_eq_true, if_false]
  rcases hres : reach c false (m + 1 + 1) [] (.func tk) s0 with ⟨e | am, s⟩
  · rw [hres] at hE
    rcases hE e rfl with ⟨w, rfl⟩ | ⟨⟨ε, rfl⟩, hne⟩
    · exact Or.inr (Or.inr (Or.inr ⟨w, rfl⟩))
    · exact Or.inr (Or.inl ⟨⟨ε, rfl⟩, hne⟩)
  · rw [hres] at hO
    obtain ⟨hA, hS, hcov⟩ := hO am rfl
    dsimp only at hS ⊢
    have hga : ∃ args, gatherArgs c.env target am = .ok args := by
      refine ⟨_, ExactWins.gatherArgs_ok _ _ _ ?_⟩
      intro v hv
      obtain ⟨a, ha⟩ := Option.isSome_iff_exists.1 (hcov _ (hpar v hv) (vertex_ne_root _))
      refine ⟨a, ha, ?_⟩
      have := hA _ _ ha
      rw [vertex_ty] at this
      exact this
    obtain ⟨r, unw, s2, hcd, _, hr2, _⟩ := callDirect_spec (Sup := Sup) gf.hN target am s hS hga
    rw [hcd]
    dsimp only
    cases hre : r.err with
    | some ε =>
      refine Or.inr (Or.inr (Or.inl ⟨⟨ε, r, rfl⟩, fun hne => ?_⟩))
      rw [hr2 hne] at hre; cases hre
    | none => exact Or.inl ⟨r, rfl⟩

end ArgMapper.Complete
