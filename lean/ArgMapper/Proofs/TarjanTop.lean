import ArgMapper.Proofs.TarjanVisit
/-!
# Tarjan's SCC algorithm: the top-level loop and the final result
-/
namespace ArgMapper
namespace Tarjan
open AGraph Traverse TraverseReach
set_option linter.unusedSectionVars false
variable {α : Type} [DecidableEq α]

def initAcct : SccAcct α := { next := 1, index := [], stack := [], scc := [] }

theorem idxOf_init (x : α) : idxOf (initAcct : SccAcct α) x = 0 := rfl

theorem inv_init (g : AGraph α) : Inv g [] (initAcct : SccAcct α) := by
  refine ⟨Nat.le_refl _, fun x => by rw [idxOf_init]; exact Nat.zero_lt_one,
    fun x h => absurd (idxOf_init x) h, ?_, ?_, ?_, ?_, ?_, ?_, ?_, ?_, ?_⟩
  · intro x
    rw [idxOf_init]
    simp [initAcct]
  · intro x hx; cases hx
  · simp [initAcct]
  · simp [initAcct]
  · intro x hx; cases hx
  · intro x y _ hx; exact absurd (idxOf_init x) hx
  · intro x hx; cases hx
  · intro y hy; cases hy
  · intro c hc; cases hc

theorem whiteCount_le_verts (g : AGraph α) (a : SccAcct α) : whiteCount g a ≤ g.verts.length :=
  List.length_filter_le _ _

theorem sccTop_spec {g : AGraph α} (hwf : g.WF) {a : SccAcct α} (hi : Inv g [] a) {v : α}
    (hv : v ∈ g.verts) :
    Inv g [] (sccTop g a v) ∧ Ext a (sccTop g a v) ∧ idxOf (sccTop g a v) v ≠ 0 := by
  unfold sccTop
  by_cases h : idxOf a v = 0
  · rw [if_pos h]
    have hp : Pre g [] (g.verts.length + 1) v a :=
      ⟨hi, hv, h, fun y hy => (by cases hy), Nat.lt_succ_of_le (whiteCount_le_verts g a)⟩
    have P := visit_spec hwf _ [] v a hp
    refine ⟨P.inv, P.ext, ?_⟩
    rw [P.vis]
    have := hi.next_pos
    omega
  · rw [if_neg h]
    exact ⟨hi, Ext.refl a, h⟩

theorem fold_top {g : AGraph α} (hwf : g.WF) : ∀ (vs : List α) (a : SccAcct α), Inv g [] a →
    (∀ v ∈ vs, v ∈ g.verts) →
    Inv g [] (vs.foldl (sccTop g) a) ∧ Ext a (vs.foldl (sccTop g) a) ∧
      ∀ v ∈ vs, idxOf (vs.foldl (sccTop g) a) v ≠ 0
  | [], a, hi, _ => ⟨hi, Ext.refl a, fun v hv => by cases hv⟩
  | v :: vs, a, hi, h => by
    obtain ⟨h1, h2, h3⟩ := sccTop_spec hwf hi (h v (by simp))
    obtain ⟨k1, k2, k3⟩ := fold_top hwf vs (sccTop g a v) h1 (fun w hw => h w (by simp [hw]))
    refine ⟨k1, h2.trans k2, ?_⟩
    intro w hw
    rcases List.mem_cons.mp hw with rfl | hw
    · exact k2.vis h3
    · exact k3 w hw

theorem Inv.stack_nil {g : AGraph α} {a : SccAcct α} (hi : Inv g [] a) : a.stack = [] := by
  cases hs : a.stack with
  | nil => rfl
  | cons y ys =>
    obtain ⟨x, hx, _⟩ := hi.stack_reach y (by rw [hs]; simp)
    cases hx

theorem stronglyConnected_spec {g : AGraph α} (hwf : g.WF) :
    (stronglyConnected g).flatten.Nodup ∧ (∀ v, v ∈ (stronglyConnected g).flatten ↔ v ∈ g.verts) ∧
    (∀ c ∈ stronglyConnected g, c ≠ []) ∧
    ∀ c ∈ stronglyConnected g, ∀ u ∈ c, ∀ v, (v ∈ c ↔ (Reach g u v ∧ Reach g v u)) := by
  obtain ⟨hi, _, hall⟩ := fold_top hwf g.verts initAcct (inv_init g) (fun v hv => hv)
  have hnil := hi.stack_nil
  refine ⟨hi.scc_nodup, ?_, fun c hc => (hi.scc_ok c hc).1, fun c hc => (hi.scc_ok c hc).2⟩
  intro v
  constructor
  · intro hv
    exact hi.vis_verts v ((hi.vis_iff v).mpr (Or.inr hv))
  · intro hv
    rcases (hi.vis_iff v).mp (hall v hv) with h | h
    · rw [hnil] at h; cases h
    · exact h

end Tarjan
end ArgMapper
