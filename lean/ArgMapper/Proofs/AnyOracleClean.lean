import ArgMapper.Proofs.Complete
/-!
# When no body reports an error, `Call` reports none (helper lemmas for C05d, `stable_any_oracle`)

`Clean s`: no memo cell holds an error.  If no function body reports an error (`Complete.NE c`) every step of
`reach` keeps the memo table clean and never fails with `funcErr`; hence `callWith` never ends in `convErr` or
`targetErr`.  Every graph, every oracle, both values of every repair flag.
-/
set_option linter.unusedSectionVars false
set_option linter.unusedVariables false
namespace ArgMapper.AnyOracleClean
open ArgMapper WalkEqs ReachSound Complete

def Clean (s : CallSt) : Prop := ∀ p ∈ s.memo, p.2.res.err = none

theorem Clean.congr {s s' : CallSt} (h : Clean s) (hm : s'.memo = s.memo) : Clean s' := by
  intro p hp; rw [hm] at hp; exact h p hp

theorem callDirect_clean {c : Ctx} (hne : NE c) (f : FuncDesc) (am : ArgMap) (s : CallSt) (h : Clean s) :
    Clean (callDirect c f am s).2 ∧ ∀ r u, (callDirect c f am s).1 = .ok (r, u) → r.err = none := by
  unfold callDirect
  split
  · rename_i m hm
    refine ⟨h, fun r u hr => ?_⟩
    simp only [Except.ok.injEq, Prod.mk.injEq] at hr
    rw [← hr.1]
    split at hm
    · exact h _ (ExactWins.mem_of_mapGet' hm)
    · cases hm
  · split
    · exact ⟨h, fun r u hr => by cases hr⟩
    · dsimp only
      refine ⟨?_, fun r u hr => ?_⟩
      · split
        · intro p hp
          rcases ExactWins.mem_mapSet hp with h' | h'
          · exact h p h'
          · subst h'; exact hne _ _ _
        · exact h
      · simp only [Except.ok.injEq, Prod.mk.injEq] at hr
        rw [← hr.1]; exact hne _ _ _

theorem oFold_memo (f : FuncDesc) (r : BehOut) (l : List Vtx) (s : CallSt) :
    (l.foldl (oStep f r) s).memo = s.memo := by
  induction l generalizing s with
  | nil => rfl
  | cons a l ih => rw [List.foldl_cons, ih, oStep_memo]

theorem outputValues_clean (c : Ctx) (f : FuncDesc) (r : BehOut) (u : Bool) (s s' : CallSt) (h : Clean s)
    (ho : outputValues c f r u s = .ok s') : Clean s' := by
  rw [outputValues_eq] at ho
  split at ho
  · cases ho
  · simp only [Except.ok.injEq] at ho
    subst ho
    intro p hp
    rw [oFold_memo] at hp
    split at hp
    · simp only [List.mem_map] at hp
      obtain ⟨q, hq, rfl⟩ := hp
      have := h q hq
      split
      · exact this
      · exact this
    · exact h p hp

/-- walk state: clean memo table, and the error (if any) is not a function's error -/
def WC (w : WalkSt) : Prop := Clean w.s ∧ ∀ ε, w.err ≠ some (.funcErr ε)

/-- result of a search: the same -/
def RC (r : Except RErr ArgMap × CallSt) : Prop := Clean r.2 ∧ ∀ ε, r.1 ≠ .error (.funcErr ε)

def RecC (rec : Vtx → CallSt → Except RErr ArgMap × CallSt) : Prop := ∀ v s, Clean s → RC (rec v s)

theorem walkStep_wc {c : Ctx} (hne : NE c) (rec : Vtx → CallSt → Except RErr ArgMap × CallSt) (hrec : RecC rec)
    (w : WalkSt) (v : Vtx) (hw : WC w) : WC (walkStep c rec w v) := by
  cases herr : w.err with
  | some e => rw [walkStep_err c rec herr]; exact hw
  | none =>
    have hnone : ∀ ε, w.err ≠ some (.funcErr ε) := hw.2
    cases v with
    | root => rw [walkStep_root c rec herr]; exact hw
    | value n t u =>
      rw [walkStep_value c rec herr]
      exact ⟨hw.1.congr (by simp), hw.2⟩
    | arg t u =>
      rw [walkStep_arg c rec herr]
      exact ⟨hw.1.congr (by simp), hw.2⟩
    | out t u =>
      rw [walkStep_out c rec herr]
      exact ⟨hw.1.congr (by simp), hw.2⟩
    | func k =>
      cases hfo : c.funcOf k with
      | none =>
        rw [walkStep_func_none c rec herr k hfo]
        exact ⟨hw.1, fun ε h => by cases h⟩
      | some f =>
        have hr := hrec (.func k) w.s hw.1
        rcases hrs : rec (Vtx.func k) w.s with ⟨e | am, s1⟩
        · rw [walkStep_func_recErr c rec herr k hfo hrs]
          rw [hrs] at hr
          refine ⟨hr.1, fun ε h => ?_⟩
          cases h
          exact hr.2 ε rfl
        · rw [hrs] at hr
          have h2 := callDirect_clean hne f am s1 hr.1
          rcases hcs : callDirect c f am s1 with ⟨e | ⟨r, unw⟩, s2⟩
          · rw [walkStep_func_cdErr c rec herr k hfo hrs hcs]
            rw [hcs] at h2
            refine ⟨h2.1, fun ε h => ?_⟩
            cases h
            rcases Termination.callDirect_err c f am s1 _ (by rw [hcs]) with h' | h' <;> cases h'
          · rw [hcs] at h2
            have hre : r.err = none := h2.2 r unw rfl
            cases hov : outputValues c f r unw s2 with
            | error e =>
              rw [walkStep_func_outErr c rec herr k hfo hrs hcs hre hov]
              refine ⟨h2.1, fun ε h => ?_⟩
              cases h
              have := (Termination.outputValues_err _ _ _ _ _ _ hov).1
              cases this
            | ok s3 =>
              rw [walkStep_func_ok c rec herr k hfo hrs hcs hre hov]
              exact ⟨outputValues_clean c f r unw s2 s3 h2.1 hov, hw.2⟩

theorem walkFold_wc {c : Ctx} (hne : NE c) (rec : Vtx → CallSt → Except RErr ArgMap × CallSt) (hrec : RecC rec)
    (p : List Vtx) (w : WalkSt) (hw : WC w) : WC (p.foldl (walkStep c rec) w) := by
  induction p generalizing w with
  | nil => exact hw
  | cons v rest ih =>
    rw [List.foldl_cons]
    exact ih _ (walkStep_wc hne rec hrec w v hw)

theorem walkPaths_rc {c : Ctx} (hne : NE c) (rec : Vtx → CallSt → Except RErr ArgMap × CallSt) (hrec : RecC rec)
    (paths : List (List Vtx)) (am : ArgMap) (s : CallSt) (hs : Clean s) :
    RC (walkPaths c rec paths am s) := by
  induction paths generalizing am s with
  | nil => exact ⟨hs, fun ε h => by cases h⟩
  | cons p rest ih =>
    unfold walkPaths
    have hfold := walkFold_wc hne rec hrec p { s := s, final := none, prev := none, err := none }
      ⟨hs, fun ε h => by cases h⟩
    generalize p.foldl (walkStep c rec) { s := s, final := none, prev := none, err := none } = w at hfold
    dsimp only
    split
    · rename_i e he
      refine ⟨hfold.1, fun ε h => ?_⟩
      simp only [Except.error.injEq] at h
      subst h
      exact hfold.2 ε he
    · split
      · exact ih _ _ hfold.1
      · exact ⟨hfold.1, fun ε h => by cases h⟩

theorem reach_rc {c : Ctx} (hne : NE c) (rd : Bool) (n : Nat) (reaching : List Vtx) (t : Vtx) (s : CallSt)
    (hs : Clean s) : RC (reach c rd n reaching t s) := by
  induction n generalizing reaching t s with
  | zero =>
    unfold reach
    exact ⟨hs, fun ε h => by cases h⟩
  | succ n ih =>
    unfold reach
    dsimp only
    generalize (c.g.outs t).filter (fun v => !(v == Vtx.root || takenAsIs c s v)) = missingM
    generalize ((c.g.outs t).filter (fun v => v == Vtx.root || takenAsIs c s v)).filterMap
      (fun v => if v == Vtx.root then none else (s.get v).map (fun x => (v, x))) = am0
    have hs1 : Clean (if c.skipRecordsInput then
        ((c.g.outs t).filter (fun v => v == Vtx.root || takenAsIs c s v)).foldl CallSt.addInput s else s) := by
      split
      · exact hs.congr (ErrorProp.foldl_addInput_memo _ _)
      · exact hs
    generalize (if c.skipRecordsInput then
        ((c.g.outs t).filter (fun v => v == Vtx.root || takenAsIs c s v)).foldl CallSt.addInput s else s) = s1
      at hs1
    split
    · exact ⟨hs1, fun ε h => by cases h⟩
    · rename_i item orcRest _
      have hs2 : Clean { s1 with orc := orcRest } := hs1.congr rfl
      split
      · exact ⟨hs2, fun ε h => by cases h⟩
      · split
        · exact ⟨hs2, fun ε h => by cases h⟩
        · split
          · exact ⟨hs2, fun ε h => by cases h⟩
          · split
            · exact ⟨hs2, fun ε h => by cases h⟩
            · split
              · exact ⟨hs2, fun ε h => by cases h⟩
              · have hs3 : Clean ((item.missing.zip item.paths).foldl
                    (planOne t (t :: reaching) c.trackReaching rd)
                    { s := { s1 with orc := orcRest }, unsat := [] }).s :=
                  hs2.congr (ErrorProp.plan_fold_log _ _ _ _ _ _).2
                split
                · exact ⟨hs3, fun ε h => by cases h⟩
                · exact walkPaths_rc hne _ (fun v st hst => ih _ v st hst) _ _ _ hs3

/-- when no body reports an error and no memo cell holds one, `Call` reports no function's error -/
theorem callWith_no_func_err {c : Ctx} (hne : NE c) (cgr : CallGraphResult) (target : FuncDesc) (fuel : Nat)
    (s0 : CallSt) (hs : Clean s0) :
    (∀ ε, (callWith c cgr target fuel s0).1 ≠ .convErr ε) ∧
    (∀ ε r, (callWith c cgr target fuel s0).1 ≠ .targetErr ε r) := by
  have hr := reach_rc hne false fuel [] cgr.target s0 hs
  unfold callWith
  split
  · exact ⟨fun ε h => (by cases h), fun ε r h => (by cases h)⟩
  · rcases hres : reach c false fuel [] cgr.target s0 with ⟨e | am, s⟩
    · rw [hres] at hr
      cases e with
      | funcErr ε => exact absurd rfl (hr.2 ε)
      | unsat a => exact ⟨fun ε h => (by cases h), fun ε r h => (by cases h)⟩
      | missingArg => exact ⟨fun ε h => (by cases h), fun ε r h => (by cases h)⟩
      | panic k => exact ⟨fun ε h => (by cases h), fun ε r h => (by cases h)⟩
      | outOfFuel => exact ⟨fun ε h => (by cases h), fun ε r h => (by cases h)⟩
      | badOracle w => exact ⟨fun ε h => (by cases h), fun ε r h => (by cases h)⟩
    · rw [hres] at hr
      dsimp only
      have hcd := callDirect_clean hne target am s hr.1
      rcases hcs : callDirect c target am s with ⟨e | ⟨r, unw⟩, s2⟩
      · cases e <;> exact ⟨fun ε h => (by cases h), fun ε r h => (by cases h)⟩
      · rw [hcs] at hcd
        have hre : r.err = none := hcd.2 r unw rfl
        dsimp only
        rw [hre]
        exact ⟨fun ε h => (by cases h), fun ε r h => (by cases h)⟩

end ArgMapper.AnyOracleClean
