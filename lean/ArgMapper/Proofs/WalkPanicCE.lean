import ArgMapper.Props.C03
import ArgMapper.Props.C05
import ArgMapper.Proofs.Sig
/-!
# Counterexample to the original statement of `C06.no_walk_panic` (third conjunct, `missingArg`)

A converter with **two** inputs of which only one can be obtained.  Pruning keeps the converter's
vertex (it is reachable from the root through the obtainable input) but removes the vertex of the other
input.  The converter lies on the only path to the target's parameter, the nested search for the
converter sees a single requirement (already filled), and `callDirect` looks the second parameter up in
an argument map that does not hold it: "argument cannot be satisfied … This is a bug in the go-argmapper
library".

In Go terms (replayed on the real library, same outcome):

    type A struct{ X int }; type B struct{ X int }; type C struct{ X int }
    f, _ := argmapper.NewFunc(func(c C) int { return 1 })
    res := f.Call(argmapper.Typed(A{1}),
                  argmapper.Converter(func(a A, b B) C { return C{a.X} }))
    // res.Err(): "argument cannot be satisfied: type: B. This is a bug in the go-argmapper library …"

Types: `A = 1`, `B = 2`, `C = 3`.  Every value set below is the one `newFunc` builds for that signature.
-/
namespace ArgMapper.WalkPanicCE
open ArgMapper

def e0 : TypeEnv := ⟨fun _ => false, fun _ _ => false⟩
def tv (t i : Nat) : SVal := ⟨⟨"", t, ""⟩, i⟩

/-- the lifted set of `(C)` -/
def setC : ValueSet := ⟨true, 0, [tv 3 0], [], [(3, tv 3 0)], true⟩
/-- the lifted set of `(A, B)` -/
def setAB : ValueSet := ⟨true, 0, [tv 1 0, tv 2 1], [], [(1, tv 1 0), (2, tv 2 1)], true⟩

/-- target `func(C)` -/
def tgt : FuncDesc := ⟨0, 0, setC, ValueSet.nil, false, false⟩
/-- converter `func(A, B) C` -/
def conv : FuncDesc := ⟨1, 1, setAB, setC, false, false⟩

theorem vsC : newValueSet [.plain 3] = .ok setC := by
  rw [newValueSet_eq_lifted _ (by decide) (by decide), newValueSetLifted_eq _ (by decide)]
  rfl
theorem vsAB : newValueSet [.plain 1, .plain 2] = .ok setAB := by
  rw [newValueSet_eq_lifted _ (by decide) (by decide), newValueSetLifted_eq _ (by decide)]
  rfl

/-- `newFunc` in the form used by `newFunc_ok` -/
theorem newFunc_of {ins outs : List Param} {i o : ValueSet} (hi : newValueSet ins = .ok i)
    (hl : lastIsErr outs = false) (ho : newValueSet outs = .ok o) :
    newFunc ins outs = .ok ⟨i, o, false⟩ := by
  unfold newFunc
  change (match newValueSet ins with
    | .error e => .error e
    | .ok i =>
      match newValueSet (if lastIsErr outs then outs.dropLast else outs) with
      | .error e => .error e
      | .ok o => .ok { input := i, output := o, hasErr := lastIsErr outs }) = (Except.ok ⟨i, o, false⟩ : Except SigErr FuncSig)
  rw [hi, hl]
  simp only [Bool.false_eq_true, if_false]
  rw [ho]

/-- the value sets are the ones the model of `NewFunc` builds for `func(C)` and `func(A, B) C` -/
theorem tgt_is_newFunc : newFunc [.plain 3] [] = .ok ⟨tgt.input, tgt.output, tgt.hasErr⟩ :=
  newFunc_of vsC (by decide) rfl
theorem conv_is_newFunc : newFunc [.plain 1, .plain 2] [.plain 3] = .ok ⟨conv.input, conv.output, conv.hasErr⟩ :=
  newFunc_of vsAB (by decide) vsC

def funcs : Nat → Option FuncDesc := fun i => if i = 1 then some conv else none
/-- `Typed(A{…})`, `Converter(conv)` -/
def b : Builder := { Builder.empty with typed := [(1, ⟨1, 10⟩)], convs := [1] }

theorem b_is_built : build [.typed [some ⟨1, 10⟩], .conv [some 1]] = .ok b := by decide

def beh0 : Nat → Nat → List PVal → BehOut := fun _ _ _ => ⟨[7], none⟩

/-- the only path to the target's parameter, then the nested search of the converter (nothing missing:
its one surviving requirement `arg A` was filled by the walk) -/
def orc : List OrcItem :=
  [⟨.func 0, [.arg 3 ""], [[.root, .out 1 "", .arg 1 "", .func 1, .out 3 "", .arg 3 ""]]⟩,
   ⟨.func 1, [], []⟩]

def run : Outcome × CallSt :=
  callWith (C01.stdCtx e0 b funcs tgt beh0) (callGraph {} e0 b funcs tgt false none) tgt 5
    (initSt (callGraph {} e0 b funcs tgt false none).cg [] orc)

theorem consistent : C01.FuncsConsistent (C01.allFuncs b funcs tgt) := by
  have hl : C01.allFuncs b funcs tgt = [tgt, conv] := rfl
  rw [hl]
  refine ⟨?_, ?_⟩
  · intro f hf g hg hk
    simp only [List.mem_cons, List.not_mem_nil, or_false] at hf hg
    rcases hf with rfl | rfl <;> rcases hg with rfl | rfl <;>
      first
        | exact ⟨rfl, rfl⟩
        | exact absurd hk (by decide)
  · intro f hf
    simp only [List.mem_cons, List.not_mem_nil, or_false] at hf
    rcases hf with rfl | rfl <;> (unfold ValueSet.KeysOK; decide)

theorem setsWF : C05.SetsWF (C01.allFuncs b funcs tgt) := by
  have hl : C01.allFuncs b funcs tgt = [tgt, conv] := rfl
  rw [hl]
  intro f hf
  simp only [List.mem_cons, List.not_mem_nil, or_false] at hf
  rcases hf with rfl | rfl <;> decide

theorem builderOK : C03.BuilderOK b := by
  unfold C03.BuilderOK C03.NamedOK
  decide

/-- the pruned graph keeps the converter's vertex but not the vertex of its second parameter -/
theorem graph_shape :
    (callGraph {} e0 b funcs tgt false none).cg.g.hasVertex (.func 1) = true ∧
    (callGraph {} e0 b funcs tgt false none).cg.g.hasVertex (.arg 1 "") = true ∧
    (callGraph {} e0 b funcs tgt false none).cg.g.hasVertex (.arg 2 "") = false ∧
    (callGraph {} e0 b funcs tgt false none).unsat = [] := by
  decide

theorem legal : ∀ it ∈ orc, C03.LegalItem (callGraph {} e0 b funcs tgt false none).cg.g it := by
  intro it hit i cur path h1 h2
  simp only [orc, List.mem_cons, List.not_mem_nil, or_false] at hit
  rcases hit with rfl | rfl
  · have hi : i = 0 := by
      cases i with
      | zero => rfl
      | succ j => simp at h1
    subst hi
    simp only [List.getElem?_cons_zero, Option.some.injEq] at h1 h2
    subst h1; subst h2
    exact ⟨[.root, .out 1 "", .arg 1 "", .func 1, .out 3 "", .arg 3 "", .func 0],
      ⟨by decide, by decide, by decide⟩, by decide⟩
  · simp at h1

/-- **the counterexample**: every hypothesis of the original `C06.no_walk_panic` holds and the call ends in
`missingArg`; exactly one function body would have been run (none was: the log is empty) -/
theorem missingArg_reached :
    ImplTrans e0 ∧ C03.BuilderOK b ∧ C01.FuncsConsistent (C01.allFuncs b funcs tgt) ∧
    C05.SetsWF (C01.allFuncs b funcs tgt) ∧
    C03.SmallGraph (callGraph {} e0 b funcs tgt false none).cg.g ∧
    (∀ it ∈ orc, C03.LegalItem (callGraph {} e0 b funcs tgt false none).cg.g it) ∧
    run.1 = .missingArg ∧ run.2.log = [] :=
  ⟨by intro a b c h; simp [e0] at h, builderOK, consistent, setsWF, by unfold C03.SmallGraph; decide, legal,
    by decide, by decide⟩

/-! ### legality of the oracle is needed for "didn't reach a final value"

Target `func(struct{ argmapper.Struct; N T; X T `argmapper:",typeOnly"` })` called with
`NamedSubtype("n", T{…}, "x")`: the graph has the R6 edge `value n T "" → value n T "x"` and the R3 edges
`arg T "" → value n T "x"`, `arg T "" → value n T ""`.  The path `root, value n T x, value n T "", arg T ""`
is a real root-first path (cost 11), but not the one Dijkstra chooses (`root, value n T x, arg T ""`,
cost 6).  **Before the repair of finding F22** (`hopCopies := false`) walking it leaves the argument vertex empty:
the hop into the value-less vertex `value n T ""` publishes no value.  With the legal paths the call succeeds.
Since the repair (`hopCopies := true`, the default of `C01.stdCtx`) the hop copies the value of
`value n T "x"` into `value n T ""` and the call succeeds with the non-shortest path too
(`finalValue_illegal_ok_after_repair`). -/

def svN : SVal := ⟨⟨"n", 1, ""⟩, 1⟩
def svT : SVal := ⟨⟨"", 1, ""⟩, 2⟩
def tgt2 : FuncDesc :=
  ⟨0, 0, ⟨true, 0, [svN, svT], [("n", svN)], [(1, svT)], false⟩, ValueSet.nil, false, false⟩
def b2 : Builder := { Builder.empty with namedSub := [(("n", "x"), ⟨1, 10⟩)] }
def behNil : Nat → Nat → List PVal → BehOut := fun _ _ _ => ⟨[], none⟩

/-- real paths; the second is not a shortest one -/
def orcIllegal : List OrcItem :=
  [⟨.func 0, [.value "n" 1 "", .arg 1 ""],
    [[.root, .value "n" 1 "x", .value "n" 1 ""], [.root, .value "n" 1 "x", .value "n" 1 "", .arg 1 ""]]⟩]
/-- the paths Dijkstra chooses -/
def orcLegal : List OrcItem :=
  [⟨.func 0, [.value "n" 1 "", .arg 1 ""],
    [[.root, .value "n" 1 "x", .value "n" 1 ""], [.root, .value "n" 1 "x", .arg 1 ""]]⟩]

/-- the scenario run with the hop behaviour `hop` (`false`: before the repair of F22; `true`: the default of
`C01.stdCtx`) -/
def run2With (hop : Bool) (orc : List OrcItem) : Outcome × CallSt :=
  callWith { C01.stdCtx e0 b2 (fun _ => none) tgt2 behNil with hopCopies := hop }
    (callGraph {} e0 b2 (fun _ => none) tgt2 false none) tgt2 5
    (initSt (callGraph {} e0 b2 (fun _ => none) tgt2 false none).cg [] orc)

/-- the pre-repair context (`hopCopies := false`) -/
def run2 (orc : List OrcItem) : Outcome × CallSt := run2With false orc

/-- `run2With true` is the run in `C01.stdCtx` itself -/
theorem run2With_true (orc : List OrcItem) :
    run2With true orc =
      callWith (C01.stdCtx e0 b2 (fun _ => none) tgt2 behNil) (callGraph {} e0 b2 (fun _ => none) tgt2 false none) tgt2 5
        (initSt (callGraph {} e0 b2 (fun _ => none) tgt2 false none).cg [] orc) := rfl

/-- since the repair of F22 the real but non-shortest path no longer makes the call panic -/
theorem finalValue_illegal_ok_after_repair :
    (run2With true orcIllegal).1 = .ok ⟨[], none⟩ ∧ (run2With true orcLegal).1 = .ok ⟨[], none⟩ := by
  exact ⟨by decide, by decide⟩

/-- (pre-repair context, `hopCopies := false`) every hypothesis of `C06.no_walk_panic` except the legality of the
oracle holds (there is no converter at all), both paths of the oracle are valid paths, and the call panics;
with the legal oracle it succeeds -/
theorem finalValue_needs_legal :
    C03.BuilderOK b2 ∧ C01.FuncsConsistent (C01.allFuncs b2 (fun _ => none) tgt2) ∧
    C05.SetsWF (C01.allFuncs b2 (fun _ => none) tgt2) ∧
    C03.SmallGraph (callGraph {} e0 b2 (fun _ => none) tgt2 false none).cg.g ∧
    validPath (callGraph {} e0 b2 (fun _ => none) tgt2 false none).cg.g (.arg 1 "")
      [.root, .value "n" 1 "x", .value "n" 1 "", .arg 1 ""] = true ∧
    (run2 orcIllegal).1 = .panic .finalValue ∧
    (run2 orcLegal).1 = .ok ⟨[], none⟩ := by
  refine ⟨by unfold C03.BuilderOK C03.NamedOK; decide, ?_, ?_, by unfold C03.SmallGraph; decide, by decide,
    by decide, by decide⟩
  · have hl : C01.allFuncs b2 (fun _ => none) tgt2 = [tgt2] := rfl
    rw [hl]
    refine ⟨?_, ?_⟩
    · intro f hf g hg _
      simp only [List.mem_singleton] at hf hg
      subst hf; subst hg
      exact ⟨rfl, rfl⟩
    · intro f hf
      simp only [List.mem_singleton] at hf
      subst hf
      unfold ValueSet.KeysOK; decide
  · have hl : C01.allFuncs b2 (fun _ => none) tgt2 = [tgt2] := rfl
    rw [hl]
    intro f hf
    simp only [List.mem_singleton] at hf
    subst hf
    decide

/-- the legal oracle of that scenario is legal -/
theorem orcLegal_legal :
    ∀ it ∈ orcLegal, C03.LegalItem (callGraph {} e0 b2 (fun _ => none) tgt2 false none).cg.g it := by
  intro it hit i cur path h1 h2
  simp only [orcLegal, List.mem_singleton] at hit
  subst hit
  match i with
  | 0 =>
    simp only [List.getElem?_cons_zero, Option.some.injEq] at h1 h2
    subst h1; subst h2
    exact ⟨[.root, .value "n" 1 "x", .value "n" 1 "", .func 0, .arg 1 "", .arg 1 "x"],
      ⟨by decide, by decide, by decide⟩, by decide⟩
  | 1 =>
    simp only [List.getElem?_cons_succ, List.getElem?_cons_zero, Option.some.injEq] at h1 h2
    subst h1; subst h2
    exact ⟨[.root, .value "n" 1 "x", .value "n" 1 "", .arg 1 "", .arg 1 "x", .func 0],
      ⟨by decide, by decide, by decide⟩, by decide⟩
  | n + 2 => simp at h1

end ArgMapper.WalkPanicCE
