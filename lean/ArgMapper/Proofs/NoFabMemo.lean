import ArgMapper.Model.Hist
import ArgMapper.Proofs.Once
/-!
# Invariants of the run-once cells and the log through `callWith` (helper lemmas for C01c)

`Closed c target G`: the predicate `G` on (memo table, log) survives the two things a call does to them —
an execution of a function of the context (or of the target) appends one log entry and, for a run-once
function, stores that very result in the function's cell; `outputValues` marks a cell as unwrapped.
Every such predicate survives `callWith` (`callWith_closed`) and hence every `Call` of a history.

Instances: `Src` (every cell holds the result of an execution: `memo_from_history`) and `LenOK` (every cell
holds as many output ids as the function object has output values).
-/
namespace ArgMapper.NoFabMemo
open ArgMapper ArgMapper.WalkEqs ArgMapper.ErrorProp

structure Closed (c : Ctx) (target : FuncDesc) (G : List (Nat × Memo) → List ExecEv → Prop) : Prop where
  exec : ∀ f : FuncDesc, (f = target ∨ ∃ k, c.funcOf k = some f) → ∀ memo log n args, G memo log →
    G (if f.once then mapSet memo f.id { res := c.beh f.id n args, unwrapped := false } else memo)
      (log ++ [{ fid := f.id, nth := n, args := args, params := f.input.labels, res := c.beh f.id n args }])
  unwrap : ∀ k memo log, G memo log →
    G (memo.map (fun p => if p.1 = k then (p.1, { p.2 with unwrapped := true }) else p)) log

variable {c : Ctx} {target : FuncDesc} {G : List (Nat × Memo) → List ExecEv → Prop}

/-- `G` holds of a state -/
def On (G : List (Nat × Memo) → List ExecEv → Prop) (s : CallSt) : Prop := G s.memo s.log

theorem On.congr {s s' : CallSt} (hl : s'.log = s.log) (hm : s'.memo = s.memo) (h : On G s) : On G s' := by
  unfold On; rw [hl, hm]; exact h

theorem callDirect_on (hG : Closed c target G) (f : FuncDesc) (hf : f = target ∨ ∃ k, c.funcOf k = some f)
    (am : ArgMap) (s : CallSt) (h : On G s) : On G (callDirect c f am s).2 := by
  unfold callDirect
  split
  · exact h
  · split
    · exact h
    · rename_i args _
      have := hG.exec f hf s.memo s.log (countOf s f.id) args h
      unfold On
      dsimp only
      split
      · rename_i ho; simp only [ho, if_true] at this; exact this
      · rename_i ho; simp only [ho] at this; exact this

theorem outputValues_on (hG : Closed c target G) (f : FuncDesc) (r : BehOut) (u : Bool) (s s' : CallSt)
    (h : outputValues c f r u s = .ok s') (hs : On G s) : On G s' := by
  unfold outputValues at h
  split at h
  · cases h
  · simp only [Except.ok.injEq] at h
    subst h
    apply foldl_inv (P := fun (t : CallSt) => On G t)
    · intro t v ht
      split <;> (try split) <;> first | exact ht | exact On.congr (by simp) (by simp) ht
    · split
      · exact hG.unwrap f.id _ _ hs
      · exact hs

def RecOK (G : List (Nat × Memo) → List ExecEv → Prop) (rec : Vtx → CallSt → Except RErr ArgMap × CallSt) : Prop :=
  ∀ v s, On G s → On G (rec v s).2

theorem walkStep_on (hG : Closed c target G)
    (rec : Vtx → CallSt → Except RErr ArgMap × CallSt) (hrec : RecOK G rec)
    (w : WalkSt) (v : Vtx) (h : On G w.s) : On G (walkStep c rec w v).s := by
  cases herr : w.err with
  | some e => rw [walkStep_err c rec herr]; exact h
  | none =>
    cases v with
    | root => rw [walkStep_root c rec herr]; exact h
    | value n t u => rw [walkStep_value c rec herr]; exact On.congr (by simp) (by simp) h
    | arg t u => rw [walkStep_arg c rec herr]; exact On.congr (by simp) (by simp) h
    | out t u => rw [walkStep_out c rec herr]; exact On.congr (by simp) (by simp) h
    | func k =>
      cases hf : c.funcOf k with
      | none => rw [walkStep_func_none c rec herr k hf]; exact h
      | some f =>
        have hr := hrec (Vtx.func k) w.s h
        rcases hrs : rec (Vtx.func k) w.s with ⟨e | am, s1⟩
        · rw [walkStep_func_recErr c rec herr k hf hrs]
          rw [hrs] at hr
          exact hr
        · rw [hrs] at hr
          have hcd := callDirect_on hG f (Or.inr ⟨k, hf⟩) am s1 hr
          rcases hcs : callDirect c f am s1 with ⟨e | ⟨r, unw⟩, s2⟩
          · rw [walkStep_func_cdErr c rec herr k hf hrs hcs]
            rw [hcs] at hcd
            exact hcd
          · rw [hcs] at hcd
            cases hre : r.err with
            | some ε => rw [walkStep_func_funcErr c rec herr k hf hrs hcs hre]; exact hcd
            | none =>
              cases hov : outputValues c f r unw s2 with
              | error e => rw [walkStep_func_outErr c rec herr k hf hrs hcs hre hov]; exact hcd
              | ok s3 =>
                rw [walkStep_func_ok c rec herr k hf hrs hcs hre hov]
                exact outputValues_on hG f r unw s2 s3 hov hcd

theorem walkPaths_on (hG : Closed c target G)
    (rec : Vtx → CallSt → Except RErr ArgMap × CallSt) (hrec : RecOK G rec)
    (ps : List (List Vtx)) (am : ArgMap) (s : CallSt) (h : On G s) :
    On G (walkPaths c rec ps am s).2 := by
  induction ps generalizing am s with
  | nil => exact h
  | cons p rest ih =>
    unfold walkPaths
    have hw : On G (p.foldl (walkStep c rec) { s := s, final := none, prev := none, err := none }).s :=
      foldl_inv (P := fun w => On G w.s) _ (fun w v hw => walkStep_on hG rec hrec w v hw) p _ h
    generalize p.foldl (walkStep c rec) { s := s, final := none, prev := none, err := none } = w at hw
    dsimp only
    split
    · exact hw
    · split
      · exact ih _ _ hw
      · exact hw

theorem reach_on (hG : Closed c target G)
    (redefine : Bool) (fuel : Nat) (reaching : List Vtx) (tv : Vtx) (s : CallSt) (h : On G s) :
    On G (reach c redefine fuel reaching tv s).2 := by
  induction fuel generalizing reaching tv s with
  | zero =>
    unfold reach
    exact h
  | succ n ih =>
    unfold reach
    dsimp only
    have hs1 : On G (if c.skipRecordsInput then
        ((c.g.outs tv).filter (fun v => v == Vtx.root || takenAsIs c s v)).foldl CallSt.addInput s else s) := by
      split
      · exact On.congr (foldl_addInput_log _ _) (foldl_addInput_memo _ _) h
      · exact h
    generalize (if c.skipRecordsInput then
        ((c.g.outs tv).filter (fun v => v == Vtx.root || takenAsIs c s v)).foldl CallSt.addInput s else s) = s1 at hs1
    split
    · exact hs1
    · rename_i item orcRest _
      have hs2 : On G { s1 with orc := orcRest } := On.congr rfl rfl hs1
      split
      · exact hs2
      · split
        · exact hs2
        · split
          · exact hs2
          · split
            · exact hs2
            · split
              · exact hs2
              · have hp := plan_fold_log tv (tv :: reaching) c.trackReaching redefine
                  (item.missing.zip item.paths) { s := { s1 with orc := orcRest }, unsat := [] }
                have hs3 : On G ((item.missing.zip item.paths).foldl
                    (planOne tv (tv :: reaching) c.trackReaching redefine)
                    { s := { s1 with orc := orcRest }, unsat := [] }).s := On.congr hp.1 hp.2 hs2
                split
                · exact hs3
                · exact walkPaths_on hG _ (fun v st hst => ih _ v st hst) _ _ _ hs3

theorem callWith_closed (hG : Closed c target G) (cgr : CallGraphResult) (fuel : Nat) (s0 : CallSt)
    (h : On G s0) : On G (callWith c cgr target fuel s0).2 := by
  unfold callWith
  split
  · exact h
  · have hr := reach_on hG false fuel [] cgr.target s0 h
    rcases hres : reach c false fuel [] cgr.target s0 with ⟨e | am, s⟩
    · rw [hres] at hr
      cases e <;> exact hr
    · rw [hres] at hr
      dsimp only at hr ⊢
      have hcd := callDirect_on hG target (Or.inl rfl) am s hr
      rcases hcs : callDirect c target am s with ⟨e | ⟨r, unw⟩, s2⟩
      · rw [hcs] at hcd
        cases e <;> exact hcd
      · rw [hcs] at hcd
        dsimp only
        split <;> exact hcd

/-! ### where the cells come from -/

/-- every cell is one `P` allows, or holds the result of an execution of the log -/
def Src (P : Nat → BehOut → Prop) (memo : List (Nat × Memo)) (log : List ExecEv) : Prop :=
  ∀ p ∈ memo, P p.1 p.2.res ∨ ∃ ev ∈ log, ev.fid = p.1 ∧ ev.res = p.2.res

theorem mem_mapSet {κ β : Type} [DecidableEq κ] {m : List (κ × β)} {k : κ} {v : β} {p : κ × β}
    (h : p ∈ mapSet m k v) : p ∈ m ∨ p = (k, v) := by
  unfold mapSet at h
  rcases List.mem_append.1 h with h | h
  · exact Or.inl (List.mem_filter.1 h).1
  · exact Or.inr (List.mem_singleton.1 h)

theorem Src.append {P : Nat → BehOut → Prop} {memo : List (Nat × Memo)} {log : List ExecEv}
    (h : Src P memo log) (app : List ExecEv) : Src P memo (log ++ app) := by
  intro p hp
  rcases h p hp with h | ⟨ev, hev, h⟩
  · exact Or.inl h
  · exact Or.inr ⟨ev, List.mem_append_left _ hev, h⟩

theorem src_closed (c : Ctx) (target : FuncDesc) (P : Nat → BehOut → Prop) : Closed c target (Src P) := by
  constructor
  · intro f _ memo log n args h p hp
    split at hp
    · rcases mem_mapSet hp with hp | rfl
      · exact h.append _ p hp
      · exact Or.inr ⟨_, List.mem_append_right _ (List.mem_singleton.2 rfl), rfl, rfl⟩
    · exact h.append _ p hp
  · intro k memo log h p hp
    obtain ⟨q, hq, rfl⟩ := List.mem_map.1 hp
    have := h q hq
    split <;> exact this

/-- a call started with an empty log from cells that come from `L` ends with cells that come from `L` and
its own log -/
theorem histCall_src (c : Ctx) (cgr : CallGraphResult) (target : FuncDesc) (fuel : Nat) (h : HistState)
    (orc : List OrcItem) (L : List ExecEv) (hs : Src (fun _ _ => False) h.memo L) :
    Src (fun _ _ => False) (histCall c cgr target fuel h orc).2.memo
      (L ++ (histCall c cgr target fuel h orc).2.log) := by
  have h0 : On (Src (fun i r => ∃ ev ∈ L, ev.fid = i ∧ ev.res = r)) (h.start cgr.cg orc) := by
    intro p hp
    rcases hs p hp with h | ⟨ev, hev, h⟩
    · exact absurd h id
    · exact Or.inl ⟨ev, hev, h⟩
  have := callWith_closed (src_closed c target _) cgr fuel _ h0
  intro p hp
  rcases this p hp with ⟨ev, hev, h⟩ | ⟨ev, hev, h⟩
  · exact Or.inr ⟨ev, List.mem_append_left _ hev, h⟩
  · exact Or.inr ⟨ev, List.mem_append_right _ hev, h⟩

/-- the log of a list of observations (the definition `C01.histLog` of `Props/C01c.lean`) -/
def obsLog (obs : List HistObs) : List ExecEv :=
  obs.flatMap (fun o => match o with | .call _ l => l | .redef _ => [])

theorem runHist_src (fuel : Nat) (ops : List HistOp) (h : HistState) (L : List ExecEv)
    (hs : Src (fun _ _ => False) h.memo L) :
    Src (fun _ _ => False) (runHist fuel h ops).1.memo (L ++ obsLog (runHist fuel h ops).2) := by
  induction ops generalizing h L with
  | nil => simpa [runHist, obsLog] using hs
  | cons op rest ih =>
    cases op with
    | call c cgr t orc =>
      have h1 := histCall_src c cgr t fuel h orc L hs
      have := ih (HistState.after (histCall c cgr t fuel h orc).2) _ h1
      simpa [runHist, histStep, obsLog, List.append_assoc] using this
    | redefine c cgr t fo orc =>
      have := ih h L hs
      simpa [runHist, histStep, obsLog] using this

/-! ### how many ids a cell holds -/

/-- every cell holds exactly as many output ids as `objs` says the function object has output values -/
def LenOK (objs : Nat → Nat) (memo : List (Nat × Memo)) (_ : List ExecEv) : Prop :=
  ∀ p ∈ memo, p.2.res.outs.length = objs p.1

theorem lenOK_closed (c : Ctx) (target : FuncDesc) (objs : Nat → Nat)
    (hb : ∀ f : FuncDesc, (f = target ∨ ∃ k, c.funcOf k = some f) → ∀ n args,
      (c.beh f.id n args).outs.length = objs f.id) : Closed c target (LenOK objs) := by
  constructor
  · intro f hf memo log n args h p hp
    split at hp
    · rcases mem_mapSet hp with hp | rfl
      · exact h p hp
      · exact hb f hf n args
    · exact h p hp
  · intro k memo log h p hp
    obtain ⟨q, hq, rfl⟩ := List.mem_map.1 hp
    have := h q hq
    split <;> exact this

/-- every body run by a call with context `c` and target `t` returns `objs id` ids -/
def ExecLen (objs : Nat → Nat) (c : Ctx) (t : FuncDesc) : Prop :=
  ∀ f : FuncDesc, (f = t ∨ ∃ k, c.funcOf k = some f) → ∀ n args, (c.beh f.id n args).outs.length = objs f.id

def OpsLen (objs : Nat → Nat) (ops : List HistOp) : Prop :=
  ∀ op ∈ ops, match op with
    | .call c _ t _ => ExecLen objs c t
    | .redefine .. => True

theorem runHist_lenOK (objs : Nat → Nat) (fuel : Nat) (ops : List HistOp) (h : HistState)
    (hops : OpsLen objs ops) (h0 : LenOK objs h.memo []) :
    LenOK objs (runHist fuel h ops).1.memo [] := by
  induction ops generalizing h with
  | nil => exact h0
  | cons op rest ih =>
    have hrest : OpsLen objs rest := fun o ho => hops o (List.mem_cons_of_mem _ ho)
    have hop := hops op (List.mem_cons_self ..)
    cases op with
    | call c cgr t orc =>
      have h1 : LenOK objs (histCall c cgr t fuel h orc).2.memo [] :=
        callWith_closed (lenOK_closed c t objs hop) cgr fuel (h.start cgr.cg orc) h0
      exact ih (HistState.after (histCall c cgr t fuel h orc).2) hrest h1
    | redefine c cgr t fo orc => exact ih h hrest h0

end ArgMapper.NoFabMemo
