import ArgMapper.Proofs.CompleteAcyclic
import ArgMapper.Proofs.CompleteStatic
/-!
# The `Call` graph of a subtype-free, acyclic, satisfiable scenario satisfies `CompleteAcyclic.FactsA`
(helper lemmas for C05b, static part)

* `pre_conv_req_edge`: the requirement edges of every registered converter are in the graph before
  pruning; pruning keeps an edge whose two endpoints it keeps, so a surviving converter vertex whose
  parameter vertices all survived still has all of them as requirements (`FactsA.funcIn`);
* the remaining facts are those of `Complete.facts_std` (same proofs, no single-input hypothesis).
-/
set_option linter.unusedSectionVars false
set_option linter.unusedVariables false
namespace ArgMapper.CompleteAcyclic
open ArgMapper Generated Complete

/-! ### requirement edges of the converters -/

theorem hasEdge_add_edge_mono (c : CG) (a u v : Vtx) (w : Int) {x y : Vtx} (h : c.g.hasEdge x y = true) :
    ((c.add a).edge u v w).g.hasEdge x y = true := by
  refine ExactWins.hasEdge_addEdge_mono _ _ _ _ ?_
  show (c.g.add _).hasEdge _ _ = true
  rw [CGE.hasEdge_add]; exact h

theorem funcGraph_true_eq (c : CG) (f : FuncDesc) :
    funcGraph c f true =
      f.output.typed.foldl (fun c p =>
        (c.add (.out p.2.lab.ty p.2.lab.sub)).edge (.out p.2.lab.ty p.2.lab.sub) (Vtx.func f.key) weightTyped)
      (f.output.named.foldl (fun c p =>
        (c.add (.value p.1 p.2.lab.ty p.2.lab.sub)).edge (.value p.1 p.2.lab.ty p.2.lab.sub) (Vtx.func f.key) weightNormal)
        (funcGraph c f false)) := rfl

/-- the output part of `funcGraph` only adds edges -/
theorem funcGraph_out_mono (c : CG) (f : FuncDesc) {x y : Vtx} (h : (funcGraph c f false).g.hasEdge x y = true) :
    (funcGraph c f true).g.hasEdge x y = true := by
  rw [funcGraph_true_eq]
  apply CGE.foldl_inv' (fun c' : CG => c'.g.hasEdge x y = true)
  · intro c' p hc'
    exact hasEdge_add_edge_mono _ _ _ _ _ hc'
  · apply CGE.foldl_inv' (fun c' : CG => c'.g.hasEdge x y = true)
    · intro c' p hc'
      exact hasEdge_add_edge_mono _ _ _ _ _ hc'
    · exact h

/-- `funcGraph` without outputs only adds edges -/
theorem funcGraph_in_mono (c : CG) (f : FuncDesc) {x y : Vtx} (h : c.g.hasEdge x y = true) :
    (funcGraph c f false).g.hasEdge x y = true := by
  unfold funcGraph
  dsimp only
  rw [if_pos (by rfl)]
  apply CGE.foldl_inv' (fun c' : CG => c'.g.hasEdge x y = true)
  · intro c' val hc'
    split
    · exact hasEdge_add_edge_mono _ _ _ _ _ hc'
    · exact hasEdge_add_edge_mono _ _ _ _ _ hc'
  · have h1 : (c.add (Vtx.func f.key)).g.hasEdge x y = true := by
      show (c.g.add _).hasEdge _ _ = true
      rw [CGE.hasEdge_add]; exact h
    split
    · exact ExactWins.hasEdge_addEdge_mono _ _ _ _ h1
    · exact h1

theorem funcGraph_mono (c : CG) (f : FuncDesc) (io : Bool) {x y : Vtx} (h : c.g.hasEdge x y = true) :
    (funcGraph c f io).g.hasEdge x y = true := by
  cases io with
  | false => exact funcGraph_in_mono c f h
  | true => exact funcGraph_out_mono c f (funcGraph_in_mono c f h)

/-- `funcGraph` (with or without outputs) creates the requirement edges of the function -/
theorem funcGraph_req_edge (c : CG) (f : FuncDesc) (io : Bool) (v : SVal) (hv : v ∈ f.input.values) :
    (funcGraph c f io).g.hasEdge (.func f.key) v.lab.vertex = true := by
  cases io with
  | false => exact ExactWins.funcGraph_req_edge c f v hv
  | true => exact funcGraph_out_mono c f (ExactWins.funcGraph_req_edge c f v hv)

section
variable (e : TypeEnv) (b : Builder) (funcs : Nat → Option FuncDesc) (target : FuncDesc)

/-- the requirement edges of every registered converter are in the graph before pruning -/
theorem pre_conv_req_edge (f : FuncDesc) (hf : f ∈ b.convs.filterMap funcs) (v : SVal)
    (hv : v ∈ f.input.values) :
    (ExactWins.pre e b funcs target).g.hasEdge (.func f.key) v.lab.vertex = true := by
  obtain ⟨fid, hfid, hfun⟩ := List.mem_filterMap.1 hf
  refine (ExactWins.built_pre_c3 e b funcs target).hasEdge ?_
  unfold ExactWins.c3
  have := ExactWins.foldl_effect
    (fun (c : CG) (fid : Nat) => match funcs fid with
      | some f => funcGraph c f true
      | none => c)
    (fun (c : CG) (fid : Nat) => ∀ f, funcs fid = some f → ∀ v ∈ f.input.values,
      c.g.hasEdge (.func f.key) v.lab.vertex = true)
    (by
      intro c x f hx v hv
      simp only [hx]
      exact funcGraph_req_edge c f true v hv)
    (by
      intro c x y hP f hx v hv
      split
      · exact funcGraph_mono _ _ _ (hP f hx v hv)
      · exact hP f hx v hv)
    b.convs (ExactWins.c2 b target) fid hfid
  exact this f hfun v hv

end

/-! ### the hypotheses of C05b and what they give -/

/-- the hypotheses of `C05.complete_acyclic` about the scenario (those of `Complete.Hyps` without the
single-input condition and without the condition on the target's key) -/
structure HypsA (e : TypeEnv) (b : Builder) (funcs : Nat → Option FuncDesc) (target : FuncDesc) : Prop where
  cons : C01.FuncsConsistent (C01.allFuncs b funcs target)
  nsub : b.namedSub = []
  tsub : b.typedSub = []
  labs : ∀ f ∈ C01.allFuncs b funcs target, (∀ l ∈ f.input.labels, l.sub = "") ∧ (∀ l ∈ f.output.labels, l.sub = "")
  tkeys : ∀ p ∈ b.typed, p.1 = p.2.ty
  wf : ∀ f ∈ b.convs.filterMap funcs,
    (f.output.named.map (·.1)).Nodup ∧ (f.input.hasStruct = false → f.input.values = [])

section
variable {e : TypeEnv} {b : Builder} {funcs : Nat → Option FuncDesc} {target : FuncDesc}

theorem facts_std (H : HypsA e b funcs target) (ht : ImplTrans e) (beh : Nat → Nat → List PVal → BehOut)
    (N : Prop) (hN : N → ∀ f n a, (beh f n a).err = none)
    (hsat : (callGraph {} e b funcs target false none).unsat = [])
    (rank : Vtx → Nat)
    (hacyc : ∀ x y, (callGraph {} e b funcs target false none).cg.g.hasEdge x y = true → rank y < rank x)
    (hall : ∀ f ∈ b.convs.filterMap funcs, Vtx.func f.key ∈ (callGraph {} e b funcs target false none).cg.g.verts →
      ∀ v ∈ f.input.values, v.lab.vertex ∈ (callGraph {} e b funcs target false none).cg.g.verts) :
    FactsA (C01.stdCtx e b funcs target beh) N (fun x => x ∈ ExactWins.inputVerts b) rank := by
  have hg : (C01.stdCtx e b funcs target beh).g = (ExactWins.fin e b funcs target).g :=
    ExactWins.stdCtx_g e b funcs target beh
  have hcg : (callGraph {} e b funcs target false none).cg.g = (ExactWins.fin e b funcs target).g := by
    rw [ExactWins.callGraph_cg]; rfl
  have hfo : ∀ k, (C01.stdCtx e b funcs target beh).funcOf k =
      (C01.allFuncs b funcs target).find? (fun f => f.key == k) := fun _ => rfl
  have hwf := ExactWins.fin_wf e b funcs target
  have hrule := ExactWins.fin_rule e b funcs target
  -- edges of the pruned graph are edges of `Prune.pre`
  have hpre : ∀ x y, (ExactWins.fin e b funcs target).g.hasEdge x y = true →
      (Prune.pre e b funcs target).g.hasEdge x y = true := by
    intro x y h
    rw [← hcg, callGraph_cg_prune] at h
    exact hasEdge_prune (Prune.pre e b funcs target) (.func target.key) x y h
  have hgin := CGF.ginv_callGraph {} e b funcs target none
  -- the function object of a vertex has the inputs / outputs of every function with that key
  have hsame : ∀ k f0, (C01.allFuncs b funcs target).find? (fun f => f.key == k) = some f0 →
      f0 ∈ C01.allFuncs b funcs target ∧ f0.key = k ∧
      ∀ f ∈ C01.allFuncs b funcs target, f.key = k → f0.input = f.input ∧ f0.output = f.output := by
    intro k f0 h
    have hm := List.mem_of_find?_eq_some h
    have hk : f0.key = k := by simpa using List.find?_some h
    exact ⟨hm, hk, fun f hf hfk => H.cons.1 f0 hm f hf (hk.trans hfk.symm)⟩
  refine
    { hN := hN, pub := rfl, tvn := rfl, mc := rfl, tr := rfl, sri := rfl, auto := rfl, trans := ht,
      edgeOK := ?_,
      valSub := ?_, toRoot := ?_, supKind := fun x hx => ExactWins.inputVerts_kind hx,
      funcReq := ?_, funcKey := ?_, funcIn := ?_, outTyped := ?_, wf := ?_, acyc := ?_ }
  · -- edgeOK
    have := C01.callGraph_edges e b funcs target false none
    simp only [C01.stdCtx]
    exact this
  · -- valSub
    intro x n t s he
    rw [hg] at he
    have hmem := (Prune.hasEdge_mem_verts _ hwf _ _ he).2
    have hvk := callGraph_noSubV e b funcs target H.nsub (by
      intro f hf
      refine ⟨(H.labs f hf).1, fun p hp => ?_⟩
      exact (H.labs f hf).2 _ (List.mem_map.2 ⟨p.2, ((H.cons.2 f hf).2.1 p hp).1, rfl⟩))
    have : Vtx.value n t s ∈ (callGraph {} e b funcs target false none).cg.g.verts := by rw [hcg]; exact hmem
    exact hvk _ this rfl
  · -- toRoot
    intro x he
    rw [hg] at he
    obtain ⟨w, hw⟩ := (ExactWins.hasEdge_iff_weight _ _ _).1 he
    rcases (ExactWins.rule_to_root (hrule _ _ _ hw)).2 with ⟨k, rfl⟩ | h
    · exact Or.inl rfl
    · exact Or.inr h
  · -- funcReq
    intro k y he
    rw [hg] at he
    obtain ⟨w, hw⟩ := (ExactWins.hasEdge_iff_weight _ _ _).1 he
    rcases ExactWins.rule_from_func (hrule _ _ _ hw) with ⟨rfl, _⟩ | ⟨f, hf, hk, v, hv, hyv, _⟩
    · obtain ⟨f, hf, hk, _⟩ := pre_func_root e b funcs target k (hpre _ _ he)
      obtain ⟨f0, h0, _, _⟩ := find_key hf hk
      exact ⟨f0, by rw [hfo]; exact h0, Or.inl rfl⟩
    · obtain ⟨f0, h0, _, _⟩ := find_key hf hk
      refine ⟨f0, by rw [hfo]; exact h0, Or.inr ⟨v, ?_, hyv⟩⟩
      rw [((hsame k f0 h0).2.2 f hf hk).1]
      exact hv
  · -- funcKey
    intro k f h
    rw [hfo] at h
    exact (hsame k f h).2.1
  · -- funcIn
    intro k f0 h hkv v hv
    rw [hfo] at h
    obtain ⟨hm0, hk0, _⟩ := hsame k f0 h
    rcases List.mem_cons.1 hm0 with rfl | hconv
    · rw [← hk0]
      exact params_kept hsat beh v hv
    · rw [hg] at hkv ⊢
      rw [ExactWins.mem_outs_iff_hasEdge]
      have hv1 : Vtx.func f0.key ∈ (ExactWins.fin e b funcs target).g.verts := by rw [hk0]; exact hkv
      have hv2 : v.lab.vertex ∈ (ExactWins.fin e b funcs target).g.verts := by
        rw [← hcg]
        exact hall f0 hconv (by rw [hcg]; exact hv1) v hv
      unfold ExactWins.fin at hv1 hv2
      rw [ExactWins.prune_verts] at hv1 hv2
      rw [← hk0]
      exact ExactWins.fin_hasEdge_of_kept e b funcs target (pre_conv_req_edge e b funcs target f0 hconv v hv)
        hv1.2 hv2.2
  · -- outTyped
    intro k f0 h v hv
    rw [hfo] at h
    obtain ⟨hm0, hk0, hs0⟩ := hsame k f0 h
    rw [hg, ← hcg] at hv
    obtain ⟨f, hf, hfk, hcase⟩ := hgin v (.func k) (CGF.hasEdge_of_mem_ins _ _ _ hv)
    have hfa : f ∈ C01.allFuncs b funcs target := List.mem_cons_of_mem _ hf
    have hout : f0.output = f.output := (hs0 f hfa hfk).2
    rcases hcase with ⟨p, hp, rfl⟩ | ⟨p, hp, rfl⟩
    · refine ⟨?_, fun t s h => (by cases h), Or.inl rfl⟩
      intro n t s hv
      injection hv with hn ht _
      refine ⟨p.2, ?_, ht⟩
      rw [hout, ← hn]
      exact mapGet_of_nodup (H.wf f hf).1 hp
    · refine ⟨fun n t s h => (by cases h), ?_, Or.inr rfl⟩
      intro t s hv
      injection hv with ht _
      have hkey := ((H.cons.2 f hfa).2.2 p hp).2.1
      have hsome := CGF.mapGet_isSome_of_mem _ _ hp
      obtain ⟨sv, hsv⟩ := Option.isSome_iff_exists.1 hsome
      refine ⟨sv, by rw [hout, ← ht, ← hkey]; exact hsv, ?_⟩
      have := ((H.cons.2 f hfa).2.2 _ (ExactWins.mem_of_mapGet' hsv)).2.1
      rw [← this, hkey, ht]
  · -- wf
    rw [hg]; exact hwf
  · -- acyc
    intro x y h
    rw [hg, ← hcg] at h
    exact hacyc x y h

theorem initSt_sinv (H : HypsA e b funcs target) (beh : Nat → Nat → List PVal → BehOut) (N : Prop)
    (memo : List (Nat × Memo)) (hmemo : N → ∀ p ∈ memo, p.2.res.err = none) (orc : List OrcItem) :
    SInv (C01.stdCtx e b funcs target beh) N (fun x => x ∈ ExactWins.inputVerts b)
      (initSt (callGraph {} e b funcs target false none).cg memo orc) := by
  have hb : ExactWins.TypedOK b :=
    ⟨fun p hp => (H.tkeys p hp).symm, fun p hp => by rw [H.tsub] at hp; cases hp⟩
  have hstore : (callGraph {} e b funcs target false none).cg.store =
      (inputsGraph (ExactWins.c1 target) b).1.store := by
    rw [ExactWins.callGraph_cg]
    exact ExactWins.fin_store e b funcs target
  refine ⟨?_, ?_, hmemo⟩
  · intro x v hv
    rw [ExactWins.initSt_get, hstore] at hv
    cases hm : mapGet (inputsGraph (ExactWins.c1 target) b).1.store x with
    | none => rw [hm] at hv; cases hv
    | some val =>
      rw [hm] at hv
      simp only [Option.map_some, Option.some.injEq] at hv
      subst hv
      have hx : x ∈ ExactWins.inputVerts b := by
        have := Refused.callGraph_store_inputs e b funcs target (x, val)
          (by rw [hstore]; exact ExactWins.mem_of_mapGet' hm)
        exact this
      obtain ⟨val', h1, h2⟩ := ExactWins.store_inputVerts (ExactWins.c1 target) b hb x hx
      rw [hm] at h1
      cases h1
      show e.assignable val.ty x.ty = true
      rw [h2]
      exact assignable_refl _ _
  · intro x hx
    obtain ⟨val', h1, _⟩ := ExactWins.store_inputVerts (ExactWins.c1 target) b hb x hx
    rw [ExactWins.initSt_get, hstore, h1]
    rfl

theorem measure_nil_le (g : AGraph Vtx) :
    Termination.measure g [] ≤ (g.verts.filter Vtx.isFunc).length := by
  unfold Termination.measure
  exact List.length_filter_le _ _

theorem stdCtx_g_eq (beh : Nat → Nat → List PVal → BehOut) :
    (C01.stdCtx e b funcs target beh).g = (callGraph {} e b funcs target false none).cg.g := by
  rw [ExactWins.stdCtx_g, ExactWins.callGraph_cg]
  rfl

/-- the core of C05b: the call ends in success, in an error a function body reported (only if some body
may report one: `¬ N`), or the oracle did not fit -/
theorem complete_core (H : HypsA e b funcs target) (ht : ImplTrans e)
    (hsat : (callGraph {} e b funcs target false none).unsat = [])
    (rank : Vtx → Nat)
    (hacyc : ∀ x y, (callGraph {} e b funcs target false none).cg.g.hasEdge x y = true → rank y < rank x)
    (hall : ∀ f ∈ b.convs.filterMap funcs, Vtx.func f.key ∈ (callGraph {} e b funcs target false none).cg.g.verts →
      ∀ v ∈ f.input.values, v.lab.vertex ∈ (callGraph {} e b funcs target false none).cg.g.verts)
    (beh : Nat → Nat → List PVal → BehOut) (N : Prop) (hN : N → ∀ f n a, (beh f n a).err = none)
    (fuel : Nat)
    (hfuel : ((callGraph {} e b funcs target false none).cg.g.verts.filter Vtx.isFunc).length + 1 ≤ fuel)
    (memo : List (Nat × Memo))
    (hmemo : N → ∀ p ∈ memo, p.2.res.err = none) (orc : List OrcItem) :
    let r := callWith (C01.stdCtx e b funcs target beh) (callGraph {} e b funcs target false none) target fuel
              (initSt (callGraph {} e b funcs target false none).cg memo orc)
    (∃ res, r.1 = .ok res) ∨ ((∃ ε, r.1 = .convErr ε) ∧ ¬ N) ∨ ((∃ ε res, r.1 = .targetErr ε res) ∧ ¬ N) ∨
      (∃ w, r.1 = .badOracle w) := by
  obtain ⟨m, rfl⟩ : ∃ m, fuel = m + 1 := ⟨fuel - 1, by omega⟩
  refine callWith_complete (facts_std H ht beh N hN hsat rank hacyc hall)
    (callGraph {} e b funcs target false none) target
    (ExactWins.callGraph_target e b funcs target) hsat (params_kept hsat beh) m ?_ _
    (initSt_sinv H beh N memo hmemo orc)
  rw [stdCtx_g_eq]
  exact Nat.le_trans (measure_nil_le _) (by omega)

end

end ArgMapper.CompleteAcyclic
