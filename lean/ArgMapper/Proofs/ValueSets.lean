import ArgMapper.Proofs.Sig
/-!
# Helper lemmas for C15: `NewValueSet` in closed form, lookups, signature round trips
-/
namespace ArgMapper

/-! ### generic list facts -/

theorem mem_mapIdx_iff {α γ : Type} {l : List α} {f : Nat → α → γ} {b : γ} :
    b ∈ l.mapIdx f ↔ ∃ j a, l[j]? = some a ∧ b = f j a := by
  rw [List.mem_iff_getElem?]
  constructor
  · rintro ⟨j, hj⟩
    rw [List.getElem?_mapIdx] at hj
    cases h : l[j]? with
    | none => simp [h] at hj
    | some a => simp [h] at hj; exact ⟨j, a, h, hj.symm⟩
  · rintro ⟨j, a, hj, rfl⟩
    exact ⟨j, by simp [List.getElem?_mapIdx, hj]⟩

/-- `find?` on an indexed map when exactly one position satisfies the predicate -/
theorem find?_mapIdx_unique {α γ : Type} (l : List α) (f : Nat → α → γ) (p : γ → Bool) (i : Nat) (a : α)
    (hi : l[i]? = some a) (hp : p (f i a) = true)
    (hu : ∀ j a', l[j]? = some a' → p (f j a') = true → j = i) :
    (l.mapIdx f).find? p = some (f i a) := by
  cases hf : (l.mapIdx f).find? p with
  | none =>
    rw [List.find?_eq_none] at hf
    exact absurd hp (hf _ (mem_mapIdx_iff.mpr ⟨i, a, hi, rfl⟩))
  | some u =>
    have h1 := List.find?_some hf
    obtain ⟨j, a', hj, rfl⟩ := mem_mapIdx_iff.mp (List.mem_of_find?_eq_some hf)
    have := hu j a' hj h1
    subst this
    rw [hi] at hj
    cases hj
    rfl

/-! ### `NewValueSet` -/

def rtLabel (l : Label) : Label := { l with name := lower l.name }
def rtVal (j : Nat) (l : Label) : SVal := { lab := rtLabel l, index := j + 1 }

theorem keep_valueField (i : Nat) (l : Label) : keep (valueField i l) = true := by
  simp [keep, valueField]

theorem newValueSetOfValues_eq (vs : List Label)
    (ht : ∀ i l, vs[i]? = some l → fieldLabel (valueField i l) = { l with name := lower l.name }) :
    newValueSetOfValues vs = .ok
      { hasStruct := true, ptrs := 0, values := vs.mapIdx rtVal,
        named := (vs.mapIdx rtVal).foldl namedStep [],
        typed := (vs.mapIdx rtVal).foldl typedStep [], lifted := false } := by
  unfold newValueSetOfValues
  rw [newValueSetFromStruct_eq 0 (by omega)]
  have hm : structVals 0 (markerField :: List.zipWith valueField (List.range vs.length) vs) =
      structVals 1 (List.zipWith valueField (List.range vs.length) vs) := by
    simp [structVals, keep, markerField]
  have hk : ∀ f ∈ List.zipWith valueField (List.range vs.length) vs, keep f = true := by
    intro f hf
    obtain ⟨j, hj⟩ := List.getElem?_of_mem hf
    rw [getElem?_zipWith_range] at hj
    cases h : vs[j]? with
    | none => simp [h] at hj
    | some l => simp [h] at hj; rw [← hj]; exact keep_valueField j l
  have hv : structVals 1 (List.zipWith valueField (List.range vs.length) vs) = vs.mapIdx rtVal := by
    apply list_eq_map_of_getElem?
    intro j
    rw [structVals_all_keep _ hk, getElem?_zipWith_range]
    cases h : vs[j]? with
    | none => rfl
    | some l => simp [ht j l h, rtVal, rtLabel, Nat.add_comm]
  rw [hm, hv]

theorem rtVal_labels (vs : List Label) :
    (vs.mapIdx rtVal).map (·.lab) = vs.map (fun l => { l with name := lower l.name }) := by
  apply List.ext_getElem?
  intro j
  simp only [List.getElem?_map, List.getElem?_mapIdx]
  cases vs[j]? <;> rfl

theorem rtVal_indices (vs : List Label) :
    (vs.mapIdx rtVal).map (·.index) = (List.range vs.length).map (· + 1) := by
  apply List.ext_getElem?
  intro j
  simp only [List.getElem?_map, List.getElem?_mapIdx]
  by_cases h : j < vs.length
  · simp [List.getElem?_range h, List.getElem?_eq_getElem h, rtVal]
  · have : vs[j]? = none := List.getElem?_eq_none (by omega)
    simp [this, List.getElem?_eq_none (show (List.range vs.length).length ≤ j by simp; omega)]

/-! ### lookups -/

theorem named_lookup_rt (vs : List Label) (i : Nat) (l : Label) (hi : vs[i]? = some l)
    (hlow : lower l.name ≠ "")
    (huniq : ∀ j l', vs[j]? = some l' → lower l'.name = lower l.name → j = i) :
    (mapGet ((vs.mapIdx rtVal).foldl namedStep []) (lower l.name)).map (·.lab) = some (rtLabel l) := by
  rw [mapGet_foldl_namedStep, mapGet_nil, Option.or_none]
  have hmem : (lower l.name, rtVal i l) ∈ (vs.mapIdx rtVal).flatMap namedW := by
    rw [List.mem_flatMap]
    refine ⟨rtVal i l, mem_mapIdx_iff.mpr ⟨i, l, hi, rfl⟩, ?_⟩
    simp [namedW, rtVal, rtLabel, hlow]
  obtain ⟨v', hv'⟩ := lastW_isSome_of_mem hmem
  rw [hv']
  have := lastW_mem hv'
  rw [List.mem_flatMap] at this
  obtain ⟨u, hu, huw⟩ := this
  obtain ⟨j, l', hj, rfl⟩ := mem_mapIdx_iff.mp hu
  unfold namedW at huw
  split at huw
  · simp only [List.mem_singleton, Prod.mk.injEq] at huw
    obtain ⟨h1, h2⟩ := huw
    have hji := huniq j l' hj (by simpa [rtVal, rtLabel] using h1.symm)
    subst hji
    rw [hi] at hj
    cases hj
    simp [h2, rtVal]
  · simp at huw

theorem lower_empty : lower "" = "" := lower_eq_empty.mpr rfl

theorem typed_lookup_rt (vs : List Label) (i : Nat) (l : Label) (hi : vs[i]? = some l) (hn : l.name = "")
    (huniq : ∀ j l', vs[j]? = some l' → l'.name = "" → l'.ty = l.ty → j = i) :
    (mapGet ((vs.mapIdx rtVal).foldl typedStep []) l.ty).map (·.lab) = some l := by
  have hl : rtLabel l = l := by
    cases l with
    | mk n t s => simp only at hn; subst hn; simp [rtLabel, lower_empty]
  rw [mapGet_foldl_typedStep, mapGet_nil, Option.or_none]
  have hmem : (l.ty, rtVal i l) ∈ (vs.mapIdx rtVal).flatMap typedW := by
    rw [List.mem_flatMap]
    refine ⟨rtVal i l, mem_mapIdx_iff.mpr ⟨i, l, hi, rfl⟩, ?_⟩
    simp [typedW, rtVal, hl, hn]
  obtain ⟨v', hv'⟩ := lastW_isSome_of_mem hmem
  rw [hv']
  have := lastW_mem hv'
  rw [List.mem_flatMap] at this
  obtain ⟨u, hu, huw⟩ := this
  obtain ⟨j, l', hj, rfl⟩ := mem_mapIdx_iff.mp hu
  unfold typedW at huw
  split at huw
  · simp at huw
  · next hne =>
    simp only [List.mem_singleton, Prod.mk.injEq] at huw
    obtain ⟨h1, h2⟩ := huw
    have hn' : l'.name = "" := by
      have : lower l'.name = "" := by simpa [rtVal, rtLabel] using hne
      exact lower_eq_empty.mp this
    have hji := huniq j l' hj hn' (by simpa [rtVal, rtLabel] using h1.symm)
    subst hji
    rw [hi] at hj
    cases hj
    simp [h2, rtVal, hl]

theorem typedSub_lookup_rt (vs : List Label) (i : Nat) (l : Label) (hi : vs[i]? = some l)
    (huniq : ∀ j l', vs[j]? = some l' → l'.ty = l.ty → l'.sub = l.sub → j = i) :
    ((vs.mapIdx rtVal).find? (fun v => v.lab.ty == l.ty && v.lab.sub == l.sub)).map (·.lab) =
      some (rtLabel l) := by
  rw [find?_mapIdx_unique vs rtVal _ i l hi (by simp [rtVal, rtLabel])]
  · rfl
  · intro j l' hj hp
    simp [rtVal, rtLabel] at hp
    exact huniq j l' hj hp.1 hp.2

/-! ### signature round trips -/

theorem roundTrip_eq (xs : List SVal) (hnd : (xs.map (·.index)).Nodup)
    (vals : List (Option Nat)) (hl : vals.length = xs.length) :
    xs.map (fun v => (mapGet ((xs.zip vals).map (fun p => (p.1.index, p.2))) v.index).getD none) = vals := by
  have hkeys : ((xs.zip vals).map (fun p => (p.1.index, p.2))).map (·.1) = xs.map (·.index) := by
    rw [List.map_map]
    have : ((fun x : Nat × Option Nat => x.1) ∘ fun p : SVal × Option Nat => (p.1.index, p.2)) =
        (fun v : SVal => v.index) ∘ Prod.fst := by funext p; rfl
    rw [this, ← List.map_map, List.map_fst_zip (by omega)]
  apply List.ext_getElem?
  intro j
  rw [List.getElem?_map]
  by_cases h : j < xs.length
  · have hj : j < vals.length := by omega
    have hget : ((xs.zip vals).map (fun p => (p.1.index, p.2)))[j]? = some (xs[j].index, vals[j]) := by
      have hz : (xs.zip vals)[j]? = some (xs[j], vals[j]) :=
        List.getElem?_zip_eq_some.mpr ⟨List.getElem?_eq_getElem h, List.getElem?_eq_getElem hj⟩
      simp [List.getElem?_map, hz]
    have := mapGet_of_getElem? _ (hkeys ▸ hnd) j _ _ hget
    simp [List.getElem?_eq_getElem h, List.getElem?_eq_getElem hj, this]
  · rw [List.getElem?_eq_none (by omega), List.getElem?_eq_none (by omega)]
    rfl

theorem signature_lifted (tys : List Nat) (s : ValueSet)
    (hl : s.lifted = true) (ht : s.typed = tys.mapIdx (fun j t => (t, liftedVal j t))) (structTy : Nat) :
    s.signatureByTypeMap structTy = some tys := by
  unfold ValueSet.signatureByTypeMap
  have hall : s.typed.all (fun p => decide (p.2.index < s.typed.length)) = true := by
    rw [List.all_eq_true]
    intro p hp
    rw [ht] at hp ⊢
    obtain ⟨j, t, hj, rfl⟩ := mem_mapIdx_iff.mp hp
    have : j < tys.length := (List.getElem?_eq_some_iff.mp hj).1
    simp [liftedVal, this]
  simp only [hl, Bool.not_true, Bool.false_eq_true, if_false, hall, if_true]
  congr 1
  apply List.ext_getElem?
  intro i
  rw [List.getElem?_map, ht, List.length_mapIdx]
  by_cases h : i < tys.length
  · have hi : tys[i]? = some tys[i] := List.getElem?_eq_getElem h
    rw [List.getElem?_range h]
    simp only [Option.map_some]
    rw [find?_mapIdx_unique tys _ _ i tys[i] hi (by simp [liftedVal])]
    · simp [liftedVal]
    · intro j a' _ hp
      simpa [liftedVal] using hp
  · rw [List.getElem?_eq_none (by simp; omega), List.getElem?_eq_none (by omega)]
    rfl

end ArgMapper
