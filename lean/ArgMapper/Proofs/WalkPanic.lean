import ArgMapper.Proofs.Complete
/-!
# The last modelled panic sites of `reachTarget` (helper lemmas for C06b, dynamic part)

For a context `c` whose graph satisfies `Facts` (the shape of every `Call` graph, full label language) the
walk maintains

* (V) type soundness of the store and (S) "supplied vertices hold a value" (`Complete.SInv`);
* (P) progress (`PrevP`): an out vertex just processed holds a value; a value vertex just processed has
  set `final`, and holds a value unless it was entered by an R6 hop `value n t s → value n t ""` that copies
  nothing (`c.hopCopies = false`, before the repair of finding F22); an argument vertex just processed holds a
  value unless it follows such a hop.  With `c.hopCopies = true` every value / argument vertex just processed
  holds a value.

Hence `reflect.Value.Set` never sees a non-assignable value (every oracle), and "didn't reach a final
value" can only happen for a path that ends `…, value, value, arg` — which a shortest path never does
(`PathGood`, established from the legality of the oracle in `WalkPanicStatic.lean`).  The guard of
`callDirect` (`missingArg`) is unreachable when every requirement of an executed function is still a
requirement of its vertex in the pruned graph (`Facts.reqs`, under the proposition `K`).
-/
set_option linter.unusedSectionVars false
set_option linter.unusedVariables false
namespace ArgMapper.WalkPanic
open ArgMapper WalkEqs ReachSound Complete

/-- the three outcomes the property excludes (`missingArg` only under `K`) -/
def Bad (K : Prop) (e : RErr) : Prop :=
  e = .panic .finalValue ∨ e = .panic .setNotAssignable ∨ (K ∧ e = .missingArg)

/-- the path does not end `…, value, value, arg` (an R6 hop followed by a typed argument) -/
def PathGood (p : List Vtx) : Prop :=
  ∀ pre a b c, p = pre ++ [a, b, c] → a.isValue = true → b.isValue = true → c.isArg = true → False

/-- every usable path of the oracle item is good -/
def ItemOK (g : AGraph Vtx) (it : OrcItem) : Prop :=
  ∀ (i : Nat) (cur : Vtx) (path : List Vtx), it.missing[i]? = some cur → it.paths[i]? = some path → validPath g cur path = true →
    PathGood path

/-- what the dynamic part needs to know about the context -/
structure Facts (c : Ctx) (K : Prop) (Sup : Vtx → Prop) : Prop where
  pub : c.publishAfterUpdate = true
  mc : c.memoCopy = true
  auto : c.auto = false
  sri : c.skipRecordsInput = false
  trans : ImplTrans c.env
  edgeOK : EdgeOK c.env c.g
  toRoot : ∀ x, c.g.hasEdge x .root = true → x.isFunc = true ∨ Sup x
  supKind : ∀ x, Sup x → x.isValue = true ∨ x.isOut = true
  funcKey : ∀ k f, c.funcOf k = some f → f.key = k
  outTyped : ∀ k f, c.funcOf k = some f → OutTyped f (c.g.ins (.func k))
  /-- under `K`: a function vertex that has an out-edge at all has every parameter as a requirement -/
  reqs : K → ∀ k f, c.funcOf k = some f → (∃ u, c.g.hasEdge (.func k) u = true) →
    ∀ v ∈ f.input.values, v.lab.vertex ∈ c.g.outs (.func k)

/-- state invariant: (V), (S) and "every remaining oracle item is good" — the latter is needed only while an R6
hop copies nothing (`c.hopCopies = false`, before the repair of finding F22) -/
structure PInv (c : Ctx) (Sup : Vtx → Prop) (s : CallSt) : Prop where
  sinv : SInv c False Sup s
  orc : ∀ it ∈ s.orc, c.hopCopies = true ∨ ItemOK c.g it

variable {c : Ctx} {K : Prop} {Sup : Vtx → Prop}

theorem sinv_of_store {s s' : CallSt} (h : SInv c False Sup s) (hs : s'.store = s.store) : SInv c False Sup s' := by
  refine ⟨?_, ?_, fun hf => hf.elim⟩
  · intro x v hv
    unfold CallSt.get at hv
    rw [hs] at hv
    exact h.typed x v hv
  · intro x hx
    have := h.sup x hx
    unfold CallSt.get at this ⊢
    rw [hs]; exact this

theorem PInv.congr {s s' : CallSt} (h : PInv c Sup s) (hs : s'.store = s.store) (ho : s'.orc = s.orc) :
    PInv c Sup s' :=
  ⟨sinv_of_store h.sinv hs, by rw [ho]; exact h.orc⟩

theorem PInv.set {s : CallSt} (h : PInv c Sup s) (v : Vtx) (a : PVal)
    (ha : c.env.assignable a.ty v.ty = true) : PInv c Sup (s.set v (some a)) :=
  ⟨h.sinv.set v a ha, by rw [set_orc]; exact h.orc⟩

theorem not_bad_of_ne {e : RErr} (h1 : e ≠ .panic .finalValue) (h2 : e ≠ .panic .setNotAssignable)
    (h3 : e ≠ .missingArg) : ¬ Bad K e := by
  rintro (h | h | ⟨_, h⟩)
  · exact h1 h
  · exact h2 h
  · exact h3 h

/-! ### inversion of the edge rules -/

theorem rule_value_value' {e : TypeEnv} {n : String} {t : Nat} {x : String} {n' : String} {t' : Nat} {x' : String}
    (h : EdgeRule e (.value n t x) (.value n' t' x')) : n' = n ∧ t' = t ∧ x = "" ∧ x' ≠ "" := by
  cases h with
  | valueValue _ _ _ hs => exact ⟨rfl, rfl, rfl, hs⟩

theorem rule_arg_value' {e : TypeEnv} {t : Nat} {x : String} {n' : String} {t' : Nat} {x' : String}
    (h : EdgeRule e (.arg t x) (.value n' t' x')) : t' = t ∧ (x = "" ∨ x = x') := by
  cases h with
  | argValue _ _ _ _ hs => exact ⟨rfl, hs⟩

/-! ### callDirect -/

theorem not_bad_of_missing {e : RErr} (h : e = .missingArg ∧ ¬ K) : ¬ Bad K e := by
  obtain ⟨rfl, hk⟩ := h
  rintro (h' | h' | ⟨hk', _⟩)
  · cases h'
  · cases h'
  · exact hk hk'

/-- with a typed argument map the only error of `gatherArgs` is `missingArg`, and only without `K` -/
theorem gStep_fold_err (e : TypeEnv) (am : ArgMap)
    (ham : ∀ x a, mapGet am x = some a → e.assignable a.ty x.ty = true) :
    ∀ (vals : List SVal) (acc : Except RErr (List PVal)),
      (K → ∀ v ∈ vals, (mapGet am v.lab.vertex).isSome = true) →
      (∀ x, acc = .error x → x = .missingArg ∧ ¬ K) →
      ∀ x, vals.foldl (gStep e am) acc = .error x → x = .missingArg ∧ ¬ K := by
  intro vals
  induction vals with
  | nil => intro acc _ hacc x h; exact hacc x h
  | cons v vs ih =>
    intro acc hK hacc x h
    rw [List.foldl_cons] at h
    refine ih _ (fun hk v' hv' => hK hk v' (List.mem_cons_of_mem _ hv')) ?_ x h
    intro y hy
    cases acc with
    | error z =>
      have : gStep e am (.error z) v = .error z := rfl
      rw [this] at hy
      cases hy
      exact hacc _ rfl
    | ok l =>
      cases hm : mapGet am v.lab.vertex with
      | none =>
        have : gStep e am (.ok l) v = .error .missingArg := by simp [gStep, hm]
        rw [this] at hy
        cases hy
        refine ⟨rfl, fun hk => ?_⟩
        have := hK hk v List.mem_cons_self
        rw [hm] at this; cases this
      | some a =>
        have hass : e.assignable a.ty v.lab.ty = true := by
          have := ham _ _ hm
          rw [vertex_ty] at this
          exact this
        have : gStep e am (.ok l) v = .ok (l ++ [{ ty := v.lab.ty, id := a.id, org := a.org }]) := by
          simp [gStep, hm, hass]
        rw [this] at hy
        cases hy

theorem gatherArgs_err (e : TypeEnv) (f : FuncDesc) (am : ArgMap)
    (ham : ∀ x a, mapGet am x = some a → e.assignable a.ty x.ty = true)
    (hK : K → ∀ v ∈ f.input.values, (mapGet am v.lab.vertex).isSome = true) :
    ∀ x, gatherArgs e f am = .error x → x = .missingArg ∧ ¬ K := by
  intro x h
  rw [gatherArgs_eq] at h
  exact gStep_fold_err e am ham _ _ hK (fun _ h => by cases h) x h

theorem callDirect_spec (f : FuncDesc) (am : ArgMap) (s : CallSt) (ham : AmOK c am)
    (hK : K → ∀ v ∈ f.input.values, (mapGet am v.lab.vertex).isSome = true) :
    (∀ x s', callDirect c f am s = (.error x, s') → x = .missingArg ∧ ¬ K) ∧
    (callDirect c f am s).2.store = s.store ∧ (callDirect c f am s).2.orc = s.orc := by
  unfold callDirect
  split
  · exact ⟨fun x s' h => (by cases h), rfl, rfl⟩
  · split
    · rename_i x hx
      refine ⟨fun y s' h => ?_, rfl, rfl⟩
      simp only [Prod.mk.injEq, Except.error.injEq] at h
      rw [← h.1]
      exact gatherArgs_err c.env f am ham hK x hx
    · refine ⟨fun x s' h => ?_, ?_, ?_⟩
      · dsimp only at h
        cases h
      · dsimp only
        split <;> rfl
      · dsimp only
        split <;> rfl

/-! ### outputValues -/

theorem oStep_orc (f : FuncDesc) (r : BehOut) (s : CallSt) (v : Vtx) : (oStep f r s v).orc = s.orc := by
  unfold oStep
  split
  · split
    · rw [set_orc]
    · rfl
  · split
    · rw [set_orc]
    · rfl
  · rfl

theorem oFold_orc (f : FuncDesc) (r : BehOut) (l : List Vtx) (s : CallSt) :
    (l.foldl (oStep f r) s).orc = s.orc := by
  induction l generalizing s with
  | nil => rfl
  | cons a l ih => rw [List.foldl_cons, ih, oStep_orc]

/-! ### one step of the walk -/

/-- (P): what is known right after the vertex `prev` — the last one of the processed prefix `done` — was
processed -/
def PrevP (c : Ctx) (s : CallSt) (final : Option PVal) (done : List Vtx) : Option Vtx → Prop
  | none => True
  | some .root => True
  | some (.value n t u) =>
    s.last = s.get (.value n t u) ∧ final.isSome = true ∧
    (∀ a, final = some a → c.env.assignable a.ty t = true) ∧
    ((s.get (.value n t u)).isSome = true ∨
      (c.hopCopies = false ∧
        ∃ pre a, done = pre ++ [a, .value n t u] ∧ a.isValue = true ∧ c.g.hasEdge (.value n t u) a = true))
  | some (.out t u) => (s.get (.out t u)).isSome = true ∧ s.last = s.get (.out t u)
  | some (.arg t u) =>
    final = s.get (.arg t u) ∧
    ((s.get (.arg t u)).isSome = true ∨
      (c.hopCopies = false ∧
        ∃ pre a b, done = pre ++ [a, b, .arg t u] ∧ a.isValue = true ∧ b.isValue = true ∧ c.g.hasEdge b a = true))
  | some (.func k) => ∀ v ∈ c.g.ins (.func k), (s.get v).isSome = true

def WInv (c : Ctx) (K : Prop) (Sup : Vtx → Prop) (done : List Vtx) (w : WalkSt) : Prop :=
  (∀ e, w.err = some e → ¬ Bad K e) ∧
  (w.err = none → PInv c Sup w.s ∧ PrevP c w.s w.final done w.prev ∧ w.prev = done.getLast?)

/-- the nested search: never a bad error; on success a typed argument map that covers every requirement
of the function vertex -/
def RecOK (c : Ctx) (K : Prop) (Sup : Vtx → Prop) (rec : Vtx → CallSt → Except RErr ArgMap × CallSt) : Prop :=
  ∀ k s, PInv c Sup s →
    (∀ e s', rec (.func k) s = (.error e, s') → ¬ Bad K e) ∧
    (∀ am s', rec (.func k) s = (.ok am, s') →
      PInv c Sup s' ∧ AmOK c am ∧ ∀ y ∈ c.g.outs (.func k), y ≠ .root → (mapGet am y).isSome = true)

theorem getLast?_append_singleton {α : Type} (l : List α) (a : α) : (l ++ [a]).getLast? = some a := by
  simp

theorem eq_dropLast_append {α : Type} : ∀ {l : List α} {a : α}, l.getLast? = some a → l = l.dropLast ++ [a] := by
  intro l
  induction l with
  | nil => intro a h; simp at h
  | cons b l ih =>
    intro a h
    cases l with
    | nil => simp at h; simp [h]
    | cons c l' =>
      rw [List.getLast?_cons_cons] at h
      have := ih h
      rw [List.dropLast_cons_cons, List.cons_append, ← this]

theorem walkStep_winv (gf : Facts c K Sup) (rec : Vtx → CallSt → Except RErr ArgMap × CallSt)
    (hrec : RecOK c K Sup rec) (done : List Vtx) (w : WalkSt) (v : Vtx) (hw : WInv c K Sup done w)
    (hedge : w.err = none → ∃ u, w.prev = some u ∧ c.g.hasEdge v u = true) :
    WInv c K Sup (done ++ [v]) (walkStep c rec w v) := by
  cases herr : w.err with
  | some e => rw [walkStep_err c rec herr]; exact ⟨hw.1, fun h => by rw [herr] at h; cases h⟩
  | none =>
    obtain ⟨hS, hP, hdone⟩ := hw.2 herr
    obtain ⟨u, hu, he⟩ := hedge herr
    rw [hu] at hP hdone
    have hrule := gf.edgeOK _ _ he
    have hkind := kindOK_of_rule hrule
    have hlast : some v = (done ++ [v]).getLast? := (getLast?_append_singleton _ _).symm
    cases v with
    | root =>
      rw [walkStep_root c rec herr]
      exact ⟨fun e h => (no_err herr h).elim, fun _ => ⟨hS, trivial, hlast⟩⟩
    | value n t x =>
      rw [walkStep_value c rec herr, hu]
      -- the copy
      have key : PInv c Sup (valCopy c w.s (some u) (.value n t x)) ∧
          (((valCopy c w.s (some u) (.value n t x)).get (.value n t x)).isSome = true ∨
            (c.hopCopies = false ∧ valCopy c w.s (some u) (.value n t x) = w.s ∧ ∃ n' t' x', u = .value n' t' x')) := by
        cases u with
        | root =>
          rw [valCopy_store_eq _ _ _ _ rfl rfl]
          rcases gf.toRoot _ he with h | h
          · cases h
          · exact ⟨hS, Or.inl (hS.sinv.sup _ h)⟩
        | value n' t' x' =>
          cases hc : c.hopCopies with
          | false =>
            rw [valCopy_noHop c _ _ _ hc]
            exact ⟨hS, Or.inr ⟨rfl, rfl, _, _, _, rfl⟩⟩
          | true =>
            -- the R6 hop copies the value of the vertex with a subtype (same name, same type), which holds one
            have hsome : (w.s.get (.value n' t' x')).isSome = true := by
              rcases hP.2.2.2 with hd | ⟨hf, _⟩
              · exact hd
              · rw [hc] at hf; cases hf
            obtain ⟨y, hg⟩ := Option.isSome_iff_exists.1 hsome
            rw [valCopy_hop_some c _ _ _ _ _ hc hg]
            have hty := hS.sinv.typed _ _ hg
            rw [show (Vtx.value n' t' x').ty = t from (rule_value_value' hrule).2.1] at hty
            refine ⟨hS.set _ _ hty, Or.inl ?_⟩
            rw [get_set]; simp
        | arg t' x' => simp [kindOK] at hkind
        | out t' x' =>
          have ht := rule_value_out hrule
          subst ht
          obtain ⟨a, ha⟩ := Option.isSome_iff_exists.1 hP.1
          show PInv c Sup (w.s.set _ (w.s.get (.out t' x'))) ∧
            (((w.s.set _ (w.s.get (.out t' x'))).get _).isSome = true ∨ _)
          rw [ha]
          refine ⟨hS.set _ _ (hS.sinv.typed (.out t' x') a ha), Or.inl ?_⟩
          rw [get_set]; simp
        | func k =>
          rw [valCopy_store_eq _ _ _ _ rfl rfl]
          exact ⟨hS, Or.inl (hP _ (mem_ins_of_hasEdge _ _ _ he))⟩
      generalize hs1 : valCopy c w.s (some u) (.value n t x) = s1 at key
      obtain ⟨k1, k2⟩ := key
      refine ⟨fun e h => (no_err herr h).elim, fun _ => ⟨k1.congr rfl rfl, ?_, hlast⟩⟩
      show (if c.publishAfterUpdate = true then s1.get (.value n t x) else w.s.get (.value n t x)) = s1.get (.value n t x) ∧
        ((s1.get (.value n t x)).or w.final).isSome = true ∧
        (∀ a, (s1.get (.value n t x)).or w.final = some a → c.env.assignable a.ty t = true) ∧
        ((s1.get (.value n t x)).isSome = true ∨
          (c.hopCopies = false ∧
            ∃ pre a, done ++ [Vtx.value n t x] = pre ++ [a, Vtx.value n t x] ∧ a.isValue = true ∧
              c.g.hasEdge (Vtx.value n t x) a = true))
      rw [gf.pub]
      refine ⟨by simp, ?_⟩
      rcases k2 with k2 | ⟨hcf, _, n', t', x', rfl⟩
      · obtain ⟨a, ha⟩ := Option.isSome_iff_exists.1 k2
        rw [ha]
        refine ⟨rfl, ?_, Or.inl rfl⟩
        intro a' ha'
        simp only [Option.some_or, Option.some.injEq] at ha'
        subst ha'
        exact k1.sinv.typed _ _ ha
      · obtain ⟨rfl, rfl, rfl, _⟩ := rule_value_value' hrule
        obtain ⟨_, hfs, hft, _⟩ := hP
        obtain ⟨fa, hfa⟩ := Option.isSome_iff_exists.1 hfs
        refine ⟨?_, ?_, Or.inr ⟨hcf, done.dropLast, Vtx.value n' t' x', ?_, rfl, he⟩⟩
        · cases s1.get (Vtx.value n' t' "") <;> simp [hfa]
        · intro a' ha'
          cases hg : s1.get (Vtx.value n' t' "") with
          | some y =>
            rw [hg] at ha'
            simp only [Option.some_or, Option.some.injEq] at ha'
            subst ha'
            exact k1.sinv.typed _ _ hg
          | none =>
            rw [hg] at ha'
            simp only [Option.none_or] at ha'
            exact hft _ ha'
        · conv => lhs; rw [eq_dropLast_append hdone.symm]
          simp
    | out t x =>
      rw [walkStep_out c rec herr, hu]
      have key : PInv c Sup (copyFrom w.s (some u) (.out t x)) ∧
          ((copyFrom w.s (some u) (.out t x)).get (.out t x)).isSome = true := by
        cases u with
        | root =>
          rw [copyFrom_store_eq _ _ _ rfl]
          rcases gf.toRoot _ he with h | h
          · cases h
          · exact ⟨hS, hS.sinv.sup _ h⟩
        | value n' t' x' => simp [kindOK] at hkind
        | arg t' x' => simp [kindOK] at hkind
        | out t' x' =>
          obtain ⟨hi, him⟩ := rule_out_out hrule
          obtain ⟨a, ha⟩ := Option.isSome_iff_exists.1 hP.1
          show PInv c Sup (w.s.set _ (w.s.get (.out t' x'))) ∧ ((w.s.set _ (w.s.get (.out t' x'))).get _).isSome = true
          rw [ha]
          refine ⟨hS.set _ _ (assignable_trans_impl _ gf.trans _ _ _ (hS.sinv.typed (.out t' x') a ha) hi him), ?_⟩
          rw [get_set]; simp
        | func k =>
          rw [copyFrom_store_eq _ _ _ rfl]
          exact ⟨hS, hP _ (mem_ins_of_hasEdge _ _ _ he)⟩
      generalize copyFrom w.s (some u) (.out t x) = s1 at key
      obtain ⟨k1, k2⟩ := key
      exact ⟨fun e h => (no_err herr h).elim, fun _ => ⟨k1.congr rfl rfl, ⟨k2, rfl⟩, hlast⟩⟩
    | arg t x =>
      rw [walkStep_arg c rec herr]
      -- either `last` is an assignable value, or the previous vertex was entered by an R6 hop
      have key : (∃ a, w.s.last = some a ∧ c.env.assignable a.ty t = true) ∨
          (w.s.last = none ∧ c.hopCopies = false ∧ ∃ pre a, done = pre ++ [a, u] ∧ a.isValue = true ∧ u.isValue = true ∧
            c.g.hasEdge u a = true) := by
        cases u with
        | root =>
          rcases gf.toRoot _ he with h | h
          · cases h
          · rcases gf.supKind _ h with h' | h' <;> cases h'
        | value n' t' x' =>
          have ht := (rule_arg_value' hrule).1
          subst ht
          obtain ⟨hl, _, _, hd⟩ := hP
          cases hg : w.s.get (Vtx.value n' t' x') with
          | some a => exact Or.inl ⟨a, by rw [hl, hg], hS.sinv.typed _ _ hg⟩
          | none =>
            rw [hg] at hd hl
            rcases hd with hd | ⟨hcf, pre, a, hd, ha, hea⟩
            · cases hd
            · exact Or.inr ⟨hl, hcf, pre, a, hd, ha, rfl, hea⟩
        | arg t' x' => simp [kindOK] at hkind
        | out t' x' =>
          have ht := rule_arg_out hrule
          subst ht
          obtain ⟨a, ha⟩ := Option.isSome_iff_exists.1 hP.1
          exact Or.inl ⟨a, by rw [hP.2, ha], hS.sinv.typed _ _ ha⟩
        | func k => simp [kindOK] at hkind
      rcases key with ⟨a, hla, hta⟩ | ⟨hln, hcf, pre, a, hd, ha, hub, hea⟩
      · have hst : argStore c w.s t (.arg t x) = w.s.set (.arg t x) (some a) := by
          unfold argStore
          rw [hla]
          dsimp only
          rw [if_pos hta]
        rw [hst]
        refine ⟨fun e h => (no_err herr h).elim, fun _ => ⟨hS.set _ _ hta, ⟨rfl, Or.inl ?_⟩, hlast⟩⟩
        rw [get_set]; simp
      · have hst : argStore c w.s t (.arg t x) = w.s := by
          unfold argStore
          rw [hln]
        rw [hst]
        refine ⟨fun e h => (no_err herr h).elim, fun _ => ⟨hS, ⟨rfl, Or.inr ⟨hcf, pre, a, u, ?_, ha, hub, hea⟩⟩, hlast⟩⟩
        rw [hd]; simp
    | func k =>
      cases hfo : c.funcOf k with
      | none =>
        rw [walkStep_func_none c rec herr k hfo]
        refine ⟨fun e h => ?_, fun h => by cases h⟩
        cases h
        exact not_bad_of_ne (by simp) (by simp) (by simp)
      | some f =>
        obtain ⟨hrE, hrO⟩ := hrec k w.s hS
        rcases hrs : rec (Vtx.func k) w.s with ⟨e | am, s1⟩
        · rw [walkStep_func_recErr c rec herr k hfo hrs]
          exact ⟨fun e' h => by cases h; exact hrE e s1 hrs, fun h => by cases h⟩
        · obtain ⟨hS1, ham, hfull⟩ := hrO am s1 hrs
          have hK : K → ∀ v' ∈ f.input.values, (mapGet am v'.lab.vertex).isSome = true := by
            intro hk v' hv'
            exact hfull _ (gf.reqs hk k f hfo ⟨u, he⟩ v' hv') (vertex_ne_root _)
          obtain ⟨hcE, hcS, hcO⟩ := callDirect_spec (c := c) (K := K) f am s1 ham hK
          rcases hcs : callDirect c f am s1 with ⟨e | ⟨r, unw⟩, s2⟩
          · rw [walkStep_func_cdErr c rec herr k hfo hrs hcs]
            exact ⟨fun e' h => by cases h; exact not_bad_of_missing (hcE e s2 hcs), fun h => by cases h⟩
          · rw [hcs] at hcS hcO
            have hS2 : PInv c Sup s2 := hS1.congr hcS hcO
            cases hre : r.err with
            | some ε =>
              rw [walkStep_func_funcErr c rec herr k hfo hrs hcs hre]
              refine ⟨fun e' h => ?_, fun h => by cases h⟩
              cases h
              exact not_bad_of_ne (by simp) (by simp) (by simp)
            | none =>
              have hov := outputValues_spec gf.mc f r unw s2
              rw [walkStep_func_ok c rec herr k hfo hrs hcs hre hov]
              have hkey := gf.funcKey k f hfo
              have hfold := oFold_sinv (c := c) (N := False) (Sup := Sup) f r (c.g.ins (.func f.key))
                (by rw [hkey]; exact gf.outTyped k f hfo) s2 hS2.sinv
              refine ⟨fun e h => (no_err herr h).elim, fun _ => ⟨⟨hfold.1, ?_⟩, ?_, hlast⟩⟩
              · rw [oFold_orc]; exact hS2.orc
              · show ∀ v ∈ c.g.ins (.func k), _
                rw [← hkey]
                exact hfold.2

/-! ### walking one path -/

theorem walkFold_winv (gf : Facts c K Sup) (rec : Vtx → CallSt → Except RErr ArgMap × CallSt)
    (hrec : RecOK c K Sup rec) (p : List Vtx) (done : List Vtx) (w : WalkSt) (hw : WInv c K Sup done w)
    (hpath : w.err = none → ∃ u, w.prev = some u ∧ Chain c.g u p) :
    WInv c K Sup (done ++ p) (p.foldl (walkStep c rec) w) := by
  induction p generalizing done w with
  | nil => simpa using hw
  | cons v rest ih =>
    rw [List.foldl_cons]
    have hw1 : WInv c K Sup (done ++ [v]) (walkStep c rec w v) :=
      walkStep_winv gf rec hrec done w v hw
        (fun he => by
          obtain ⟨u, hu, hc⟩ := hpath he
          exact ⟨u, hu, hc.1⟩)
    have hpath1 : (walkStep c rec w v).err = none →
        ∃ u, (walkStep c rec w v).prev = some u ∧ Chain c.g u rest := by
      intro he
      obtain ⟨u, _, hc⟩ := hpath (walkStep_err_mono c rec w v he)
      exact ⟨v, walkStep_prev c rec w v he, hc.2⟩
    have := ih (done ++ [v]) _ hw1 hpath1
    rwa [List.append_assoc, List.singleton_append] at this

/-! ### walking all paths -/

/-- a root-first real path that ends in a value or argument vertex and — unless R6 hops copy — not in
`…, value, value, arg` -/
def GoodP (c : Ctx) (p : List Vtx) : Prop :=
  ∃ rest, p = .root :: rest ∧ rest ≠ [] ∧ Chain c.g .root rest ∧
    (∀ l, rest.getLast? = some l → (l.isValue = true ∨ l.isArg = true)) ∧ (c.hopCopies = true ∨ PathGood p)

theorem walkPaths_spec (gf : Facts c K Sup) (rec : Vtx → CallSt → Except RErr ArgMap × CallSt)
    (hrec : RecOK c K Sup rec) (paths : List (List Vtx)) (hp : ∀ p ∈ paths, GoodP c p) (am : ArgMap)
    (s : CallSt) (hs : PInv c Sup s) (ham : AmOK c am) :
    (∀ e, (walkPaths c rec paths am s).1 = .error e → ¬ Bad K e) ∧
    (∀ am', (walkPaths c rec paths am s).1 = .ok am' →
      AmOK c am' ∧ PInv c Sup (walkPaths c rec paths am s).2 ∧
      (∀ x, (mapGet am x).isSome = true → (mapGet am' x).isSome = true) ∧
      ∀ p ∈ paths, ∀ l, p.getLast? = some l → (mapGet am' l).isSome = true) := by
  induction paths generalizing am s with
  | nil =>
    refine ⟨fun e h => (by cases h), fun am' h => ?_⟩
    simp only [walkPaths, Except.ok.injEq] at h
    subst h
    exact ⟨ham, hs, fun _ h => h, fun _ h => by cases h⟩
  | cons p rest ih =>
    obtain ⟨tl, hptl, htl, hchain, hkind, hpg⟩ := hp p (by simp)
    unfold walkPaths
    have hw1 : WInv c K Sup [.root] { s := s, final := none, prev := some .root, err := none } :=
      ⟨fun e h => (by cases h), fun _ => ⟨hs, trivial, rfl⟩⟩
    have hfold := walkFold_winv gf rec hrec tl [.root] _ hw1 (fun _ => ⟨.root, rfl, hchain⟩)
    have hfeq : p.foldl (walkStep c rec) { s := s, final := none, prev := none, err := none } =
        tl.foldl (walkStep c rec) { s := s, final := none, prev := some .root, err := none } := by
      rw [hptl, List.foldl_cons, walkStep_root c rec rfl]
    have hlast : p.getLast? = tl.getLast? := by
      rw [hptl]
      cases tl with
      | nil => exact absurd rfl htl
      | cons a tl' => rw [List.getLast?_cons_cons]
    have hdone : [Vtx.root] ++ tl = p := by rw [hptl]; rfl
    rw [hfeq]
    rw [hdone] at hfold
    generalize tl.foldl (walkStep c rec) { s := s, final := none, prev := some .root, err := none } = w at hfold
    obtain ⟨herrA, hok⟩ := hfold
    dsimp only
    split
    · rename_i e he
      exact ⟨fun e' h => by cases h; exact herrA e he, fun am' h => by cases h⟩
    · rename_i herr
      obtain ⟨hS, hP, hprev⟩ := hok herr
      obtain ⟨l, hl⟩ : ∃ l, tl.getLast? = some l := by
        cases h : tl.getLast? with
        | none => exact absurd (List.getLast?_eq_none_iff.1 h) htl
        | some l => exact ⟨l, rfl⟩
      rw [hlast, hl] at hprev
      rw [hprev] at hP
      have hfin : ∃ x, w.final = some x ∧ c.env.assignable x.ty l.ty = true := by
        rcases hkind l hl with hv | hv
        · cases l <;> simp [Vtx.isValue] at hv
          obtain ⟨_, hfs, hft, _⟩ := hP
          obtain ⟨x, hx⟩ := Option.isSome_iff_exists.1 hfs
          exact ⟨x, hx, hft x hx⟩
        · cases l <;> simp [Vtx.isArg] at hv
          rename_i t u
          obtain ⟨hfe, hd⟩ := hP
          rcases hd with hd | ⟨hcf, pre, a, b, hd, ha, hb, _⟩
          · obtain ⟨x, hx⟩ := Option.isSome_iff_exists.1 hd
            exact ⟨x, by rw [hfe, hx], hS.sinv.typed _ _ hx⟩
          · rcases hpg with hh | hpg
            · rw [hh] at hcf; cases hcf
            · exact (hpg pre a b _ hd ha hb rfl).elim
      obtain ⟨x, hfx, htx⟩ := hfin
      rw [hlast, hl, hfx]
      dsimp only
      have ham1 : AmOK c (mapSet am l x) := by
        intro y a hy
        rw [mapGet_mapSet'] at hy
        split at hy
        · rename_i hyl
          simp only [Option.some.injEq] at hy
          subst hy; subst hyl
          exact htx
        · exact ham y a hy
      obtain ⟨j1, j2⟩ := ih (fun q hq => hp q (List.mem_cons_of_mem _ hq)) (mapSet am l x) w.s hS ham1
      refine ⟨j1, fun am' h => ?_⟩
      obtain ⟨k1, k2, k3, k4⟩ := j2 am' h
      refine ⟨k1, k2, ?_, ?_⟩
      · intro y hy
        apply k3
        rw [mapGet_mapSet']
        split
        · rfl
        · exact hy
      · intro q hq l' hl'
        rcases List.mem_cons.1 hq with rfl | hq
        · rw [hlast, hl] at hl'
          cases hl'
          apply k3
          rw [mapGet_mapSet', if_pos rfl]; rfl
        · exact k4 q hq l' hl'

/-! ### planning -/

theorem addInput_orc (s : CallSt) (v : Vtx) : (s.addInput v).orc = s.orc := by
  unfold CallSt.addInput; split <;> rfl

theorem planOne_pinv (target : Vtx) (reaching : List Vtx) (trk : Bool) (ps : PlanSt) (cp : Vtx × List Vtx)
    (h : PInv c Sup ps.s) : PInv c Sup (planOne target reaching trk false ps cp).s := by
  unfold planOne
  dsimp only
  split
  · exact h
  · simp only [Bool.false_eq_true, if_false]
    exact h.congr (addInput_store _ _) (addInput_orc _ _)

/-- a valid path to a value / argument requirement is root-first and real -/
theorem goodP_of_valid (cur : Vtx) (p : List Vtx)
    (hcur : cur.isValue = true ∨ cur.isArg = true) (h : validPath c.g cur p = true)
    (hpg : c.hopCopies = true ∨ PathGood p) :
    GoodP c p ∧ p.getLast? = some cur := by
  simp only [validPath, Bool.and_eq_true, beq_iff_eq] at h
  obtain ⟨⟨⟨_, hhead⟩, hlast⟩, hpath⟩ := h
  refine ⟨?_, hlast⟩
  cases p with
  | nil => simp at hhead
  | cons a rest =>
    simp only [List.head?_cons, Option.some.injEq] at hhead
    subst hhead
    have hne : rest ≠ [] := by
      intro h
      subst h
      simp only [List.getLast?_singleton, Option.some.injEq] at hlast
      subst hlast
      rcases hcur with h | h <;> cases h
    have hl : rest.getLast? = some cur := by
      cases rest with
      | nil => exact absurd rfl hne
      | cons b r => rw [List.getLast?_cons_cons] at hlast; exact hlast
    refine ⟨rest, rfl, hne, chain_of_isPathB c.g rest .root hpath, ?_, hpg⟩
    intro l h
    rw [hl] at h
    cases h
    exact hcur

/-! ### `reach` -/

theorem reach_spec (gf : Facts c K Sup) (n : Nat) :
    ∀ reaching, RecOK c K Sup (fun v st => reach c false n reaching v st) := by
  induction n with
  | zero =>
    intro reaching k s hs
    refine ⟨fun e s' h => ?_, fun am s' h => ?_⟩
    · simp only [reach, Prod.mk.injEq, Except.error.injEq] at h
      rw [← h.1]
      exact not_bad_of_ne (by simp) (by simp) (by simp)
    · simp [reach] at h
  | succ m ih =>
    intro reaching k s hs
    have hrec := ih (.func k :: reaching)
    -- it suffices to describe the result
    suffices hmain :
        (∀ e, (reach c false (m + 1) reaching (.func k) s).1 = .error e → ¬ Bad K e) ∧
        (∀ am, (reach c false (m + 1) reaching (.func k) s).1 = .ok am →
          AmOK c am ∧ PInv c Sup (reach c false (m + 1) reaching (.func k) s).2 ∧
          ∀ y ∈ c.g.outs (.func k), y ≠ .root → (mapGet am y).isSome = true) by
      refine ⟨fun e s' h => ?_, fun am s' h => ?_⟩
      · have h' : reach c false (m + 1) reaching (.func k) s = (.error e, s') := h
        exact hmain.1 e (by rw [h'])
      · have h' : reach c false (m + 1) reaching (.func k) s = (.ok am, s') := h
        obtain ⟨h1, h2, h3⟩ := hmain.2 am (by rw [h'])
        rw [h'] at h2
        exact ⟨h2, h1, h3⟩
    unfold reach
    dsimp only
    -- the skipped requirements
    have ham0 : AmOK c (((c.g.outs (.func k)).filter (fun v => v == Vtx.root || takenAsIs c s v)).filterMap
        (fun v => if v == Vtx.root then none else (s.get v).map (fun x => (v, x)))) := by
      intro x a h
      have hm := mem_of_mapGet h
      simp only [List.mem_filterMap] at hm
      obtain ⟨v, _, hv⟩ := hm
      split at hv
      · cases hv
      · cases hg : s.get v with
        | none => simp [hg] at hv
        | some y =>
          simp only [hg, Option.map_some, Option.some.injEq, Prod.mk.injEq] at hv
          obtain ⟨rfl, rfl⟩ := hv
          exact hs.sinv.typed _ _ hg
    have hsk : ∀ y ∈ c.g.outs (.func k), y ≠ .root → (y == Vtx.root || takenAsIs c s y) = true →
        (mapGet (((c.g.outs (.func k)).filter (fun v => v == Vtx.root || takenAsIs c s v)).filterMap
          (fun v => if v == Vtx.root then none else (s.get v).map (fun x => (v, x)))) y).isSome = true := by
      intro y hy hyr ht
      rw [ExactWins.mapGet_am0, if_pos ⟨List.mem_filter.2 ⟨hy, ht⟩, hyr⟩]
      apply isSome_of_takenAsIs
      have : (y == Vtx.root) = false := by simpa using hyr
      simpa [this] using ht
    generalize ((c.g.outs (.func k)).filter (fun v => v == Vtx.root || takenAsIs c s v)).filterMap
      (fun v => if v == Vtx.root then none else (s.get v).map (fun x => (v, x))) = am0 at ham0 hsk
    have hmiss : ∀ cur ∈ (c.g.outs (.func k)).filter (fun v => !(v == Vtx.root || takenAsIs c s v)),
        cur.isValue = true ∨ cur.isArg = true := by
      intro cur hcur
      simp only [List.mem_filter] at hcur
      have hk := kindOK_of_rule (gf.edgeOK _ _ (hasEdge_of_mem_outs _ _ _ hcur.1))
      have hnr := hcur.2
      cases cur <;> simp_all [kindOK, Vtx.isValue, Vtx.isArg]
    have hcover : ∀ y ∈ c.g.outs (.func k), (y == Vtx.root || takenAsIs c s y) = true ∨
        y ∈ (c.g.outs (.func k)).filter (fun v => !(v == Vtx.root || takenAsIs c s v)) := by
      intro y hy
      cases h : (y == Vtx.root || takenAsIs c s y) with
      | true => exact Or.inl rfl
      | false => exact Or.inr (List.mem_filter.2 ⟨hy, by simp [h]⟩)
    generalize (c.g.outs (.func k)).filter (fun v => !(v == Vtx.root || takenAsIs c s v)) = missingM
      at hmiss hcover
    have hs1eq : (if c.skipRecordsInput then
        ((c.g.outs (.func k)).filter (fun v => v == Vtx.root || takenAsIs c s v)).foldl CallSt.addInput s else s) = s := by
      rw [gf.sri]; rfl
    rw [hs1eq, gf.auto]
    have nb : ∀ w, ¬ Bad K (.badOracle w) := fun w => not_bad_of_ne (by simp) (by simp) (by simp)
    cases horc : s.orc with
    | nil =>
      dsimp only
      exact ⟨fun e h => by cases h; exact nb _, fun am h => by cases h⟩
    | cons item orcRest =>
      dsimp only
      have hs2 : PInv c Sup { s with orc := orcRest } :=
        ⟨sinv_of_store hs.sinv rfl, fun it hit => hs.orc it (by rw [horc]; exact List.mem_cons_of_mem _ hit)⟩
      have hitem : c.hopCopies = true ∨ ItemOK c.g item := hs.orc item (by rw [horc]; exact List.mem_cons_self)
      split
      · exact ⟨fun e h => by cases h; exact nb _, fun am h => by cases h⟩
      · split
        · exact ⟨fun e h => by cases h; exact nb _, fun am h => by cases h⟩
        · rename_i hsame
          have hsame' : sameMembers item.missing missingM = true := by simpa using hsame
          simp only [sameMembers, Bool.and_eq_true, List.all_eq_true, decide_eq_true_eq] at hsame'
          split
          · rename_i hempty
            refine ⟨fun e h => (by cases h), fun am h => ?_⟩
            simp only [Except.ok.injEq] at h
            subst h
            refine ⟨ham0, hs2, fun y hy hyr => ?_⟩
            rcases hcover y hy with h | h
            · exact hsk y hy hyr h
            · rw [List.isEmpty_iff.1 hempty] at h; cases h
          · split
            · exact ⟨fun e h => by cases h; exact nb _, fun am h => by cases h⟩
            · rename_i hlen
              simp only [ne_eq, Decidable.not_not] at hlen
              split
              · exact ⟨fun e h => by cases h; exact nb _, fun am h => by cases h⟩
              · rename_i hvalid
                have hvalid' : ((item.missing.zip item.paths).all fun cp => validPath c.g cp.1 cp.2) = true := by
                  simpa using hvalid
                have hgood : ∀ cp ∈ item.missing.zip item.paths, GoodP c cp.2 ∧ cp.2.getLast? = some cp.1 := by
                  intro cp hcp
                  have hv := List.all_eq_true.1 hvalid' _ hcp
                  obtain ⟨i, hi⟩ := List.mem_iff_getElem?.1 hcp
                  rw [List.getElem?_zip_eq_some] at hi
                  exact goodP_of_valid cp.1 cp.2 (hmiss _ (hsame'.1.1 _ (List.of_mem_zip hcp).1)) hv
                    (hitem.imp id (fun h => h i cp.1 cp.2 hi.1 hi.2 hv))
                have hs3 : PInv c Sup ((item.missing.zip item.paths).foldl
                    (planOne (.func k) (.func k :: reaching) c.trackReaching false)
                    { s := { s with orc := orcRest }, unsat := [] }).s :=
                  foldl_inv (fun (ps : PlanSt) => PInv c Sup ps.s) _
                    (fun ps cp h => planOne_pinv _ _ _ ps cp h) _ _ hs2
                split
                · refine ⟨fun e h => ?_, fun am h => by cases h⟩
                  cases h
                  exact not_bad_of_ne (by simp) (by simp) (by simp)
                · have hwp := walkPaths_spec gf _ hrec item.paths
                    (by
                      intro p hp
                      obtain ⟨cur, _, hz⟩ := zip_snd_mem item.missing item.paths hlen p hp
                      exact (hgood _ hz).1)
                    am0 _ hs3 ham0
                  refine ⟨hwp.1, fun am h => ?_⟩
                  obtain ⟨k1, k2, k3, k4⟩ := hwp.2 am h
                  refine ⟨k1, k2, fun y hy hyr => ?_⟩
                  rcases hcover y hy with h | h
                  · exact k3 y (hsk y hy hyr h)
                  · obtain ⟨p, hp, hz⟩ := zip_fst_mem item.missing item.paths hlen y (hsame'.1.2 _ h)
                    exact k4 p hp y (hgood _ hz).2

/-! ### `callWith` -/

theorem callWith_notBad (gf : Facts c K Sup) (cgr : CallGraphResult) (target : FuncDesc)
    (htv : cgr.target = .func target.key)
    (hpar : K → cgr.unsat = [] → ∀ v ∈ target.input.values, v.lab.vertex ∈ c.g.outs (.func target.key))
    (fuel : Nat) (s0 : CallSt) (hs : PInv c Sup s0) :
    (callWith c cgr target fuel s0).1 ≠ .panic .finalValue ∧
    (callWith c cgr target fuel s0).1 ≠ .panic .setNotAssignable ∧
    (K → (callWith c cgr target fuel s0).1 ≠ .missingArg) := by
  obtain ⟨hE, hO⟩ := reach_spec gf fuel [] target.key s0 hs
  unfold callWith
  split
  · exact ⟨by simp, by simp, fun _ => by simp⟩
  · rename_i hun
    have hun' : cgr.unsat = [] := by simpa using hun
    rw [htv]
    rcases hres : reach c false fuel [] (.func target.key) s0 with ⟨e | am, s⟩
    · have hb := hE e s hres
      cases e with
      | unsat a => exact ⟨by simp, by simp, fun _ => by simp⟩
      | funcErr ε => exact ⟨by simp, by simp, fun _ => by simp⟩
      | missingArg =>
        refine ⟨by simp, by simp, fun hk => ?_⟩
        exact absurd (Or.inr (Or.inr ⟨hk, rfl⟩)) hb
      | panic pk =>
        refine ⟨fun h => ?_, fun h => ?_, fun _ => by simp⟩
        · simp only [Outcome.panic.injEq] at h
          subst h
          exact hb (Or.inl rfl)
        · simp only [Outcome.panic.injEq] at h
          subst h
          exact hb (Or.inr (Or.inl rfl))
      | outOfFuel => exact ⟨by simp, by simp, fun _ => by simp⟩
      | badOracle w => exact ⟨by simp, by simp, fun _ => by simp⟩
    · obtain ⟨hS, hA, hcov⟩ := hO am s hres
      dsimp only
      have hK : K → ∀ v ∈ target.input.values, (mapGet am v.lab.vertex).isSome = true := by
        intro hk v hv
        exact hcov _ (hpar hk hun' v hv) (vertex_ne_root _)
      obtain ⟨hcE, _, _⟩ := callDirect_spec (c := c) (K := K) target am s hA hK
      rcases hcs : callDirect c target am s with ⟨e | ⟨r, unw⟩, s2⟩
      · obtain ⟨rfl, hnk⟩ := hcE e s2 hcs
        exact ⟨by simp, by simp, fun hk => absurd hk hnk⟩
      · dsimp only
        split <;> exact ⟨by simp, by simp, fun _ => by simp⟩

end ArgMapper.WalkPanic
