import ArgMapper.Model.Reach
/-!
# C07, family B: why the premise `famB` needs `o ≠ root`

`famB_orig` is the premise of `C07.named_converter_path` as it was first stated.  It does not exclude
`o = root`: the graph below (root "provided" by both converters) satisfies it, the pop order is
legal, the root is on the chosen path `[root, u]` — and that path is not of the form
`root :: u :: func 2 :: root :: _`.  The premise now carries `o ≠ root`.
-/
namespace ArgMapper.AffinityCGCE
open ArgMapper AGraph Generated

def famB_orig (g : AGraph Vtx) (n : String) (u a o : Vtx) (k1 k2 : Nat) : Bool :=
  decide (Vtx.root ∈ g.verts) && u.isValue && decide (u.name = n) && a.isArg && !o.isValue &&
  decide (g.outsW u = [(Vtx.root, weightNormal)]) &&
  decide (g.outsW a = [(u, weightTyped)]) &&
  decide (g.outsW (.func k1) = [(a, weightTyped)]) &&
  decide (g.outsW (.func k2) = [(u, weightNormal)]) &&
  decide (k1 ≠ k2) &&
  ((g.outsW o).all (fun p => decide (p.2 = weightTyped) && (decide (p.1 = .func k1) || decide (p.1 = .func k2)))) &&
  g.hasEdge o (.func k1) && g.hasEdge o (.func k2)

def u : Vtx := .value "n" 0 ""
def a : Vtx := .arg 1 ""
def g : AGraph Vtx := ⟨[.root, u, a, .func 1, .func 2],
  [(u, .root, 1), (a, u, 5), (.func 1, a, 5), (.func 2, u, 1), (.root, .func 1, 5), (.root, .func 2, 5)]⟩
def pops : List Vtx := [.root, u, a, .func 2, .func 1]

theorem g_WF : g.WF := ⟨by decide, by decide, by decide⟩

/-- every hypothesis of the original statement holds (with `o := root`, `cur := u`) … -/
theorem hyps : famB_orig g "n" u a .root 1 2 = true ∧ legalChoice g u pops = true ∧
    Vtx.root ∈ choosePath g u pops := by decide

/-- … and its conclusion fails -/
theorem concl_fails : ¬ ∃ rest, choosePath g u pops = Vtx.root :: u :: .func 2 :: Vtx.root :: rest := by
  have h : choosePath g u pops = [.root, u] := by decide
  rw [h]
  rintro ⟨rest, hr⟩
  simp at hr

end ArgMapper.AffinityCGCE
