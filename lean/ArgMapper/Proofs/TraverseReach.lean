import ArgMapper.Model.Traverse
/-!
# Helper lemmas for `Props/C20.lean`: edges/`outs`, and the fuel-bounded closure `reachSet`
-/
namespace ArgMapper
namespace TraverseReach
open AGraph Traverse
variable {α : Type} [DecidableEq α]

/-! ## basic facts on `weight`, `hasEdge`, `outsW`, `outs` -/

theorem weight_some_mem {g : AGraph α} {u v : α} {w : Int} (h : g.weight u v = some w) :
    (u, v, w) ∈ g.edges := by
  unfold AGraph.weight at h
  cases hf : g.edges.find? (isEdge u v) with
  | none => simp [hf] at h
  | some e =>
    simp [hf] at h
    have hp := List.find?_some hf
    have hm := List.mem_of_find?_eq_some hf
    simp [isEdge] at hp
    obtain ⟨a, b, c⟩ := e
    simp at hp h
    obtain ⟨rfl, rfl⟩ := hp
    subst h
    exact hm

theorem hasEdge_iff_weight {g : AGraph α} {u v : α} :
    g.hasEdge u v = true ↔ ∃ w, g.weight u v = some w := by
  unfold AGraph.hasEdge
  exact Option.isSome_iff_exists

theorem hasEdge_of_mem {g : AGraph α} {u v : α} {w : Int} (h : (u, v, w) ∈ g.edges) :
    g.hasEdge u v = true := by
  unfold AGraph.hasEdge AGraph.weight
  cases hf : g.edges.find? (isEdge u v) with
  | none =>
    have := List.find?_eq_none.mp hf _ h
    simp [isEdge] at this
  | some e => simp

theorem hasEdge_iff_mem {g : AGraph α} {u v : α} :
    g.hasEdge u v = true ↔ ∃ w, (u, v, w) ∈ g.edges := by
  constructor
  · intro h
    obtain ⟨w, hw⟩ := hasEdge_iff_weight.mp h
    exact ⟨w, weight_some_mem hw⟩
  · rintro ⟨w, hw⟩
    exact hasEdge_of_mem hw

theorem inj_of_nodup_map {β γ : Type} (f : β → γ) :
    ∀ (l : List β), (l.map f).Nodup → ∀ a ∈ l, ∀ b ∈ l, f a = f b → a = b := by
  intro l
  induction l with
  | nil => intro _ a ha; cases ha
  | cons x xs ih =>
    intro hnd a ha b hb hab
    simp only [List.map_cons, List.nodup_cons, List.mem_map, not_exists, not_and] at hnd
    rcases List.mem_cons.mp ha with rfl | ha'
    · rcases List.mem_cons.mp hb with rfl | hb'
      · rfl
      · exact absurd hab.symm (hnd.1 b hb')
    · rcases List.mem_cons.mp hb with rfl | hb'
      · exact absurd hab (hnd.1 a ha')
      · exact ih hnd.2 a ha' b hb' hab

theorem weight_of_mem {g : AGraph α} (hwf : g.WF) {u v : α} {w : Int} (h : (u, v, w) ∈ g.edges) :
    g.weight u v = some w := by
  obtain ⟨w', hw'⟩ := hasEdge_iff_weight.mp (hasEdge_of_mem h)
  have hm := weight_some_mem hw'
  have := inj_of_nodup_map (fun e : α × α × Int => (e.1, e.2.1)) g.edges hwf.2.1 _ h _ hm rfl
  simp at this
  rw [hw', this]

theorem mem_outsW {g : AGraph α} {u v : α} {w : Int} :
    (v, w) ∈ g.outsW u ↔ (u, v, w) ∈ g.edges := by
  unfold AGraph.outsW
  simp only [List.mem_map, List.mem_filter, decide_eq_true_eq]
  constructor
  · rintro ⟨⟨a, b, c⟩, ⟨hm, h1⟩, h2⟩
    simp at h1 h2
    obtain ⟨rfl, rfl⟩ := h2
    subst h1
    exact hm
  · intro h
    exact ⟨(u, v, w), ⟨h, rfl⟩, rfl⟩

theorem mem_outs {g : AGraph α} {u v : α} : v ∈ g.outs u ↔ g.hasEdge u v = true := by
  unfold AGraph.outs
  rw [hasEdge_iff_mem]
  simp only [List.mem_map]
  constructor
  · rintro ⟨⟨a, b⟩, hm, rfl⟩
    exact ⟨b, mem_outsW.mp hm⟩
  · rintro ⟨w, hw⟩
    exact ⟨(v, w), mem_outsW.mpr hw, rfl⟩

theorem hasEdge_verts {g : AGraph α} (hwf : g.WF) {u v : α} (h : g.hasEdge u v = true) :
    u ∈ g.verts ∧ v ∈ g.verts := by
  obtain ⟨w, hw⟩ := hasEdge_iff_mem.mp h
  exact hwf.2.2 _ hw

theorem reach_verts {g : AGraph α} (hwf : g.WF) {u v : α} (hu : u ∈ g.verts) (h : Reach g u v) :
    v ∈ g.verts := by
  induction h with
  | refl => exact hu
  | step _ he _ => exact (hasEdge_verts hwf he).2

theorem reach_trans {g : AGraph α} {u v w : α} (h1 : Reach g u v) (h2 : Reach g v w) :
    Reach g u w := by
  induction h2 with
  | refl => exact h1
  | step _ he ih => exact Reach.step ih he

/-! ## `eraseDups` -/

theorem nodup_eraseDups : ∀ (n : Nat) (l : List α), l.length ≤ n → l.eraseDups.Nodup := by
  intro n
  induction n with
  | zero =>
    intro l hl
    have : l = [] := List.length_eq_zero_iff.mp (by omega)
    subst this; simp
  | succ n ih =>
    intro l hl
    cases l with
    | nil => simp
    | cons a as =>
      rw [List.eraseDups_cons, List.nodup_cons]
      refine ⟨?_, ih _ ?_⟩
      · simp [List.mem_eraseDups, List.mem_filter]
      · have := List.length_filter_le (fun b => !b == a) as
        simp at hl
        omega

/-! ## `reachSet` -/

/-- soundness: everything collected is reachable -/
theorem reachSet_sound (g : AGraph α) (u : α) :
    ∀ (n : Nat) (frontier seen : List α), (∀ x ∈ frontier, Reach g u x) → (∀ x ∈ seen, Reach g u x) →
      ∀ x ∈ reachSet g n frontier seen, Reach g u x := by
  intro n
  induction n with
  | zero => intro frontier seen _ hs x hx; exact hs x (by simpa [reachSet] using hx)
  | succ n ih =>
    intro frontier seen hf hs x hx
    unfold reachSet at hx
    split at hx
    · exact hs x hx
    · rename_i new hnew heq
      have hnew' : ∀ y ∈ ((frontier.flatMap (g.outs ·)).filter (fun x => !decide (x ∈ seen))).eraseDups,
          Reach g u y := by
        intro y hy
        rw [List.mem_eraseDups, List.mem_filter, List.mem_flatMap] at hy
        obtain ⟨⟨f, hf', hy'⟩, _⟩ := hy
        exact Reach.step (hf f hf') (mem_outs.mp hy')
      refine ih _ _ hnew' ?_ x hx
      intro y hy
      rcases List.mem_append.mp hy with h | h
      · exact hs y h
      · exact hnew' y h

/-- completeness: under the closure invariant the result contains `seen` and is closed under
successors; the fuel suffices because `seen` is a duplicate-free list of vertices. -/
theorem reachSet_closed (g : AGraph α) (hwf : g.WF) :
    ∀ (n : Nat) (frontier seen : List α), (∀ x ∈ frontier, x ∈ seen) →
      (∀ x ∈ seen, x ∉ frontier → ∀ y, g.hasEdge x y = true → y ∈ seen) →
      seen.Nodup → (∀ x ∈ seen, x ∈ g.verts) → g.verts.length + 1 ≤ n + seen.length →
      (∀ x ∈ seen, x ∈ reachSet g n frontier seen) ∧
      ∀ x ∈ reachSet g n frontier seen, ∀ y, g.hasEdge x y = true → y ∈ reachSet g n frontier seen := by
  intro n
  induction n with
  | zero =>
    intro frontier seen _ _ hnd hsub hlen
    have := List.Nodup.length_le_of_subset hnd (fun x hx => hsub x hx)
    omega
  | succ n ih =>
    intro frontier seen hfs hcl hnd hsub hlen
    unfold reachSet
    split
    · rename_i heq
      refine ⟨fun x hx => hx, ?_⟩
      intro x hx y hxy
      by_cases hxf : x ∈ frontier
      · apply Classical.byContradiction
        intro hy
        have : y ∈ (frontier.flatMap (g.outs ·)).filter (fun x => !decide (x ∈ seen)) := by
          rw [List.mem_filter, List.mem_flatMap]
          exact ⟨⟨x, hxf, mem_outs.mpr hxy⟩, by simp [hy]⟩
        rw [heq] at this
        cases this
      · exact hcl x hx hxf y hxy
    · rename_i new hne
      have hmem : ∀ y, y ∈ ((frontier.flatMap (g.outs ·)).filter (fun x => !decide (x ∈ seen))).eraseDups ↔
          (∃ f ∈ frontier, g.hasEdge f y = true) ∧ y ∉ seen := by
        intro y
        rw [List.mem_eraseDups, List.mem_filter, List.mem_flatMap]
        simp [mem_outs]
      generalize hN : ((frontier.flatMap (g.outs ·)).filter (fun x => !decide (x ∈ seen))).eraseDups = N
        at hmem
      have hNd : N.Nodup := by rw [← hN]; exact nodup_eraseDups _ _ (Nat.le_refl _)
      have hNne : 1 ≤ N.length := by
        cases hc : (frontier.flatMap (g.outs ·)).filter (fun x => !decide (x ∈ seen)) with
        | nil => exact absurd hc (hne)
        | cons a as =>
          have : a ∈ N := by rw [← hN, hc, List.mem_eraseDups]; exact List.mem_cons_self
          cases N with
          | nil => cases this
          | cons _ _ => simp
      have := ih N (seen ++ N) (fun x hx => List.mem_append.mpr (Or.inr hx)) ?_ ?_ ?_ ?_
      · refine ⟨fun x hx => this.1 x (List.mem_append.mpr (Or.inl hx)), this.2⟩
      · intro x hx hxN y hxy
        rcases List.mem_append.mp hx with hxs | hxN'
        · by_cases hy : y ∈ seen
          · exact List.mem_append.mpr (Or.inl hy)
          · by_cases hxf : x ∈ frontier
            · exact List.mem_append.mpr (Or.inr ((hmem y).mpr ⟨⟨x, hxf, hxy⟩, hy⟩))
            · exact absurd (hcl x hxs hxf y hxy) hy
        · exact absurd hxN' hxN
      · rw [List.nodup_append]
        refine ⟨hnd, hNd, ?_⟩
        intro a ha b hb hab
        subst hab
        exact ((hmem a).mp hb).2 ha
      · intro x hx
        rcases List.mem_append.mp hx with hxs | hxN
        · exact hsub x hxs
        · obtain ⟨⟨f, _, hfx⟩, _⟩ := (hmem x).mp hxN
          exact (hasEdge_verts hwf hfx).2
      · rw [List.length_append]; omega

theorem reachB_iff' (g : AGraph α) (hwf : g.WF) (u v : α) (hu : u ∈ g.verts) :
    reachB g u v = true ↔ Reach g u v := by
  unfold reachB
  rw [decide_eq_true_iff]
  constructor
  · intro h
    exact reachSet_sound g u _ [u] [u] (by simp; exact Reach.refl u) (by simp; exact Reach.refl u) v h
  · intro h
    have hc := reachSet_closed g hwf (g.verts.length + 1) [u] [u] (fun x hx => hx)
      (fun x hx hx' => absurd hx hx') (by simp) (by simpa using hu) (by simp)
    induction h with
    | refl => exact hc.1 u (by simp)
    | step _ he ih => exact hc.2 _ ih _ he

/-! ## the SCC-partition checker -/

theorem bool_beq_iff (a b : Bool) : (a == b) = true ↔ (a = true ↔ b = true) := by
  cases a <;> cases b <;> simp

theorem isSccPartition_iff' (g : AGraph α) (hwf : g.WF) (comps : List (List α)) :
    isSccPartition g comps = true ↔
      (comps.flatten.Nodup ∧ (∀ v, v ∈ comps.flatten ↔ v ∈ g.verts) ∧ (∀ c ∈ comps, c ≠ []) ∧
        ∀ c ∈ comps, ∀ u ∈ c, ∀ v ∈ g.verts, (v ∈ c ↔ (Reach g u v ∧ Reach g v u))) := by
  unfold isSccPartition
  simp only [Bool.and_eq_true, decide_eq_true_iff, List.all_eq_true, bool_beq_iff,
    Bool.not_eq_eq_eq_not, Bool.not_true, List.isEmpty_eq_false_iff]
  constructor
  · rintro ⟨⟨⟨⟨h1, h2⟩, h3⟩, h4⟩, h5⟩
    refine ⟨h1, fun v => ⟨h3 v, h2 v⟩, h4, ?_⟩
    intro c hc u hu v hv
    have huv : u ∈ g.verts := h3 u (List.mem_flatten.mpr ⟨c, hc, hu⟩)
    rw [h5 c hc u hu v hv, reachB_iff' g hwf u v huv, reachB_iff' g hwf v u hv]
  · rintro ⟨h1, h2, h4, h5⟩
    refine ⟨⟨⟨⟨h1, fun v hv => (h2 v).mpr hv⟩, fun v hv => (h2 v).mp hv⟩, h4⟩, ?_⟩
    intro c hc u hu v hv
    have huv : u ∈ g.verts := (h2 u).mp (List.mem_flatten.mpr ⟨c, hc, hu⟩)
    rw [h5 c hc u hu v hv, reachB_iff' g hwf u v huv, reachB_iff' g hwf v u hv]

/-! ## executable cycle check (used for the non-vacuity example) -/

theorem cyclic_iff_any (g : AGraph α) (hwf : g.WF) :
    (∃ u v, g.hasEdge u v = true ∧ Reach g v u) ↔
      g.edges.any (fun e => reachB g e.2.1 e.1) = true := by
  rw [List.any_eq_true]
  constructor
  · rintro ⟨u, v, he, hr⟩
    obtain ⟨w, hw⟩ := hasEdge_iff_mem.mp he
    exact ⟨(u, v, w), hw, (reachB_iff' g hwf v u (hasEdge_verts hwf he).2).mpr hr⟩
  · rintro ⟨⟨u, v, w⟩, hm, hr⟩
    exact ⟨u, v, hasEdge_of_mem hm, (reachB_iff' g hwf v u (hwf.2.2 _ hm).2).mp hr⟩

theorem all_reach_iff (g : AGraph α) (hwf : g.WF) (r : α) (hr : r ∈ g.verts) :
    (∀ v ∈ g.verts, Reach g r v) ↔ g.verts.all (fun v => reachB g r v) = true := by
  rw [List.all_eq_true]
  constructor
  · intro h v hv; exact (reachB_iff' g hwf r v hr).mpr (h v hv)
  · intro h v hv; exact (reachB_iff' g hwf r v hr).mp (h v hv)

end TraverseReach
end ArgMapper
