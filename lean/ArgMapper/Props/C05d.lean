import ArgMapper.Props.C05c
import ArgMapper.Proofs.AnyOracle
/-!
# C05 / C06 (continued) — after the repair of F22 the chosen paths need not be shortest

Property theorems only (helper lemmas in `ArgMapper/Proofs/AnyOracle.lean` and
`ArgMapper/Proofs/AnyOracleClean.lean`).  With the repaired walk (`hopCopies = true`, the default of `C01.stdCtx`) a named
vertex entered over the named-to-named edge holds the value it takes, so neither the "final value" panic
nor the refusal of a satisfiable call depends any more on the oracle being legal: the statements of
`C06.no_walk_panic_partial_final_set` and `C05.complete_single_legal` hold for **every** oracle (any
requirement order, any root-first real paths) — a superset of what Dijkstra can return.
-/
namespace ArgMapper.C05
open ArgMapper

/-- **C06_no_walk_panic (every oracle, repaired walk)** -/
theorem no_walk_panic_any_oracle (e : TypeEnv) (ht : ImplTrans e)
    (b : Builder) (funcs : Nat → Option FuncDesc) (target : FuncDesc)
    (hb : C03.BuilderOK b)
    (hc : C01.FuncsConsistent (C01.allFuncs b funcs target))
    (hwf : SetsWF (C01.allFuncs b funcs target))
    (beh : Nat → Nat → List PVal → BehOut) (fuel : Nat)
    (memo : List (Nat × Memo)) (orc : List OrcItem) :
    let r := callWith (C01.stdCtx e b funcs target beh) (callGraph {} e b funcs target false none) target fuel
              (initSt (callGraph {} e b funcs target false none).cg memo orc)
    r.1 ≠ .panic .finalValue ∧ r.1 ≠ .panic .setNotAssignable := by
  intro r
  exact AnyOracle.panic_core (C06.hyps_of e ht b funcs target hb hc hwf) beh fuel memo orc

/-- **C05_complete_single (full label language, every oracle, repaired walk)** -/
theorem complete_single_any_oracle (e : TypeEnv) (ht : ImplTrans e)
    (b : Builder) (funcs : Nat → Option FuncDesc) (target : FuncDesc)
    (hb : C03.BuilderOK b)
    (hc : C01.FuncsConsistent (C01.allFuncs b funcs target))
    (hsi : SingleInput (b.convs.filterMap funcs))
    (hwf : SetsWF (C01.allFuncs b funcs target))
    (hkey : ∀ f ∈ b.convs.filterMap funcs, f.key ≠ target.key)
    (hsat : (callGraph {} e b funcs target false none).unsat = [])
    (beh : Nat → Nat → List PVal → BehOut) (fuel : Nat)
    (hfuel : (C06.funcVerts (callGraph {} e b funcs target false none).cg.g).length + 1 ≤ fuel)
    (memo : List (Nat × Memo)) (orc : List OrcItem) :
    let r := callWith (C01.stdCtx e b funcs target beh) (callGraph {} e b funcs target false none) target fuel
              (initSt (callGraph {} e b funcs target false none).cg memo orc)
    (∃ res, r.1 = .ok res) ∨ (∃ ε, r.1 = .convErr ε) ∨ (∃ ε res, r.1 = .targetErr ε res) ∨ (∃ w, r.1 = .badOracle w) := by
  exact AnyOracle.single_core_any (C06.hyps_of e ht b funcs target hb hc hwf) beh hsi hkey hsat fuel hfuel memo orc

/-- **C05_stable (full label language, repaired walk)** — on single-input sets, as long as no function reports an
error, two runs that differ only in their oracles both succeed -/
theorem stable_any_oracle (e : TypeEnv) (ht : ImplTrans e)
    (b : Builder) (funcs : Nat → Option FuncDesc) (target : FuncDesc)
    (hb : C03.BuilderOK b)
    (hc : C01.FuncsConsistent (C01.allFuncs b funcs target))
    (hsi : SingleInput (b.convs.filterMap funcs))
    (hwf : SetsWF (C01.allFuncs b funcs target))
    (hkey : ∀ f ∈ b.convs.filterMap funcs, f.key ≠ target.key)
    (hsat : (callGraph {} e b funcs target false none).unsat = [])
    (beh : Nat → Nat → List PVal → BehOut) (hne : ∀ f n a, (beh f n a).err = none) (fuel : Nat)
    (hfuel : (C06.funcVerts (callGraph {} e b funcs target false none).cg.g).length + 1 ≤ fuel)
    (orc₁ orc₂ : List OrcItem) :
    let run := fun orc => (callWith (C01.stdCtx e b funcs target beh) (callGraph {} e b funcs target false none) target fuel
              (initSt (callGraph {} e b funcs target false none).cg [] orc)).1
    (∀ w, run orc₁ ≠ .badOracle w) → (∀ w, run orc₂ ≠ .badOracle w) →
      (∃ r₁, run orc₁ = .ok r₁) ∧ (∃ r₂, run orc₂ = .ok r₂) := by
  intro run h1 h2
  have H := C06.hyps_of e ht b funcs target hb hc hwf
  exact ⟨AnyOracle.stable_core H beh hne hsi hkey hsat fuel hfuel orc₁ h1,
    AnyOracle.stable_core H beh hne hsi hkey hsat fuel hfuel orc₂ h2⟩

end ArgMapper.C05
