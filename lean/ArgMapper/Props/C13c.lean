import ArgMapper.Model.ErrMsg
/-!
# C13: the message mentions each missing argument (and each input, each converter)

About the model of `ErrArgumentUnsatisfied.Error()` in `Model/ErrMsg.lean`, which the correspondence
run compares line by line with the text the real error returns.
-/
namespace ArgMapper.C13
open ArgMapper

/-- **C13 (message)** — every missing argument has a line of its own in the message -/
theorem message_mentions_missing (tyName : Nat → String) (fn : String) (params args inputs : List Label)
    (convs : List ConvShown) (a : Label) (ha : a ∈ args) :
    ("    - " ++ renderValue tyName a) ∈ unsatMessageLines tyName fn params args inputs convs := by
  have h1 : ("    - " ++ renderValue tyName a) ∈ missingLines tyName args :=
    List.mem_map.mpr ⟨a, ha, rfl⟩
  have h2 : ("    - " ++ renderValue tyName a) ∈ sectionLines (missingLines tyName args) := by
    unfold sectionLines; split
    · next h => simp [List.isEmpty_iff.mp h] at h1
    · exact h1
  simp only [unsatMessageLines, List.mem_append]
  exact Or.inl (Or.inl (Or.inl (Or.inl (Or.inl (Or.inl (Or.inl (Or.inr h2)))))))

/-- … every supplied input too -/
theorem message_mentions_input (tyName : Nat → String) (fn : String) (params args inputs : List Label)
    (convs : List ConvShown) (a : Label) (ha : a ∈ inputs) :
    ("    - " ++ renderValue tyName a) ∈ unsatMessageLines tyName fn params args inputs convs := by
  have h1 : ("    - " ++ renderValue tyName a) ∈ inputLines tyName inputs := by
    unfold inputLines
    exact List.mem_append.mpr (Or.inr (List.mem_map.mpr ⟨a, ha, rfl⟩))
  have h2 : ("    - " ++ renderValue tyName a) ∈ sectionLines (inputLines tyName inputs) := by
    unfold sectionLines; split
    · next h => simp [List.isEmpty_iff.mp h] at h1
    · exact h1
  simp only [unsatMessageLines, List.mem_append]
  exact Or.inl (Or.inl (Or.inl (Or.inr h2)))

/-- … and every converter by name -/
theorem message_mentions_converter (tyName : Nat → String) (fn : String) (params args inputs : List Label)
    (convs : List ConvShown) (c : ConvShown) (hc : c ∈ convs) :
    ("    - " ++ c.name) ∈ unsatMessageLines tyName fn params args inputs convs := by
  have h1 : ("    - " ++ c.name) ∈ convLines tyName convs := by
    unfold convLines
    refine List.mem_append.mpr (Or.inr (List.mem_flatMap.mpr ⟨c, hc, ?_⟩))
    simp
  have h2 : ("    - " ++ c.name) ∈ sectionLines (convLines tyName convs) := by
    unfold sectionLines; split
    · next h => simp [List.isEmpty_iff.mp h] at h1
    · exact h1
  simp only [unsatMessageLines, List.mem_append]
  exact Or.inl (Or.inr h2)

/-- the rendering of a value shows its name (quoted), its type and its subtype -/
theorem renderValue_named (tyName : Nat → String) (l : Label) (hn : l.name ≠ "") (hs : l.sub ≠ "") :
    renderValue tyName l = s!"name: \"{l.name}\" (type: {tyName l.ty}, subtype: {l.sub})" := by
  simp [renderValue, hn, hs]

theorem renderValue_typed (tyName : Nat → String) (l : Label) (hn : l.name = "") (hs : l.sub ≠ "") :
    renderValue tyName l = s!"type: {tyName l.ty} (subtype: {l.sub})" := by
  simp [renderValue, hn, hs]

end ArgMapper.C13
