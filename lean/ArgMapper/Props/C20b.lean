import ArgMapper.Props.C20
import ArgMapper.Proofs.TarjanTop
/-!
# C20 (continued) — Tarjan's algorithm as written in `tarjan.go` is exact

Property theorem only.  `stronglyConnected` (ArgMapper/Model/Traverse.lean) is the transcription of
`internal/graph/tarjan.go`: recursive `visit` with an index table (0 = not visited, indices start at 1),
an explicit stack kept top-first, components emitted when `index = lowlink`; the fuel `|verts| + 1` bounds
the recursion depth.  The theorem states that for every well-formed graph — i.e. for every iteration
order of Go's maps — its output is exactly the partition of the vertices into mutual-reachability
classes.  (Until now this was decided per run by the verified checker `isSccPartition_iff` applied to
the outputs of the model and of the real code.)
-/
namespace ArgMapper.C20
open ArgMapper AGraph Traverse
variable {α : Type} [DecidableEq α]

/-- **C20_scc_exact** -/
theorem tarjan_exact (g : AGraph α) (hwf : g.WF) : IsSccPartition g (stronglyConnected g) := by
  obtain ⟨h1, h2, h3, h4⟩ := Tarjan.stronglyConnected_spec hwf
  exact ⟨h1, h2, h3, fun c hc u hu v _ => h4 c hc u hu v⟩

end ArgMapper.C20
