import ArgMapper.Props.C01b
import ArgMapper.Props.C18
import ArgMapper.Proofs.ExactWins
import ArgMapper.Proofs.ExactWinsTyped
/-!
# C03 — exact matches win

Property theorems only (helper lemmas in `ArgMapper/Proofs/ExactWins.lean` and
`ArgMapper/Proofs/ExactWinsTyped.lean`).  Both original statements were false for ill-formed builders (and
`exact_wins_named` for inconsistent same-key converters); the originals are kept in comments next to the
corrected theorems, with machine-checked counterexamples.
-/
namespace ArgMapper.C03
open ArgMapper

/-- the value the caller supplied under exactly this parameter's key -/
def exactValue (b : Builder) (p : Label) : Option Val :=
  if p.name ≠ "" then
    (if p.sub = "" then (mapGet b.named p.name).filter (fun v => v.ty == p.ty)
     else (mapGet b.namedSub (p.name, p.sub)).filter (fun v => v.ty == p.ty))
  else if p.sub = "" then mapGet b.typed p.ty else mapGet b.typedSub (p.ty, p.sub)

/-- every parameter of the target has an exactly matching supplied value -/
def ExactAll (b : Builder) (target : FuncDesc) : Prop :=
  ∀ p ∈ target.input.labels, (exactValue b p).isSome = true

/-- the oracle is what the real code computes: each chosen path is Dijkstra's path, for some legal
pop order, on the re-weighted reversed graph -/
def LegalItem (g : AGraph Vtx) (it : OrcItem) : Prop :=
  ∀ (i : Nat) (cur : Vtx) (path : List Vtx), it.missing[i]? = some cur → it.paths[i]? = some path →
    ∃ pops, Dijkstra.LegalPops (discount g cur).reverse Vtx.root pops ∧ path = choosePath g cur pops

/-- the named maps of a builder as the options produce them (every builder `build` returns is like
this, `ExactWins.build_BOK`): one entry per key, no empty subtype in the sub-keyed map -/
def NamedOK (b : Builder) : Prop :=
  (b.named.map (·.1)).Nodup ∧ (b.namedSub.map (·.1)).Nodup ∧ ∀ p ∈ b.namedSub, p.1.2 ≠ ""

/-- functions of the target's Go type (`key`) have the target's input set (they do: the value sets are
computed from the type; this is the part of `C01.FuncsConsistent` that is needed here) -/
def SameInputs (b : Builder) (funcs : Nat → Option FuncDesc) (target : FuncDesc) : Prop :=
  ∀ f ∈ C01.allFuncs b funcs target, f.key = target.key → f.input = target.input

/- ORIGINAL STATEMENT of `exact_wins_named` — FALSE (corrected below: hypotheses `hb` and `hsame` added;
`hk` is not needed).

    theorem exact_wins_named (e : TypeEnv) (b : Builder) (funcs : Nat → Option FuncDesc) (target : FuncDesc)
        (hk : ValueSet.KeysOK target.input) (hnamed : ∀ p ∈ target.input.labels, p.name ≠ "")
        (hex : ExactAll b target)
        (beh : Nat → Nat → List PVal → BehOut) (fuel : Nat) (hfuel : 0 < fuel)
        (memo : List (Nat × Memo)) (orc : List OrcItem) (hm : mapGet memo target.id = none) :
        let r := callWith (C01.stdCtx e b funcs target beh) (callGraph {} e b funcs target false none) target fuel
                  (initSt (callGraph {} e b funcs target false none).cg memo orc)
        (∃ w, r.1 = .badOracle w) ∨
        (∃ ev, r.2.log = [ev] ∧ ev.fid = target.id ∧
          ev.args.map (fun a => some a.id) = target.input.labels.map (fun p => (exactValue b p).map (·.id)))

Why it fails (each counterexample is a theorem below, checked by `decide`):

* `Builder` is an arbitrary record of association lists.  `exactValue` reads the *first* entry for a key
  (`mapGet`), `inputsGraph` lets the *last* one win (`addValued` = map assignment).  With
  `b.named = [("a", ⟨1,10⟩), ("a", ⟨1,20⟩)]` the parameter `a` receives id 20, `exactValue` says 10
  (`counterexample_duplicate_key`).  The same happens with a `namedSub` entry keyed `("a", "")`, which
  overwrites the vertex of the `named` entry `"a"` (`counterexample_empty_subtype`).  Builders made by
  `build` never look like this (`ExactWins.build_BOK`), hence `NamedOK`.
* Nothing ties a converter that has the target's `key` (Go function type) to the target's inputs.
  Such a converter adds its own requirement edges to the target's vertex; `reach` then resolves these too
  and may execute further converters: two events are logged (`counterexample_same_key`).  Hence
  `SameInputs` (implied by `C01.FuncsConsistent`, which `exact_wins` assumes). -/

/-- **C03_exact_wins (named parameters)**, corrected — a target all of whose parameters are named and
exactly supplied: `Call` executes the target and nothing else, whatever else is supplied, for every
oracle; each parameter receives precisely its same-named supplied value.  (After the repair of F4 a
named requirement that already holds a value is taken as is — no search, hence no tie-breaking.) -/
theorem exact_wins_named (e : TypeEnv) (b : Builder) (funcs : Nat → Option FuncDesc) (target : FuncDesc)
    (hb : NamedOK b) (hsame : SameInputs b funcs target)
    (hnamed : ∀ p ∈ target.input.labels, p.name ≠ "")
    (hex : ExactAll b target)
    (beh : Nat → Nat → List PVal → BehOut) (fuel : Nat) (hfuel : 0 < fuel)
    (memo : List (Nat × Memo)) (orc : List OrcItem) (hm : mapGet memo target.id = none) :
    let r := callWith (C01.stdCtx e b funcs target beh) (callGraph {} e b funcs target false none) target fuel
              (initSt (callGraph {} e b funcs target false none).cg memo orc)
    (∃ w, r.1 = .badOracle w) ∨
    (∃ ev, r.2.log = [ev] ∧ ev.fid = target.id ∧
      ev.args.map (fun a => some a.id) = target.input.labels.map (fun p => (exactValue b p).map (·.id))) :=
  ExactWins.exact_wins_named_aux e b funcs target ⟨hb.1, hb.2.1, hb.2.2⟩ hsame hnamed hex beh fuel hfuel memo orc hm

/-- `SameInputs` follows from the consistency hypothesis of C01 -/
theorem sameInputs_of_consistent (b : Builder) (funcs : Nat → Option FuncDesc) (target : FuncDesc)
    (hc : C01.FuncsConsistent (C01.allFuncs b funcs target)) : SameInputs b funcs target :=
  fun f hf hk => (hc.1 f hf target (by simp [C01.allFuncs]) hk).1

/-- builders returned by `build` satisfy `NamedOK` -/
theorem namedOK_of_build (opts : List Opt) (b : Builder) (h : build opts = .ok b ∨ build opts = .optErr b) :
    NamedOK b :=
  have h' := (ExactWins.build_BOK opts b h).1
  ⟨h'.named_nodup, h'.namedSub_nodup, h'.namedSub_sub⟩

/-! ### the counterexamples to the original statement -/

namespace CE
def env : TypeEnv := { isIface := fun _ => false, impl := fun _ _ => false }
def inA : ValueSet :=
  { hasStruct := true, ptrs := 0, values := [⟨⟨"a", 1, ""⟩, 0⟩], named := [("a", ⟨⟨"a", 1, ""⟩, 0⟩)], typed := [],
    lifted := false }
def target : FuncDesc := { id := 0, key := 100, input := inA, output := ValueSet.nil, hasErr := false, once := false }
def beh : Nat → Nat → List PVal → BehOut := fun _ _ _ => { outs := [], err := none }
def run (b : Builder) (funcs : Nat → Option FuncDesc) (orc : List OrcItem) : Outcome × CallSt :=
  callWith (C01.stdCtx env b funcs target beh) (callGraph {} env b funcs target false none) target 5
    (initSt (callGraph {} env b funcs target false none).cg [] orc)
def dupKey : Builder := { Builder.empty with named := [("a", ⟨1, 10⟩), ("a", ⟨1, 20⟩)] }
def emptySub : Builder := { Builder.empty with named := [("a", ⟨1, 10⟩)], namedSub := [(("a", ""), ⟨1, 20⟩)] }
/-- a converter with the target's key that wants a typed `5`, and a converter producing it from nothing -/
def conv7 : FuncDesc :=
  { id := 7, key := 100,
    input := { hasStruct := true, ptrs := 0, values := [⟨⟨"", 5, ""⟩, 0⟩], named := [], typed := [(5, ⟨⟨"", 5, ""⟩, 0⟩)],
               lifted := false },
    output := ValueSet.nil, hasErr := false, once := false }
def conv8 : FuncDesc :=
  { id := 8, key := 200, input := { ValueSet.nil with hasStruct := true },
    output := { hasStruct := true, ptrs := 0, values := [⟨⟨"", 5, ""⟩, 0⟩], named := [], typed := [(5, ⟨⟨"", 5, ""⟩, 0⟩)],
                lifted := false },
    hasErr := false, once := false }
def funcs : Nat → Option FuncDesc := fun i => if i = 7 then some conv7 else if i = 8 then some conv8 else none
def sameKey : Builder := { Builder.empty with named := [("a", ⟨1, 10⟩)], convs := [7, 8] }
def orc0 : List OrcItem := [{ target := .func 100, missing := [], paths := [] }]
def orc2 : List OrcItem :=
  [{ target := .func 100, missing := [.arg 5 ""], paths := [[.root, .func 200, .out 5 "", .arg 5 ""]] },
   { target := .func 200, missing := [], paths := [] }]
end CE

/-- two entries under one key: the hypotheses of the original statement hold, the call succeeds, and the
parameter receives id 20 although `exactValue` is id 10 -/
theorem counterexample_duplicate_key :
    ValueSet.KeysOK CE.target.input ∧ (∀ p ∈ CE.target.input.labels, p.name ≠ "") ∧
    ExactAll CE.dupKey CE.target ∧
    (CE.run CE.dupKey (fun _ => none) CE.orc0).1 = .ok { outs := [], err := none } ∧
    (CE.run CE.dupKey (fun _ => none) CE.orc0).2.log.map (fun ev => ev.args.map (fun a => some a.id)) = [[some 20]] ∧
    CE.target.input.labels.map (fun p => (exactValue CE.dupKey p).map (·.id)) = [some 10] := by
  refine ⟨by unfold ValueSet.KeysOK; decide, by decide, by unfold ExactAll; decide, by decide, by decide, by decide⟩

/-- a `namedSub` entry with an empty subtype overwrites the vertex of the `named` entry -/
theorem counterexample_empty_subtype :
    ValueSet.KeysOK CE.target.input ∧ (∀ p ∈ CE.target.input.labels, p.name ≠ "") ∧
    ExactAll CE.emptySub CE.target ∧
    (CE.run CE.emptySub (fun _ => none) CE.orc0).1 = .ok { outs := [], err := none } ∧
    (CE.run CE.emptySub (fun _ => none) CE.orc0).2.log.map (fun ev => ev.args.map (fun a => some a.id)) = [[some 20]] ∧
    CE.target.input.labels.map (fun p => (exactValue CE.emptySub p).map (·.id)) = [some 10] := by
  refine ⟨by unfold ValueSet.KeysOK; decide, by decide, by unfold ExactAll; decide, by decide, by decide, by decide⟩

/-- a converter with the target's key but other inputs: a second function is executed -/
theorem counterexample_same_key :
    ValueSet.KeysOK CE.target.input ∧ (∀ p ∈ CE.target.input.labels, p.name ≠ "") ∧
    ExactAll CE.sameKey CE.target ∧
    NamedOK CE.sameKey ∧
    (CE.run CE.sameKey CE.funcs CE.orc2).1 = .ok { outs := [], err := none } ∧
    (CE.run CE.sameKey CE.funcs CE.orc2).2.log.map (·.fid) = [8, 0] := by
  refine ⟨by unfold ValueSet.KeysOK; decide, by decide, by unfold ExactAll; decide, by unfold NamedOK; decide, by decide,
    by decide⟩

/-- the graph is small enough for Dijkstra's `int32` distances (any realistic call graph is) -/
def SmallGraph (g : AGraph Vtx) : Prop := (g.edges.map (fun e => e.2.2)).sum < maxInt32

/-- builders as the options produce them (every builder `build` returns is like this,
`builderOK_of_build`): `NamedOK`, and a typed entry is keyed by the dynamic type of the value it holds -/
def BuilderOK (b : Builder) : Prop :=
  NamedOK b ∧ (∀ p ∈ b.typed, p.2.ty = p.1) ∧ ∀ p ∈ b.typedSub, p.2.ty = p.1.1

theorem builderOK_of_build (opts : List Opt) (b : Builder) (h : build opts = .ok b ∨ build opts = .optErr b) :
    BuilderOK b :=
  have h' := ExactWins.build_BOK opts b h
  ⟨⟨h'.1.named_nodup, h'.1.namedSub_nodup, h'.1.namedSub_sub⟩, h'.2.typed_ty, h'.2.typedSub_ty⟩

/- ORIGINAL STATEMENT of `exact_wins` — FALSE (corrected below: hypothesis `hb : BuilderOK b` added).

    theorem exact_wins (e : TypeEnv) (b : Builder) (funcs : Nat → Option FuncDesc) (target : FuncDesc)
        (hc : C01.FuncsConsistent (C01.allFuncs b funcs target)) (hex : ExactAll b target)
        (hsmall : SmallGraph (callGraph {} e b funcs target false none).cg.g)
        (beh : Nat → Nat → List PVal → BehOut) (fuel : Nat) (hfuel : 0 < fuel)
        (memo : List (Nat × Memo)) (orc : List OrcItem) (hm : mapGet memo target.id = none)
        (hleg : ∀ it ∈ orc, LegalItem (callGraph {} e b funcs target false none).cg.g it) :
        let r := callWith (C01.stdCtx e b funcs target beh) (callGraph {} e b funcs target false none) target fuel
                  (initSt (callGraph {} e b funcs target false none).cg memo orc)
        (∃ w, r.1 = .badOracle w) ∨
        (∃ ev, r.2.log = [ev] ∧ ev.fid = target.id ∧
          ∀ (i : Nat) (p : Label) (a : PVal), ev.params[i]? = some p → ev.args[i]? = some a →
            (p.name ≠ "" → some a.id = (exactValue b p).map (·.id)) ∧
            (p.name = "" → a.org.isOrigin = true ∧ a.org.ty = p.ty ∧
              ∃ v, mapGet (callGraph {} e b funcs target false none).cg.store a.org = some v ∧ v.id = a.id))

Why it fails: as for `exact_wins_named`, `Builder` is an arbitrary record.
* Two `named` entries under one key make the parameter receive the last one while `exactValue` reads the
  first (`counterexample_duplicate_key_typed` — the builder of `counterexample_duplicate_key`, now with
  all hypotheses of this statement).
* A typed entry filed under a key other than its value's type (`b.typed = [(1, ⟨2,10⟩)]`, impossible with
  `Typed(...)`, which keys by `reflect.TypeOf`) satisfies `ExactAll` for a parameter of type 1, but the value
  of type 2 is not assignable to the argument vertex: the legal path `[root, out 1, arg 1]` ends without a
  final value and `Call` panics (`counterexample_typed_key`). -/

/-- **C03_exact_wins (type-only parameters)**, corrected — for every *legal* oracle: with an exactly
matching typed value supplied for every type-only parameter (and exactly matching named values for the
named ones), no converter is executed and each type-only parameter receives a supplied value of
exactly its type.  Uses the exactness of Dijkstra (C18): the direct path costs `normal + typed`, any
path through a function vertex costs at least `normal + typed + normal`. -/
theorem exact_wins (e : TypeEnv) (b : Builder) (funcs : Nat → Option FuncDesc) (target : FuncDesc)
    (hb : BuilderOK b)
    (hc : C01.FuncsConsistent (C01.allFuncs b funcs target)) (hex : ExactAll b target)
    (hsmall : SmallGraph (callGraph {} e b funcs target false none).cg.g)
    (beh : Nat → Nat → List PVal → BehOut) (fuel : Nat) (hfuel : 0 < fuel)
    (memo : List (Nat × Memo)) (orc : List OrcItem) (hm : mapGet memo target.id = none)
    (hleg : ∀ it ∈ orc, LegalItem (callGraph {} e b funcs target false none).cg.g it) :
    let r := callWith (C01.stdCtx e b funcs target beh) (callGraph {} e b funcs target false none) target fuel
              (initSt (callGraph {} e b funcs target false none).cg memo orc)
    (∃ w, r.1 = .badOracle w) ∨
    (∃ ev, r.2.log = [ev] ∧ ev.fid = target.id ∧
      ∀ (i : Nat) (p : Label) (a : PVal), ev.params[i]? = some p → ev.args[i]? = some a →
        (p.name ≠ "" → some a.id = (exactValue b p).map (·.id)) ∧
        (p.name = "" → a.org.isOrigin = true ∧ a.org.ty = p.ty ∧
          ∃ v, mapGet (callGraph {} e b funcs target false none).cg.store a.org = some v ∧ v.id = a.id)) :=
  ExactWins.exact_wins_aux e b funcs target
    ⟨⟨hb.1.1, hb.1.2.1, hb.1.2.2⟩, ⟨hb.2.1, hb.2.2⟩⟩ hc hex hsmall beh fuel hfuel memo orc hm hleg

/-! ### the counterexamples to the original statement of `exact_wins` -/

namespace CE
def inT : ValueSet :=
  { hasStruct := true, ptrs := 0, values := [⟨⟨"", 1, ""⟩, 0⟩], named := [], typed := [(1, ⟨⟨"", 1, ""⟩, 0⟩)],
    lifted := false }
def targetT : FuncDesc := { id := 0, key := 100, input := inT, output := ValueSet.nil, hasErr := false, once := false }
/-- a value of type 2 filed under the key 1 -/
def badKey : Builder := { Builder.empty with typed := [(1, ⟨2, 10⟩)] }
def orcT : List OrcItem :=
  [{ target := .func 100, missing := [.arg 1 ""], paths := [[.root, .out 1 "", .arg 1 ""]] }]
def runT : Outcome × CallSt :=
  callWith (C01.stdCtx env badKey (fun _ => none) targetT beh) (callGraph {} env badKey (fun _ => none) targetT false none)
    targetT 5 (initSt (callGraph {} env badKey (fun _ => none) targetT false none).cg [] orcT)
end CE

/-- all hypotheses of the original `exact_wins` hold for the duplicate-key builder, and the parameter still
receives id 20 instead of `exactValue`'s id 10 -/
theorem counterexample_duplicate_key_typed :
    C01.FuncsConsistent (C01.allFuncs CE.dupKey (fun _ => none) CE.target) ∧ ExactAll CE.dupKey CE.target ∧
    SmallGraph (callGraph {} CE.env CE.dupKey (fun _ => none) CE.target false none).cg.g ∧
    (∀ it ∈ CE.orc0, LegalItem (callGraph {} CE.env CE.dupKey (fun _ => none) CE.target false none).cg.g it) ∧
    (CE.run CE.dupKey (fun _ => none) CE.orc0).1 = .ok { outs := [], err := none } ∧
    (CE.run CE.dupKey (fun _ => none) CE.orc0).2.log.map (fun ev => ev.args.map (fun a => some a.id)) = [[some 20]] ∧
    CE.target.input.labels.map (fun p => (exactValue CE.dupKey p).map (·.id)) = [some 10] := by
  refine ⟨by unfold C01.FuncsConsistent ValueSet.KeysOK; decide, by unfold ExactAll; decide,
    by unfold SmallGraph; decide, ?_, by decide, by decide, by decide⟩
  intro it hit i cur path h1
  simp only [CE.orc0, List.mem_singleton] at hit
  subst hit
  simp at h1

/-- a typed value filed under a key that is not its type: every hypothesis of the original statement holds
(the oracle's path is Dijkstra's, for the pop order shown), and `Call` panics -/
theorem counterexample_typed_key :
    C01.FuncsConsistent (C01.allFuncs CE.badKey (fun _ => none) CE.targetT) ∧ ExactAll CE.badKey CE.targetT ∧
    SmallGraph (callGraph {} CE.env CE.badKey (fun _ => none) CE.targetT false none).cg.g ∧
    (∀ it ∈ CE.orcT, LegalItem (callGraph {} CE.env CE.badKey (fun _ => none) CE.targetT false none).cg.g it) ∧
    CE.runT.1 = .panic .finalValue ∧ CE.runT.2.log = [] := by
  refine ⟨by unfold C01.FuncsConsistent ValueSet.KeysOK; decide, by unfold ExactAll; decide,
    by unfold SmallGraph; decide, ?_, by decide, by decide⟩
  intro it hit i cur path h1 h2
  simp only [CE.orcT, List.mem_singleton] at hit
  subst hit
  have hi : i = 0 := by
    cases i with
    | zero => rfl
    | succ j => simp at h1
  subst hi
  simp only [List.getElem?_cons_zero, Option.some.injEq] at h1 h2
  subst h1; subst h2
  refine ⟨[.root, .out 1 "", .arg 1 "", .func 100], ⟨by decide, by decide, by decide⟩, by decide⟩

end ArgMapper.C03
