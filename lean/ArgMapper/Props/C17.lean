import ArgMapper.Model.Result
/-!
# C17 — result accessors partition the function's return values correctly
Property theorems only.
-/
namespace ArgMapper.C17
open ArgMapper

/-- a successful call of a function returning `vals` followed by a final `error` -/
def withErr (vals : List RVal) (e : Option Nat) : Result :=
  { out := vals ++ [{ ty := errorTy, id := e }], buildErr := none }

/-- … and of a function whose result list does not end in the `error` interface type -/
def plain (vals : List RVal) : Result := { out := vals, buildErr := none }

/-- **C17_partition (final error)** — length `k`, `i`-th output = `i`-th returned value, `Err` = the
final error value (`none` when nil).  `vals` is arbitrary: an `error`-typed value in a non-final
position is an ordinary output. -/
theorem partition_err (vals : List RVal) (e : Option Nat) :
    (withErr vals e).len = vals.length ∧
    (∀ i, i < vals.length → (withErr vals e).outAt i = vals[i]?) ∧
    (withErr vals e).err = e := by
  refine ⟨?_, ?_, ?_⟩
  · simp [withErr, Result.len, Result.hasError]
  · intro i hi
    simp [withErr, Result.outAt, List.getElem?_append_left hi]
  · simp [withErr, Result.err]

/-- **C17_partition (no final error)** — when the last declared result is not of type `error`
(for instance a concrete error type) every returned value is an ordinary output and `Err` is nil. -/
theorem partition_plain (vals : List RVal) (h : ∀ v, vals.getLast? = some v → v.ty ≠ errorTy) :
    (plain vals).len = vals.length ∧
    (∀ i, (plain vals).outAt i = vals[i]?) ∧
    (plain vals).err = none := by
  refine ⟨?_, ?_, ?_⟩
  · have hf : (plain vals).hasError = false := by
      simp only [plain, Result.hasError]
      split
      · next v hl => simpa using h v hl
      · rfl
    simp only [Result.len, hf]
    simp [plain]
  · intro i; rfl
  · simp only [plain, Result.err]
    split
    · next v hl => simp [h v hl]
    · rfl

/-- **C17_resolution_failure** — when resolution itself fails the result has length 0 and a
non-nil error. -/
theorem resolution_failure (e : Nat) : (resultError e).len = 0 ∧ (resultError e).err = some e := by
  simp [resultError, Result.len, Result.hasError, Result.err]

/-- non-vacuity: error in the middle, concrete error type (id 20) last -/
example : (plain [⟨0, some 1⟩, ⟨errorTy, some 2⟩, ⟨20, some 3⟩]).len = 3 ∧
    (plain [⟨0, some 1⟩, ⟨errorTy, some 2⟩, ⟨20, some 3⟩]).err = none ∧
    (withErr [⟨errorTy, some 2⟩] (some 9)).len = 1 := by
  decide

end ArgMapper.C17
