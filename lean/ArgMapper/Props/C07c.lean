import ArgMapper.Model.Reach
import ArgMapper.Proofs.AffinityExec
/-! C07, execution level (see Props/C07a.lean for the overview) -/
namespace ArgMapper.C07
open ArgMapper AGraph Generated

/-! ### execution level -/

/-- Walking a path that starts `root, u, a, func k` where `a` is the type-only argument vertex and
the converter `f` at `func k` has that single type-only input: `f` is executed exactly once, on the
value held by `u` — whatever else the store holds, whatever the behaviours. -/
theorem walk_converts_feeder (c : Ctx) (fuel : Nat) (reaching : List Vtx) (s : CallSt) (n : String) (tu : Nat)
    (su : String) (t : Nat) (k : Nat) (f : FuncDesc) (x : PVal) (item : OrcItem) (orest : List OrcItem)
    (hx : s.get (.value n tu su) = some x) (hassign : c.env.assignable x.ty t = true)
    (hf : c.funcOf k = some f) (honce : f.once = false)
    (hreq : c.g.outs (.func k) = [.arg t ""])
    (hin : f.input.values.map (fun v => v.lab.vertex) = [.arg t ""])
    (hlabty : ∀ v ∈ f.input.values, v.lab.ty = t)
    (horc : s.orc = item :: orest) (hitem : item.target = .func k) (hmiss : item.missing = [])
    (hpub : c.publishAfterUpdate = true) (hskip : c.skipRecordsInput = false) :
    let w := [Vtx.root, .value n tu su, .arg t "", .func k].foldl
      (walkStep c (fun v st => reach c false (fuel + 1) reaching v st)) { s := s, final := none, prev := none, err := none }
    ∃ ev, w.s.log = s.log ++ [ev] ∧ ev.fid = f.id ∧ ev.args = [{ ty := t, id := x.id, org := x.org }] := by
  intro w
  have hw : w = walkStep c (fun v st => reach c false (fuel + 1) reaching v st)
      { s := ({ s with last := some x } : CallSt).set (.arg t "") (some x), final := some x,
        prev := some (.arg t ""), err := none } (.func k) := by
    rw [← AffinityExec.walk_root_value_arg c _ s n tu su t x hx hassign]; rfl
  obtain ⟨ev, hlog, hfid, hargs⟩ := AffinityExec.walkStep_func_single c fuel reaching
    { s := ({ s with last := some x } : CallSt).set (.arg t "") (some x), final := some x,
      prev := some (.arg t ""), err := none } rfl k f (.arg t "") t x item orest hf honce hreq rfl
    (by simp only [takenAsIs, AffinityExec.get_set_self, Option.isSome_some])
    (AffinityExec.get_set_self _ _ _) hin hlabty hassign (by simpa using horc) hitem hmiss hskip
  exact ⟨ev, by rw [hw, hlog]; simp, hfid, hargs⟩

/-- Walking a path that starts `root, u, func k` where the converter `f` at `func k` takes the named
value `u` itself: `f` is executed exactly once, on the value held by `u`, and nothing else runs. -/
theorem walk_runs_named_converter (c : Ctx) (fuel : Nat) (reaching : List Vtx) (s : CallSt) (n : String) (tu : Nat)
    (su : String) (k : Nat) (f : FuncDesc) (x : PVal) (item : OrcItem) (orest : List OrcItem)
    (hx : s.get (.value n tu su) = some x)
    (hf : c.funcOf k = some f) (honce : f.once = false)
    (hreq : c.g.outs (.func k) = [.value n tu su])
    (hin : f.input.values.map (fun v => v.lab.vertex) = [.value n tu su])
    (hlabty : ∀ v ∈ f.input.values, v.lab.ty = tu) (hxt : x.ty = tu)
    (horc : s.orc = item :: orest) (hitem : item.target = .func k) (hmiss : item.missing = [])
    (htake : c.takeValuedNamed = true) (hskip : c.skipRecordsInput = false) :
    let w := [Vtx.root, .value n tu su, .func k].foldl
      (walkStep c (fun v st => reach c false (fuel + 1) reaching v st)) { s := s, final := none, prev := none, err := none }
    ∃ ev, w.s.log = s.log ++ [ev] ∧ ev.fid = f.id ∧ ev.args = [{ ty := tu, id := x.id, org := x.org }] := by
  intro w
  have hw : w = walkStep c (fun v st => reach c false (fuel + 1) reaching v st)
      { s := { s with last := some x }, final := some x, prev := some (.value n tu su), err := none } (.func k) := by
    rw [← AffinityExec.walk_root_value c _ s n tu su x hx]; rfl
  have hget : ({ s with last := some x } : CallSt).get (.value n tu su) = some x := hx
  obtain ⟨ev, hlog, hfid, hargs⟩ := AffinityExec.walkStep_func_single c fuel reaching
    { s := { s with last := some x }, final := some x, prev := some (.value n tu su), err := none }
    rfl k f (.value n tu su) tu x item orest hf honce hreq rfl
    (by simp only [takenAsIs, htake, hget, Option.isSome_some, Bool.and_self])
    hget hin hlabty (by rw [hxt]; exact AffinityExec.assignable_refl _ _) horc hitem hmiss hskip
  exact ⟨ev, by rw [hw, hlog], hfid, hargs⟩

end ArgMapper.C07
