import ArgMapper.Props.C07a
import ArgMapper.Proofs.AffinityCG2
import ArgMapper.Proofs.AffinityCGCE
/-! C07, call-graph level (see Props/C07a.lean for the overview) -/
namespace ArgMapper.C07
open ArgMapper AGraph Generated

/-! ### call-graph level -/

/-- premise of family A on a (pruned) call graph, requirement direction: the converter's type-only
input `a` can be provided only by named values that depend on the root alone, exactly one of which
(`ustar`) carries the parameter's name `n`.  Decidable; the driver evaluates it on real graphs. -/
def famA (g : AGraph Vtx) (n : String) (a ustar : Vtx) : Bool :=
  decide (Vtx.root ∈ g.verts) && a.isArg && ustar.isValue && decide (ustar.name = n) &&
  g.hasEdge a ustar &&
  (g.outsW a).all (fun p =>
    p.1.isValue && decide (1 ≤ p.2) && decide (p.2 ≤ 1000) &&
    decide (g.outsW p.1 = [(Vtx.root, weightNormal)]) &&
    (decide (p.1 = ustar) || decide (p.1.name ≠ n)))

/-- **Family A, call-graph level.**  For a named requirement `cur` with name `n`: whenever the path
chosen by the real algorithm (any legal pop order) runs through the converter's type-only input `a`,
it enters it from the root through the same-named supplied value. -/
theorem affinity_path (g : AGraph Vtx) (hwf : g.WF) (n : String) (S : Nat) (sc : String) (a ustar : Vtx)
    (pops : List Vtx)
    (hfam : famA g n a ustar = true)
    (hleg : legalChoice g (.value n S sc) pops = true)
    (hmem : a ∈ choosePath g (.value n S sc) pops) :
    ∃ rest, choosePath g (.value n S sc) pops = Vtx.root :: ustar :: a :: rest := by
  simp only [famA, Bool.and_eq_true, Bool.or_eq_true, decide_eq_true_eq, List.all_eq_true] at hfam
  obtain ⟨⟨⟨⟨⟨hroot, ha⟩, hus⟩, hun⟩, he⟩, hall⟩ := hfam
  refine AffinityCG.affinity_path_aux g hwf n S sc a ustar pops hroot ha hus hun he ?_ hleg hmem
  intro p hp
  obtain ⟨⟨⟨⟨h1, h2⟩, h3⟩, h4⟩, h5⟩ := hall p hp
  exact ⟨h1, h2, h3, h4, h5⟩

/-- premise of family B: `u` is a supplied named value (depends on the root alone); the type-only
converter `f1` requires only `a`, which only `u` provides; the name-using converter `f2` requires only
`u`; `o` (a typed output, or the parameter vertex) is provided by `f1` and `f2` only.

CORRECTED: the conjunct `decide (o ≠ Vtx.root)` was added.  The premise as first stated,
```
def famB (g : AGraph Vtx) (n : String) (u a o : Vtx) (k1 k2 : Nat) : Bool :=
  decide (Vtx.root ∈ g.verts) && u.isValue && decide (u.name = n) && a.isArg && !o.isValue &&
  decide (g.outsW u = [(Vtx.root, weightNormal)]) && … (the rest as below)
```
allows `o = root` (a graph in which the root itself requires both converters); the root is popped
first, never gets a predecessor and heads every path, so `named_converter_path` is false there.
Checked counterexample: `AffinityCGCE.hyps`, `AffinityCGCE.concl_fails`
(`ArgMapper/Proofs/AffinityCGCE.lean`).  Every other distinctness fact the proof needs follows from
the premise. -/
def famB (g : AGraph Vtx) (n : String) (u a o : Vtx) (k1 k2 : Nat) : Bool :=
  decide (Vtx.root ∈ g.verts) && u.isValue && decide (u.name = n) && a.isArg && !o.isValue &&
  decide (o ≠ Vtx.root) &&
  decide (g.outsW u = [(Vtx.root, weightNormal)]) &&
  decide (g.outsW a = [(u, weightTyped)]) &&
  decide (g.outsW (.func k1) = [(a, weightTyped)]) &&
  decide (g.outsW (.func k2) = [(u, weightNormal)]) &&
  decide (k1 ≠ k2) &&
  ((g.outsW o).all (fun p => decide (p.2 = weightTyped) && (decide (p.1 = .func k1) || decide (p.1 = .func k2)))) &&
  g.hasEdge o (.func k1) && g.hasEdge o (.func k2)

/-- **Family B, call-graph level** (both converters have a typed output): whenever the chosen path
runs through `o`, it reaches it through the name-using converter `f2`, never through `f1`. -/
theorem named_converter_path (g : AGraph Vtx) (hwf : g.WF) (n : String) (S : Nat) (sc : String) (u a o : Vtx)
    (k1 k2 : Nat) (pops : List Vtx)
    (hfam : famB g n u a o k1 k2 = true)
    (hleg : legalChoice g (.value n S sc) pops = true)
    (hmem : o ∈ choosePath g (.value n S sc) pops) :
    ∃ rest, choosePath g (.value n S sc) pops = Vtx.root :: u :: .func k2 :: o :: rest := by
  simp only [famB, Bool.and_eq_true, Bool.or_eq_true, Bool.not_eq_true', decide_eq_true_eq,
    List.all_eq_true] at hfam
  obtain ⟨⟨⟨⟨⟨⟨⟨⟨⟨⟨⟨⟨⟨hroot, hu⟩, hun⟩, ha⟩, hoV⟩, hor⟩, hou⟩, hoa⟩, hof1⟩, hof2⟩, hk⟩, hoo⟩, he1⟩, he2⟩ := hfam
  exact AffinityCG.named_converter_path_aux g hwf n S sc u a o k1 k2 pops hroot hu hun ha hoV hor hou hoa
    hof1 hof2 hk hoo he1 he2 hleg hmem

/-- premise of family B when the name-using converter has a *named* output: it provides the parameter
vertex `cur` directly, the type-only converter provides it through its typed output vertex `o'`. -/
def famB' (g : AGraph Vtx) (n : String) (u a o' cur : Vtx) (k1 k2 : Nat) : Bool :=
  decide (Vtx.root ∈ g.verts) && u.isValue && decide (u.name = n) && a.isArg && o'.isOut &&
  decide (g.outsW u = [(Vtx.root, weightNormal)]) &&
  decide (g.outsW a = [(u, weightTyped)]) &&
  decide (g.outsW (.func k1) = [(a, weightTyped)]) &&
  decide (g.outsW (.func k2) = [(u, weightNormal)]) &&
  decide (k1 ≠ k2) &&
  decide (g.outsW o' = [(.func k1, weightTyped)]) &&
  decide (g.weight cur o' = some weightTyped) && decide (g.weight cur (.func k2) = some weightNormal) &&
  (g.outs cur).all (fun x => decide (x = o') || decide (x = .func k2))

/-- **Family B, call-graph level** (the name-using converter has a named output): the chosen path for
the parameter reaches it through the name-using converter `f2`. -/
theorem named_converter_path' (g : AGraph Vtx) (hwf : g.WF) (n : String) (S : Nat) (sc : String) (u a o' : Vtx)
    (k1 k2 : Nat) (pops : List Vtx)
    (hfam : famB' g n u a o' (.value n S sc) k1 k2 = true)
    (hleg : legalChoice g (.value n S sc) pops = true) :
    choosePath g (.value n S sc) pops = [Vtx.root, u, .func k2, .value n S sc] := by
  simp only [famB', Bool.and_eq_true, Bool.or_eq_true, decide_eq_true_eq, List.all_eq_true] at hfam
  obtain ⟨⟨⟨⟨⟨⟨⟨⟨⟨⟨⟨⟨⟨hroot, hu⟩, hun⟩, ha⟩, hoO⟩, hou⟩, hoa⟩, hof1⟩, hof2⟩, hk⟩, hoo⟩, hw1⟩, hw2⟩, hall⟩ := hfam
  exact AffinityCG.named_converter_path'_aux g hwf n S sc u a o' k1 k2 pops hroot hu hun ha hoO hou hoa
    hof1 hof2 hk hoo hw1 hw2 hall hleg

end ArgMapper.C07
