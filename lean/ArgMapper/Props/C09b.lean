import ArgMapper.Model.Hist
/-!
# C09: Redefine is invisible to every later use

Stated as a refinement: a history of `Call`s and `Redefine`s on shared function objects shows its
callers — in every `Call` — exactly what the same history *without the Redefines* shows, and leaves
the function objects in the same state.  Together with `C09.redefine_ignores_original_behaviour`
(no original body runs during planning) this is the property: "after any number of Redefine calls
the original function and every converter behave exactly as before … a run-once converter still
executes (once) on its first real use".

The model's `Redefine` has no state result *by construction*; that the real code agrees is what the
`hist` and `redef` correspondence runs check (execution counters, value-set snapshots and memo
effects around every real Redefine).
-/
namespace ArgMapper.C09

/-- a Redefine leaves the function objects as they were -/
theorem redefine_keeps_state (fuel : Nat) (h : HistState) (c : Ctx) (cgr : CallGraphResult) (t : FuncDesc)
    (fo : Option Filter) (orc : List OrcItem) :
    (histStep fuel h (.redefine c cgr t fo orc)).1 = h := rfl

/-- **refinement**: dropping the Redefines from a history changes neither the final state of the
function objects nor anything a `Call` of the history returns or executes -/
theorem redefines_transparent (fuel : Nat) (h : HistState) (ops : List HistOp) :
    (runHist fuel h ops).1 = (runHist fuel h (ops.filter HistOp.isCall)).1 ∧
    (runHist fuel h ops).2.filter HistObs.isCall = (runHist fuel h (ops.filter HistOp.isCall)).2 := by
  induction ops generalizing h with
  | nil => exact ⟨rfl, rfl⟩
  | cons op rest ih =>
    cases op with
    | call c cgr t orc =>
      have := ih (histStep fuel h (.call c cgr t orc)).1
      simp only [List.filter, HistOp.isCall, runHist, histStep, HistObs.isCall] at this ⊢
      exact ⟨this.1, by rw [this.2]⟩
    | redefine c cgr t fo orc =>
      have := ih h
      simp only [List.filter, HistOp.isCall, runHist, histStep, HistObs.isCall] at this ⊢
      exact this

/-- any number of Redefines in a row leaves every run-once cell as it was: a function that has not
run yet still has no result, so its first real use executes its body -/
theorem redefines_keep_memo (fuel : Nat) (h : HistState) (ops : List HistOp)
    (hall : ∀ op ∈ ops, op.isCall = false) :
    (runHist fuel h ops).1 = h := by
  have h1 := (redefines_transparent fuel h ops).1
  have : ops.filter HistOp.isCall = [] := by
    apply List.filter_eq_nil_iff.mpr
    intro op hop; simp [hall op hop]
  rw [h1, this]; rfl

/-- … and the calls after them return what they return without them -/
theorem call_after_redefines (fuel : Nat) (h : HistState) (rds : List HistOp)
    (hall : ∀ op ∈ rds, op.isCall = false) (c : Ctx) (cgr : CallGraphResult) (t : FuncDesc) (orc : List OrcItem) :
    (runHist fuel h (rds ++ [.call c cgr t orc])).2.filter HistObs.isCall
      = (runHist fuel h [.call c cgr t orc]).2 := by
  have h2 := (redefines_transparent fuel h (rds ++ [.call c cgr t orc])).2
  have : (rds ++ [HistOp.call c cgr t orc]).filter HistOp.isCall = [.call c cgr t orc] := by
    rw [List.filter_append]
    have : rds.filter HistOp.isCall = [] := by
      apply List.filter_eq_nil_iff.mpr
      intro op hop; simp [hall op hop]
    simp [this, HistOp.isCall]
  rw [h2, this]

end ArgMapper.C09
