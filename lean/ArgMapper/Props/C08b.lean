import ArgMapper.Props.C05
import ArgMapper.Props.C08
import ArgMapper.Proofs.RedefStatic
/-!
# C08 (continued) — Redefine succeeds whenever every target parameter is permitted by the input filter

Property theorem only.  Fragment of the property's premise: converters with at most one input, no
subtype labels, each name denoting a single type (compared the way `reflect.StructOf` compares field
names: after upper-casing the first letter).  For **every oracle** (any requirement order, any
root-first real paths) and an empty memo table.
-/
namespace ArgMapper.C08
open ArgMapper

/-- the context the planning run of `Redefine` executes in: the graph with the filter-gated root edges,
stand-in bodies that return zero values -/
def redefCtx (e : TypeEnv) (b : Builder) (funcs : Nat → Option FuncDesc) (target : FuncDesc)
    (fin : Option Filter) (outCount : Nat → Nat) : Ctx :=
  { env := e, g := (callGraph {} e b funcs target true fin).cg.g,
    funcOf := fun k => (C01.allFuncs b funcs target).find? (fun f => f.key == k), beh := zeroBeh outCount }

/-- each name denotes a single type: two labels of the scenario (supplied values, parameters, results)
whose names give the same struct field name have the same type -/
def NamesSingleType (b : Builder) (fs : List FuncDesc) : Prop :=
  let ls : List Label := b.named.map (fun p => { name := p.1, ty := p.2.ty, sub := "" }) ++
    fs.flatMap (fun f => f.input.labels ++ f.output.labels)
  ∀ l₁ ∈ ls, ∀ l₂ ∈ ls, l₁.name ≠ "" → upper l₁.name = upper l₂.name → l₁.name = l₂.name ∧ l₁.ty = l₂.ty

/-- **C08_succeeds_when_permitted (subtype-free)** — every parameter of the target passes the input
filter and the output filter admits its results: the planning run succeeds, for every oracle. -/
theorem succeeds_when_permitted (e : TypeEnv) (ht : ImplTrans e)
    (b : Builder) (funcs : Nat → Option FuncDesc) (target : FuncDesc)
    (hc : C01.FuncsConsistent (C01.allFuncs b funcs target))
    (hsf : C05.SubtypeFree b (C01.allFuncs b funcs target))
    (hsi : C05.SingleInput (b.convs.filterMap funcs))
    (hwf : C05.SetsWF (b.convs.filterMap funcs))
    (htk : C05.TypedKeysOK b)
    (hkey : ∀ f ∈ b.convs.filterMap funcs, f.key ≠ target.key)
    (hnames : NamesSingleType b (C01.allFuncs b funcs target))
    (fin fout : Option Filter)
    (hperm : ∀ l ∈ target.input.labels, passes e fin l.ty = true)
    (hout : outputsPass e target fout = true)
    (outCount : Nat → Nat) (fuel : Nat) (hfuel : 2 ≤ fuel) (orc : List OrcItem) :
    let cgr := callGraph {} e b funcs target true fin
    let r := redefine (redefCtx e b funcs target fin outCount) cgr target fout fuel (initSt cgr.cg [] orc)
    (∃ ls, r = .ok ls) ∨ (∃ w, r = .badOracle w) := by
  intro cgr r
  have H : Complete.Hyps e b funcs target := ⟨hc, hsf.1, hsf.2.1, hsf.2.2, hsi, htk, hkey, hwf⟩
  have hperm' : ∀ l ∈ target.input.labels, RedefineInputs.passesF e fin l.ty = true := by
    intro l hl
    have := hperm l hl
    unfold passes at this
    unfold RedefineInputs.passesF
    exact this
  exact RedefC.redefine_succeeds H ht hnames fin fout hperm' hout outCount fuel hfuel orc

end ArgMapper.C08
