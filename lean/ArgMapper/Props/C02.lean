import ArgMapper.Props.C01b
import ArgMapper.Proofs.Refused
/-!
# C02 — unsatisfiable calls are refused: the target never runs

Property theorems only (helper lemmas in `ArgMapper/Proofs/Refused.lean`).  The graph-level half
(a hopeless parameter is reported by `callGraph` before anything runs) is `C13.hopeless_reported`;
this file is the execution-level half: whatever the oracle does, a target with an underivable
parameter is never executed, and no function is executed with a missing argument.
-/
namespace ArgMapper.C02
open ArgMapper

/-- labels of the supplied values -/
def suppliedLabels (b : Builder) : List Label :=
  b.named.map (fun p => { name := p.1, ty := p.2.ty, sub := "" }) ++
  b.namedSub.map (fun p => { name := p.1.1, ty := p.2.ty, sub := p.1.2 }) ++
  b.typed.map (fun p => { name := "", ty := p.1, sub := "" }) ++
  b.typedSub.map (fun p => { name := "", ty := p.1.1, sub := p.1.2 })

/-- a parameter no derivable label is compatible with (derivability under the matching table) -/
def Underivable (e : TypeEnv) (b : Builder) (convs : List FuncDesc) (p : Label) : Prop :=
  ∀ o, Deriv e (suppliedLabels b) convs o → compatB e p o = false

/-- the supplied labels are the labels of the vertices `inputsGraph` creates (and stores values at) -/
theorem suppliedLabels_eq (b : Builder) : suppliedLabels b = (Prune.inputsList b).map Vtx.label := by
  simp [suppliedLabels, Prune.inputsList, List.map_append, List.map_map, Function.comp_def, Vtx.label]

/-- **C02_refused** — if some parameter of the target is underivable, then for every behaviour, oracle
and fuel: the target is not executed and the call does not succeed; every function that *is*
executed received a full argument list (`C01.injection_sound`).

Corrected statement: the original (below, in a comment) lacks `hids` and is false — see
`refused_original_false`.  `hids`: run-once converters that share an `id` (the key of the memo table)
are functions of the same Go type (share their function vertex).  In the Go code the memo lives in
the function object itself, so distinct function objects never share it; in the model the memo
table is keyed by `FuncDesc.id`, and nothing in the original hypotheses ties ids to function objects
other than the target's (`hid`). -/
theorem refused (e : TypeEnv) (ht : ImplTrans e) (ha : ImplAntisym e)
    (b : Builder) (funcs : Nat → Option FuncDesc) (target : FuncDesc)
    (hc : C01.FuncsConsistent (C01.allFuncs b funcs target))
    (hid : ∀ f ∈ C01.allFuncs b funcs target, f.id = target.id → f = target)
    (hids : ∀ f ∈ b.convs.filterMap funcs, ∀ g ∈ b.convs.filterMap funcs,
      f.once = true → g.once = true → f.id = g.id → f.key = g.key)
    (p : Label) (hp : p ∈ target.input.labels)
    (hu : Underivable e b (b.convs.filterMap funcs) p)
    (beh : Nat → Nat → List PVal → BehOut) (fuel : Nat) (orc : List OrcItem) :
    -- no run-once result memoised by an earlier call (such a result is available without its inputs)
    let r := callWith (C01.stdCtx e b funcs target beh) (callGraph {} e b funcs target false none) target fuel
              (initSt (callGraph {} e b funcs target false none).cg [] orc)
    (∀ ev ∈ r.2.log, ev.fid ≠ target.id) ∧ (∀ res, r.1 ≠ .ok res) :=
  Refused.refused_core e b funcs target (suppliedLabels b) ht ha hc hid hids
    (fun u hu' => by rw [suppliedLabels_eq]; exact List.mem_map.2 ⟨u, hu', rfl⟩)
    p hp hu beh fuel orc

/- ORIGINAL STATEMENT of `refused` — FALSE (corrected above; it had no hypothesis `hids`):

    theorem refused (e : TypeEnv) (ht : ImplTrans e) (ha : ImplAntisym e)
        (b : Builder) (funcs : Nat → Option FuncDesc) (target : FuncDesc)
        (hc : C01.FuncsConsistent (C01.allFuncs b funcs target))
        (hid : ∀ f ∈ C01.allFuncs b funcs target, f.id = target.id → f = target)
        (p : Label) (hp : p ∈ target.input.labels)
        (hu : Underivable e b (b.convs.filterMap funcs) p)
        (beh : Nat → Nat → List PVal → BehOut) (fuel : Nat) (orc : List OrcItem) :
        let r := callWith (C01.stdCtx e b funcs target beh) (callGraph {} e b funcs target false none) target fuel
                  (initSt (callGraph {} e b funcs target false none).cg [] orc)
        (∀ ev ∈ r.2.log, ev.fid ≠ target.id) ∧ (∀ res, r.1 ≠ .ok res)

Why it fails: `callDirect` looks a run-once function up in the memo table under `f.id` *before*
gathering its arguments, and `funcs` may map two entries of `b.convs` to function objects with the same
`id`.  Counterexample (`Refused.Cex`, checked by `decide` below): no interfaces; converters
`fA : () → A` (id 7, key 1, once) and `fB : (A, W) → B` (id 7, key 2, once), nothing supplies or
returns `W`; target `(A, B) → ()` (id 0, key 0).  `W` has no path to the root, so `arg W` is pruned and
`func 2` keeps the single requirement `arg A`; `B` is underivable.  With the oracle
`[root, func 1, out A, arg A]`, `[root, func 1, out A, arg A, func 2, out B, arg B]` the walk
executes `fA` (memo cell 7), reaches `func 2` with `arg A` satisfied, `callDirect fB` hits memo cell 7
and returns `fA`'s result without executing `fB`, `outputValues` writes it to `out B`, and the target
is executed with both arguments: log ids `[7, 0]`, outcome `.ok`. -/

/-- the original statement of `refused` (without `hids`) is false -/
theorem refused_original_false :
    ∃ (e : TypeEnv) (b : Builder) (funcs : Nat → Option FuncDesc) (target : FuncDesc) (p : Label)
      (beh : Nat → Nat → List PVal → BehOut) (fuel : Nat) (orc : List OrcItem),
      ImplTrans e ∧ ImplAntisym e ∧ C01.FuncsConsistent (C01.allFuncs b funcs target) ∧
      (∀ f ∈ C01.allFuncs b funcs target, f.id = target.id → f = target) ∧
      p ∈ target.input.labels ∧ Underivable e b (b.convs.filterMap funcs) p ∧
      ¬ ((∀ ev ∈ (callWith (C01.stdCtx e b funcs target beh) (callGraph {} e b funcs target false none)
                    target fuel (initSt (callGraph {} e b funcs target false none).cg [] orc)).2.log,
            ev.fid ≠ target.id) ∧
         (∀ res, (callWith (C01.stdCtx e b funcs target beh) (callGraph {} e b funcs target false none)
                    target fuel (initSt (callGraph {} e b funcs target false none).cg [] orc)).1 ≠ .ok res)) := by
  open Refused.Cex in
  refine ⟨e0, b0, funcs0, tgt, lB, beh0, 5, orc0, ?_, ?_, consistent, target_id, ?_,
    underivable_B _ rfl, ?_⟩
  · intro a b c h; cases h
  · intro a b _ _ h; cases h
  · decide
  · intro h
    exact h.2 _ run.2

end ArgMapper.C02
