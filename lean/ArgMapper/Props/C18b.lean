import ArgMapper.Props.C18
import ArgMapper.Proofs.DijkstraCorollaries
/-!
# C18 (continued) — consequences a caller relies on

All for non-negative weights without `int32` overflow (`NoOverflow`) and any *legal* pop order, i.e.
whatever order the heap and Go's map iteration produce among equal candidates.
-/
namespace ArgMapper.C18
open ArgMapper AGraph Dijkstra
variable {α : Type} [DecidableEq α]

/-- **schedule independence**: two legal pop orders (two map iteration orders / heap tie-breaks)
report the same distance for every vertex reachable from the source -/
theorem order_independent (g : AGraph α) (hwf : g.WF) (src : α) (hs : src ∈ g.verts) (p1 p2 : List α)
    (h1 : LegalPops g src p1) (h2 : LegalPops g src p2) (hno : NoOverflow g) (v : α) (hr : Reach g src v) :
    (run g src p1).dist v = (run g src p2).dist v :=
  DijkstraProofs.distSpec_unique (dist_exact g hwf src hs p1 h1 hno v hr).1
    (dist_exact g hwf src hs p2 h2 hno v hr).1

/-- the source is at distance 0 and its predecessor chain is the source alone -/
theorem source_zero (g : AGraph α) (hwf : g.WF) (src : α) (hs : src ∈ g.verts) (pops : List α)
    (hl : LegalPops g src pops) (hno : NoOverflow g) :
    (run g src pops).dist src = 0 ∧ (run g src pops).prev src = none := by
  obtain ⟨hd, hp, _⟩ := dist_exact g hwf src hs pops hl hno src (Reach.refl src)
  obtain ⟨_, _, r, hh, hrn⟩ := tree g src pops hl.2.1 src
  refine ⟨DijkstraProofs.distSpec_self hno.1 hd, ?_⟩
  have : r = src := by
    have := hp.1; rw [hh] at this; exact Option.some.inj this
  exact this ▸ hrn

/-- reported distances of reachable vertices are non-negative -/
theorem dist_nonneg (g : AGraph α) (hwf : g.WF) (src : α) (hs : src ∈ g.verts) (pops : List α)
    (hl : LegalPops g src pops) (hno : NoOverflow g) (v : α) (hr : Reach g src v) :
    0 ≤ (run g src pops).dist v :=
  DijkstraProofs.distSpec_nonneg hno.1 (dist_exact g hwf src hs pops hl hno v hr).1

/-- **triangle inequality at termination**: no edge out of a reachable vertex could still improve
a distance (the reported distances are a fixed point of relaxation) -/
theorem triangle (g : AGraph α) (hwf : g.WF) (src : α) (hs : src ∈ g.verts) (pops : List α)
    (hl : LegalPops g src pops) (hno : NoOverflow g) (u v : α) (w : Int) (hr : Reach g src u)
    (he : g.weight u v = some w) :
    (run g src pops).dist v ≤ (run g src pops).dist u + w :=
  DijkstraProofs.distSpec_edge (dist_exact g hwf src hs pops hl hno u hr).1
    (dist_exact g hwf src hs pops hl hno v
      (Reach.step hr (DijkstraProofs.hasEdge_iff_weight.2 ⟨w, he⟩))).1 he

/-- the predecessor of a reachable vertex other than the source is reachable, is joined to it by an
existing edge, and accounts exactly for its distance -/
theorem pred_edge (g : AGraph α) (hwf : g.WF) (src : α) (hs : src ∈ g.verts) (pops : List α)
    (hl : LegalPops g src pops) (hno : NoOverflow g) (v : α) (hr : Reach g src v) (hne : v ≠ src) :
    ∃ u w, (run g src pops).prev v = some u ∧ g.weight u v = some w ∧ Reach g src u ∧
      (run g src pops).dist v = (run g src pops).dist u + w := by
  rcases DijkstraProofs.final_link ⟨hwf, hs, hno.1, hno.2⟩ pops hl v hr with
    ⟨h1, _, _⟩ | ⟨a, w, h1, _, h3, h4, h5⟩
  · exact absurd h1 hne
  · exact ⟨a, w, h1, h4, h3, h5⟩

end ArgMapper.C18
