import ArgMapper.Model.Dijkstra
import ArgMapper.Generated.Consts
import ArgMapper.Proofs.DijkstraGreedy
import ArgMapper.Proofs.DijkstraExact
/-!
# C18 — shortest-path search returns exact distances and real paths

Property theorems only (helper lemmas live in `ArgMapper/Proofs/Dijkstra*.lean`).
All statements are about `Dijkstra.run g src pops`, the transcription of `Graph.Dijkstra`
replaying an arbitrary pop order, with Go's `int32` arithmetic.
-/
namespace ArgMapper.C18
open ArgMapper AGraph Dijkstra
variable {α : Type} [DecidableEq α]

/-- the constants regenerated from `/repo/internal/graph/dijkstra.go` are the ones modelled -/
theorem consts_tie : Generated.dijkstraInf = maxInt32 ∧ Generated.dijkstraWidth = 32 := by
  decide

/-- `EdgeToPath(v, edgeTo)` for the result of a run (source-first) -/
def chain (g : AGraph α) (src : α) (pops : List α) (v : α) : List α :=
  edgeToPath (run g src pops).prev (pops.length + 1) v

/-- `p` is a path of existing edges from `u` to `v` -/
def PathFromTo (g : AGraph α) (u v : α) (p : List α) : Prop :=
  p.head? = some u ∧ p.getLast? = some v ∧ IsPath g p

/-- `d` is the true minimum distance from `u` to `v` -/
def IsDist (g : AGraph α) (u v : α) (d : Int) : Prop :=
  (∃ p, PathFromTo g u v p ∧ pathWeight g p = d) ∧ ∀ p, PathFromTo g u v p → d ≤ pathWeight g p

/-- the property's premise (non-negative weights) plus absence of `int32` overflow -/
def NoOverflow (g : AGraph α) : Prop :=
  (∀ e ∈ g.edges, 0 ≤ e.2.2) ∧ (g.edges.map (fun e => e.2.2)).sum < maxInt32

/-- **C18_tree** — for *all* weights (negative included) and every duplicate-free pop order, legal
or not: following predecessors from any vertex terminates within the fuel `EdgeToPath` is given
here, ends in a vertex without predecessor, and walks along existing edges.  This is the lemma
the resolver proofs use (the resolver runs Dijkstra with weight −1 edges). -/
theorem tree (g : AGraph α) (src : α) (pops : List α) (hnd : pops.Nodup) (v : α) :
    IsPath g (chain g src pops v) ∧ (chain g src pops v).getLast? = some v ∧
    ∃ r, (chain g src pops v).head? = some r ∧ (run g src pops).prev r = none := by
  obtain ⟨_, h1, h2, h3⟩ := DijkstraProofs.tree_aux g src pops hnd v
  exact ⟨h1, h2, h3⟩

/-- **C18_dist_exact / C18_path_real** — non-negative weights, no overflow, any legal pop order:
every vertex reachable from the source gets its true minimum distance, and its predecessor chain
is a source-to-vertex path of existing edges whose weights sum to that distance. -/
theorem dist_exact (g : AGraph α) (hwf : g.WF) (src : α) (hs : src ∈ g.verts) (pops : List α)
    (hl : LegalPops g src pops) (hno : NoOverflow g) (v : α) (hr : Reach g src v) :
    IsDist g src v ((run g src pops).dist v) ∧
    PathFromTo g src v (chain g src pops v) ∧
    pathWeight g (chain g src pops v) = (run g src pops).dist v :=
  DijkstraProofs.dist_exact_aux ⟨hwf, hs, hno.1, hno.2⟩ pops hl v hr

/-- **C18_unreachable** — all weights, any duplicate-free pop order: the predecessor chain of a
vertex that is not reachable from the source never contains the source. -/
theorem unreachable (g : AGraph α) (src : α) (pops : List α) (hnd : pops.Nodup) (v : α)
    (hnr : ¬ Reach g src v) : src ∉ chain g src pops v := by
  obtain ⟨_, h1, h2, _⟩ := DijkstraProofs.tree_aux g src pops hnd v
  exact fun hm => hnr (DijkstraProofs.reach_of_mem_path h1 h2 src hm)

/-- legal pop orders exist (the greedy one), so `dist_exact` is not vacuous -/
theorem greedy_legal (g : AGraph α) (hwf : g.WF) (src : α) (hs : src ∈ g.verts) :
    LegalPops g src (greedyPops g g.verts.length (init src)) := by
  -- (neither hypothesis is needed: the greedy order is legal on any graph and source)
  have _ := hwf; have _ := hs
  exact DijkstraProofs.greedy_legal_aux g src

/-- non-vacuity: a concrete cyclic graph with a zero-weight edge meets every hypothesis -/
example : let g : AGraph Nat := ⟨[0, 1, 2, 3], [(0, 1, 2), (1, 2, 0), (0, 2, 5), (2, 0, 1)]⟩
    g.WF ∧ NoOverflow g ∧ LegalPops g 0 [0, 1, 2, 3] ∧ Reach g 0 2 ∧
    (run g 0 [0, 1, 2, 3]).dist 2 = 2 := by
  intro g
  refine ⟨⟨by decide, by decide, by decide⟩, ⟨by decide, by decide⟩, ⟨by decide, by decide, ?_⟩, ?_,
    by decide⟩
  · intro v hv; exact hv
  · exact Reach.step (Reach.step (Reach.refl 0) (v := 0) (w := 1) (by decide)) (w := 2) (by decide)

end ArgMapper.C18
