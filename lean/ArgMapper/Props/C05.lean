import ArgMapper.Props.C01b
import ArgMapper.Props.C06
import ArgMapper.Proofs.CompleteStatic
import ArgMapper.Proofs.CompleteCE
/-!
# C05 — conversion chaining is complete on well-behaved converter sets (subtype-free fragment)

Property theorems only (helper lemmas in `ArgMapper/Proofs/Complete.lean` — the walk invariants —,
`ArgMapper/Proofs/CompleteStatic.lean` — the shape of the subtype-free `Call` graph —, and
`ArgMapper/Proofs/CompleteCE.lean` — the counterexamples to the original statement).

Clause (a) of the property — every converter takes at most one input value, arbitrary cycles — is
proved here for the **subtype-free fragment** (no label carries a subtype; names, interfaces, all
function forms, providers and cycles are allowed) and for **every oracle**: once `callGraph` has
found every parameter reachable (its unsatisfied list is empty), `Call` executes the target — unless a
function body reports an error — whatever requirement order and whatever root-first real paths are
chosen.  Outcome stability on such sets is a corollary: the outcome *class* does not depend on the
oracle.  What is not covered: subtypes (rules R6/R7 make the walk depend on the path being shortest)
and clause (b) (multi-input acyclic sets need the nested searches to succeed); both are decided by the
correspondence run against the real code.

**Correction.**  The statements as first written are false for degenerate `FuncDesc`s, whose value sets
are arbitrary records: see `SetsWF`, `counterexample_duplicate_named_key`,
`counterexample_values_without_struct` and the comment after `complete_single`.
-/
namespace ArgMapper.C05
open ArgMapper

/-- no label of the scenario carries a subtype -/
def SubtypeFree (b : Builder) (fs : List FuncDesc) : Prop :=
  b.namedSub = [] ∧ b.typedSub = [] ∧
  ∀ f ∈ fs, (∀ l ∈ f.input.labels, l.sub = "") ∧ (∀ l ∈ f.output.labels, l.sub = "")

/-- every converter takes at most one input value -/
def SingleInput (fs : List FuncDesc) : Prop := ∀ f ∈ fs, f.input.values.length ≤ 1

/-- supplied values have the type they are keyed under (true of every builder `build` returns) -/
def TypedKeysOK (b : Builder) : Prop := ∀ p ∈ b.typed, p.1 = p.2.ty

/-- (added hypothesis) the converters' value sets are well formed the way Go builds them: the named
output map is a map (one entry per name), and an input set without a struct type lists no value.
`ValueSet.KeysOK` says neither; both hold of every set `newFunc` builds (`newFunc_setsWF`). -/
def SetsWF (fs : List FuncDesc) : Prop :=
  ∀ f ∈ fs, (f.output.named.map (·.1)).Nodup ∧ (f.input.hasStruct = false → f.input.values = [])

/-- value sets built by the model of `NewFunc` satisfy the conditions of `SetsWF` -/
theorem newFunc_setsWF (ins outs : List Param) (fs : FuncSig) (h : newFunc ins outs = .ok fs) :
    (fs.output.named.map (·.1)).Nodup ∧ (fs.input.hasStruct = false → fs.input.values = []) :=
  ⟨(Complete.newFunc_setWF h).2.1, (Complete.newFunc_setWF h).1.2⟩

/-- **C05_complete_single (subtype-free)** — single-input converters (cycles allowed), no subtypes, no
converter of the target's own Go type, every parameter found reachable by `callGraph`: for every
behaviour, every oracle and fuel ≥ 2 the call ends in success or in the error a function body
reported — never in an unsatisfied-argument error, a missing argument, a panic or exhausted fuel
(`badOracle` = the oracle does not fit the scenario, excluded from the real code by construction).
(Corrected statement: hypothesis `hwf` added, see below.) -/
theorem complete_single (e : TypeEnv) (ht : ImplTrans e)
    (b : Builder) (funcs : Nat → Option FuncDesc) (target : FuncDesc)
    (hc : C01.FuncsConsistent (C01.allFuncs b funcs target))
    (hsf : SubtypeFree b (C01.allFuncs b funcs target)) (hsi : SingleInput (b.convs.filterMap funcs))
    (hwf : SetsWF (b.convs.filterMap funcs))
    (htk : TypedKeysOK b)
    (hkey : ∀ f ∈ b.convs.filterMap funcs, f.key ≠ target.key)
    (hsat : (callGraph {} e b funcs target false none).unsat = [])
    (beh : Nat → Nat → List PVal → BehOut) (fuel : Nat) (hfuel : 2 ≤ fuel)
    (memo : List (Nat × Memo)) (orc : List OrcItem) :
    let r := callWith (C01.stdCtx e b funcs target beh) (callGraph {} e b funcs target false none) target fuel
              (initSt (callGraph {} e b funcs target false none).cg memo orc)
    (∃ res, r.1 = .ok res) ∨ (∃ ε, r.1 = .convErr ε) ∨ (∃ ε res, r.1 = .targetErr ε res) ∨ (∃ w, r.1 = .badOracle w) := by
  intro r
  have H : Complete.Hyps e b funcs target := ⟨hc, hsf.1, hsf.2.1, hsf.2.2, hsi, htk, hkey, hwf⟩
  rcases Complete.complete_core H ht hsat beh False (fun h => h.elim) fuel hfuel memo (fun h => h.elim) orc
    with h | ⟨h, _⟩ | ⟨h, _⟩ | h
  · exact Or.inl h
  · exact Or.inr (Or.inl h)
  · exact Or.inr (Or.inr (Or.inl h))
  · exact Or.inr (Or.inr (Or.inr h))

/- ORIGINAL STATEMENT of `complete_single` — FALSE (corrected above).  It had no hypothesis `hwf`:

    theorem complete_single (e : TypeEnv) (ht : ImplTrans e)
        (b : Builder) (funcs : Nat → Option FuncDesc) (target : FuncDesc)
        (hc : C01.FuncsConsistent (C01.allFuncs b funcs target))
        (hsf : SubtypeFree b (C01.allFuncs b funcs target)) (hsi : SingleInput (b.convs.filterMap funcs))
        (htk : TypedKeysOK b)
        (hkey : ∀ f ∈ b.convs.filterMap funcs, f.key ≠ target.key)
        (hsat : (callGraph {} e b funcs target false none).unsat = [])
        (beh : Nat → Nat → List PVal → BehOut) (fuel : Nat) (hfuel : 2 ≤ fuel)
        (memo : List (Nat × Memo)) (orc : List OrcItem) :
        let r := callWith (C01.stdCtx e b funcs target beh) (callGraph {} e b funcs target false none) target fuel
                  (initSt (callGraph {} e b funcs target false none).cg memo orc)
        (∃ res, r.1 = .ok res) ∨ (∃ ε, r.1 = .convErr ε) ∨ (∃ ε res, r.1 = .targetErr ε res) ∨ (∃ w, r.1 = .badOracle w)

Why it fails: a `FuncDesc` holds two arbitrary `ValueSet` records, and `FuncsConsistent` (`KeysOK`) only
says that every map entry is keyed by what it holds and holds a member of the value list.
1. The named output map may hold two entries under one name with different types.  `funcGraph` creates a
   value vertex for *each* entry, `outputValues` looks each vertex up by name and finds the *first* entry,
   so the second vertex receives a value of the first entry's type; a typed argument fed from that vertex
   refuses it and the walk ends without a final value: `panic finalValue`
   (`counterexample_duplicate_named_key`).
2. An input set with `hasStruct = false` counts as empty (`ValueSet.empty`), so the function vertex hangs
   off the root, although `values` lists a parameter.  That parameter's vertex may be pruned; a path
   `root, func, …` is then real, the nested search finds nothing missing, and `callDirect` looks the
   parameter up in an empty argument map: `missingArg` (`counterexample_values_without_struct`).
Neither record is a value set of the real code (`newFunc_setsWF`).  Correction (smallest found, each half
is necessary by the matching counterexample, which satisfies the other half): `SetsWF` for the converters. -/

/-- counterexample 1 to the original statement: every original hypothesis holds, the named output map of
the only converter has two entries under one name, and the call panics -/
theorem counterexample_duplicate_named_key :
    ∃ (e : TypeEnv) (b : Builder) (funcs : Nat → Option FuncDesc) (target : FuncDesc)
      (beh : Nat → Nat → List PVal → BehOut) (orc : List OrcItem),
      ImplTrans e ∧ C01.FuncsConsistent (C01.allFuncs b funcs target) ∧
      SubtypeFree b (C01.allFuncs b funcs target) ∧ SingleInput (b.convs.filterMap funcs) ∧ TypedKeysOK b ∧
      (∀ f ∈ b.convs.filterMap funcs, f.key ≠ target.key) ∧
      (∀ f ∈ b.convs.filterMap funcs, f.input.hasStruct = false → f.input.values = []) ∧
      (callGraph {} e b funcs target false none).unsat = [] ∧
      (callWith (C01.stdCtx e b funcs target beh) (callGraph {} e b funcs target false none) target 5
        (initSt (callGraph {} e b funcs target false none).cg [] orc)).1 = .panic .finalValue := by
  refine ⟨CompleteCE.e0, CompleteCE.b1, CompleteCE.funcs1, CompleteCE.tgt, CompleteCE.beh0, CompleteCE.orc1,
    (by intro a b c h; simp [CompleteCE.e0] at h), CompleteCE.consistent1, CompleteCE.labels1, ?_, (fun p hp => by cases hp), ?_, ?_,
    CompleteCE.run1.1, CompleteCE.run1.2⟩
  · rw [CompleteCE.convs1]; unfold SingleInput; decide
  · rw [CompleteCE.convs1]; decide
  · rw [CompleteCE.convs1]; decide

/-- counterexample 2 to the original statement: every original hypothesis holds, the named output maps
are maps, the only converter's input set lists a value without having a struct type, and the call ends in
`missingArg` -/
theorem counterexample_values_without_struct :
    ∃ (e : TypeEnv) (b : Builder) (funcs : Nat → Option FuncDesc) (target : FuncDesc)
      (beh : Nat → Nat → List PVal → BehOut) (orc : List OrcItem),
      ImplTrans e ∧ C01.FuncsConsistent (C01.allFuncs b funcs target) ∧
      SubtypeFree b (C01.allFuncs b funcs target) ∧ SingleInput (b.convs.filterMap funcs) ∧ TypedKeysOK b ∧
      (∀ f ∈ b.convs.filterMap funcs, f.key ≠ target.key) ∧
      (∀ f ∈ b.convs.filterMap funcs, (f.output.named.map (·.1)).Nodup) ∧
      (callGraph {} e b funcs target false none).unsat = [] ∧
      (callWith (C01.stdCtx e b funcs target beh) (callGraph {} e b funcs target false none) target 5
        (initSt (callGraph {} e b funcs target false none).cg [] orc)).1 = .missingArg := by
  refine ⟨CompleteCE.e0, CompleteCE.b1, CompleteCE.funcs2, CompleteCE.tgt, CompleteCE.beh0, CompleteCE.orc2,
    (by intro a b c h; simp [CompleteCE.e0] at h), CompleteCE.consistent2, CompleteCE.labels2, ?_, (fun p hp => by cases hp), ?_, ?_,
    CompleteCE.run2.1, CompleteCE.run2.2⟩
  · rw [CompleteCE.convs2]; unfold SingleInput; decide
  · rw [CompleteCE.convs2]; decide
  · rw [CompleteCE.convs2]; decide

/-- **C05_stable** — on such sets, as long as no function reports an error, two runs that differ only in
their oracles (map iteration orders, tie-breaking) both succeed.
(Corrected statement: hypothesis `hwf` added; the original, without it, fails on the same two scenarios —
their bodies report no error, their memo table is empty, and the outcome is not `badOracle`.) -/
theorem stable (e : TypeEnv) (ht : ImplTrans e)
    (b : Builder) (funcs : Nat → Option FuncDesc) (target : FuncDesc)
    (hc : C01.FuncsConsistent (C01.allFuncs b funcs target))
    (hsf : SubtypeFree b (C01.allFuncs b funcs target)) (hsi : SingleInput (b.convs.filterMap funcs))
    (hwf : SetsWF (b.convs.filterMap funcs))
    (htk : TypedKeysOK b)
    (hkey : ∀ f ∈ b.convs.filterMap funcs, f.key ≠ target.key)
    (hsat : (callGraph {} e b funcs target false none).unsat = [])
    (beh : Nat → Nat → List PVal → BehOut) (hne : ∀ f n a, (beh f n a).err = none)
    (fuel : Nat) (hfuel : 2 ≤ fuel) (orc₁ orc₂ : List OrcItem) :
    let run := fun orc => (callWith (C01.stdCtx e b funcs target beh) (callGraph {} e b funcs target false none) target fuel
              (initSt (callGraph {} e b funcs target false none).cg [] orc)).1
    (∀ w, run orc₁ ≠ .badOracle w) → (∀ w, run orc₂ ≠ .badOracle w) →
      (∃ r₁, run orc₁ = .ok r₁) ∧ (∃ r₂, run orc₂ = .ok r₂) := by
  intro run h1 h2
  have H : Complete.Hyps e b funcs target := ⟨hc, hsf.1, hsf.2.1, hsf.2.2, hsi, htk, hkey, hwf⟩
  have key : ∀ orc, (∀ w, run orc ≠ .badOracle w) → ∃ r, run orc = .ok r := by
    intro orc hb
    rcases Complete.complete_core H ht hsat beh True (fun _ => hne) fuel hfuel []
      (fun _ p hp => by cases hp) orc with h | ⟨_, h⟩ | ⟨_, h⟩ | ⟨w, h⟩
    · exact h
    · exact absurd trivial h
    · exact absurd trivial h
    · exact absurd h (hb w)
  exact ⟨key orc₁ h1, key orc₂ h2⟩

/- ORIGINAL STATEMENT of `stable` — FALSE (corrected above): the same statement without `hwf`.  In both
scenarios of `CompleteCE` the bodies report no error (`beh0`), the memo table is empty and the outcome is
`panic finalValue` / `missingArg` — not `badOracle`, not `ok` (take `orc₁ = orc₂`). -/

end ArgMapper.C05
