import ArgMapper.Model.Args
import ArgMapper.Proofs.Args
/-!
# C16 — options: case-insensitive names, last wins, call overrides default, nil-safe
Property theorems only (helper lemmas in `ArgMapper/Proofs/Args.lean`).
-/
namespace ArgMapper.C16
open ArgMapper

/-- the key of the four option maps -/
inductive Key
  | named (n : String)
  | namedSub (n st : String)
  | typed (t : Nat)
  | typedSub (t : Nat) (st : String)
deriving DecidableEq, Repr

def Builder.get (b : Builder) : Key → Option Val
  | .named n => mapGet b.named n
  | .namedSub n st => mapGet b.namedSub (n, st)
  | .typed t => mapGet b.typed t
  | .typedSub t st => mapGet b.typedSub (t, st)

/-- what a value writes, after the `""`-name / `""`-subtype redirections of `args.go` -/
def keyOf (n st : String) (v : Val) : Key :=
  if n = "" then (if st = "" then .typed v.ty else .typedSub v.ty st)
  else if st = "" then .named (lower n) else .namedSub (lower n) st

/-- the writes an option performs, in order (nil values write nothing) -/
def writes : Opt → List (Key × Val)
  | .named n (some v) => [(keyOf n "" v, v)]
  | .namedSub n (some v) st => [(keyOf n st v, v)]
  | .typed vs => vs.filterMap (fun o => o.map (fun v => (Key.typed v.ty, v)))
  | .typedSub (some v) st => [(keyOf "" st v, v)]
  | _ => []

/-- the last write to `k` in a list of writes -/
def lastWrite (ws : List (Key × Val)) (k : Key) : Option Val :=
  (ws.reverse.find? (fun w => decide (w.1 = k))).map (·.2)

/-! ### the per-option lemma (it mentions `Key`, so it lives here; everything generic is in
`ArgMapper/Proofs/Args.lean`) -/

private theorem match_eq_or (x y : Option Val) :
    (match x with | some v => some v | none => y) = x.or y := by
  cases x <;> rfl

private theorem get_empty (k : Key) : Builder.get Builder.empty k = none := by
  cases k <;> rfl

/-- one value written through the `""`-name / `""`-subtype redirections lands on `keyOf` -/
private theorem get_setNamedSub (b : Builder) (n st : String) (x : Val) (k : Key) :
    Builder.get (setNamedSub b n (some x) st) k =
      (lastW [(keyOf n st x, x)] k).or (Builder.get b k) := by
  rw [lastW_singleton]
  by_cases hn : n = "" <;> by_cases hs : st = "" <;> cases k <;>
    simp [Builder.get, keyOf, setNamedSub, setNamed, setTypedSub, setTyped, mapGet_mapSet, hn, hs,
      eq_comm] <;> split <;> simp

private theorem setNamed_eq (b : Builder) (n : String) (v : Option Val) :
    setNamed b n v = setNamedSub b n v "" := by
  by_cases hn : n = "" <;> simp [setNamedSub, setNamed, setTypedSub, hn]

private theorem setTypedSub_eq (b : Builder) (v : Option Val) (st : String) :
    setTypedSub b v st = setNamedSub b "" v st := by
  simp [setNamedSub]

private theorem setNamedSub_none (b : Builder) (n st : String) : setNamedSub b n none st = b := by
  by_cases hn : n = "" <;> by_cases hs : st = "" <;>
    simp [setNamedSub, setNamed, setTypedSub, setTyped, hn, hs]

private theorem get_setTyped (b : Builder) (o : Option Val) (k : Key) :
    Builder.get (setTyped b o) k =
      (lastW (o.map (fun v => (Key.typed v.ty, v))).toList k).or (Builder.get b k) := by
  cases o with
  | none => simp [setTyped, lastW_nil]
  | some x =>
    have := get_setNamedSub b "" "" x k
    simpa [setNamedSub, setTypedSub, keyOf] using this

private theorem get_applyOpt (b : Builder) (o : Opt) (k : Key) :
    Builder.get (applyOpt b o) k = (lastW (writes o) k).or (Builder.get b k) := by
  cases o with
  | named n v =>
    cases v with
    | none => simp [applyOpt, setNamed_eq, setNamedSub_none, writes, lastW_nil]
    | some x => simpa [applyOpt, setNamed_eq, writes] using get_setNamedSub b n "" x k
  | namedSub n v st =>
    cases v with
    | none => simp [applyOpt, setNamedSub_none, writes, lastW_nil]
    | some x => simpa [applyOpt, writes] using get_setNamedSub b n st x k
  | typedSub v st =>
    cases v with
    | none => simp [applyOpt, setTypedSub_eq, setNamedSub_none, writes, lastW_nil]
    | some x => simpa [applyOpt, setTypedSub_eq, writes] using get_setNamedSub b "" st x k
  | typed vs =>
    have := get_foldl_lastW Builder.get setTyped
      (fun o => (o.map (fun v => (Key.typed v.ty, v))).toList) get_setTyped vs b k
    simp only [applyOpt, writes]
    rw [this]
    clear this
    congr 2
    induction vs with
    | nil => rfl
    | cons o vs ih => cases o <;> simp [ih]
  | convFunc fs => cases k <;> simp [applyOpt, writes, lastW_nil, Builder.get]
  | conv fs =>
    have : ∀ (fs : List (Option Nat)) (b : Builder), Builder.get (addConvs b fs) k = Builder.get b k := by
      intro fs
      induction fs with
      | nil => intro b; rfl
      | cons f fs ih =>
        intro b
        cases f with
        | none => cases k <;> rfl
        | some f => rw [addConvs, ih]; cases k <;> rfl
    simp [applyOpt, writes, lastW_nil, this]
  | gen _ => cases k <;> simp [applyOpt, writes, lastW_nil, Builder.get]
  | filterIn _ => cases k <;> simp [applyOpt, writes, lastW_nil, Builder.get]
  | filterOut _ => cases k <;> simp [applyOpt, writes, lastW_nil, Builder.get]
  | funcOnce => cases k <;> simp [applyOpt, writes, lastW_nil, Builder.get]
  | other => simp [applyOpt, writes, lastW_nil]
  | nilOpt => simp [applyOpt, writes, lastW_nil]

private theorem get_foldl (b : Builder) (opts : List Opt) (k : Key) :
    Builder.get (opts.foldl applyOpt b) k = (lastW (opts.flatMap writes) k).or (Builder.get b k) :=
  get_foldl_lastW Builder.get applyOpt writes get_applyOpt opts b k

/-- **C16_last_wins** — after applying any option list to any builder, each key holds the value of
the last option that wrote it, and keys nobody wrote keep what the builder had. -/
theorem last_wins (b : Builder) (opts : List Opt) (k : Key) :
    Builder.get (opts.foldl applyOpt b) k =
      match lastWrite (opts.flatMap writes) k with
      | some v => some v
      | none => Builder.get b k := by
  rw [match_eq_or]; exact get_foldl b opts k

/-- `build` is that fold unless a nil option is present -/
theorem build_ok (opts : List Opt) (hn : Opt.nilOpt ∉ opts) :
    build opts = (if (opts.foldl applyOpt Builder.empty).errs = 0
      then .ok (opts.foldl applyOpt Builder.empty) else .optErr (opts.foldl applyOpt Builder.empty)) := by
  exact buildFrom_of_not_mem opts hn Builder.empty

/-- **C16_nil** — a nil option yields the dedicated error (no builder); nil values write nothing. -/
theorem nil_option (defaults opts : List Opt) (h : Opt.nilOpt ∈ defaults ++ opts) :
    buildFor defaults opts = .nilArg := by
  exact buildFrom_of_mem _ h Builder.empty

theorem nil_value_ignored (b : Builder) (n st : String) :
    applyOpt b (.named n none) = b ∧ applyOpt b (.namedSub n none st) = b ∧
    applyOpt b (.typedSub none st) = b ∧ applyOpt b (.typed [none]) = b := by
  simp [applyOpt, setNamed_eq, setTypedSub_eq, setNamedSub_none, setTyped]

/-- **C16_case** — names are matched through `lower`: any two spellings with the same lower-casing
are the same option. -/
theorem case_insensitive (b : Builder) (n n' : String) (v : Option Val) (st : String)
    (h : lower n = lower n') :
    applyOpt b (.named n v) = applyOpt b (.named n' v) ∧
    applyOpt b (.namedSub n v st) = applyOpt b (.namedSub n' v st) := by
  have hn := eq_empty_of_lower_eq h
  by_cases hn' : n' = "" <;> simp [applyOpt, setNamed, setNamedSub, hn, hn', h]

theorem lower_idem (s : String) : lower (lower s) = lower s := by
  exact lower_lower s

/-- **C16_call_overrides_default** — a key written at `Call` holds the call's value; a key written
only by a default keeps the default. -/
theorem call_overrides_default (defaults opts : List Opt) (k : Key) :
    Builder.get ((defaults ++ opts).foldl applyOpt Builder.empty) k =
      match lastWrite (opts.flatMap writes) k with
      | some v => some v
      | none => lastWrite (defaults.flatMap writes) k := by
  rw [match_eq_or, List.foldl_append, get_foldl, get_foldl, get_empty]
  rw [Option.or_none]; rfl

/-- **C16_permutation** — permuting options that write pairwise distinct keys leaves all four maps
unchanged (as finite maps). -/
theorem permutation (opts opts' : List Opt) (hp : opts.Perm opts')
    (hd : ((opts.flatMap writes).map (·.1)).Nodup) (k : Key) :
    Builder.get (opts.foldl applyOpt Builder.empty) k = Builder.get (opts'.foldl applyOpt Builder.empty) k := by
  rw [get_foldl, get_foldl]
  rw [lastW_perm (hp.flatMap_right writes) hd k]

/-- non-vacuity -/
example : Builder.get ([Opt.named "Port" (some ⟨0, 1⟩), .typed [some ⟨1, 2⟩], .named "PORT" (some ⟨0, 3⟩)].foldl
    applyOpt Builder.empty) (.named "port") = some ⟨0, 3⟩ := by
  have h1 : lower "Port" = "port" := by decide +kernel
  have h2 : lower "PORT" = "port" := by decide +kernel
  simp [applyOpt, setNamed, setTyped, Builder.empty, Builder.get, mapGet_mapSet, h1, h2]

end ArgMapper.C16
