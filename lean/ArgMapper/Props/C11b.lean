import ArgMapper.Model.Hist
import ArgMapper.Props.C11
import ArgMapper.Props.C09b
import ArgMapper.Proofs.OnceHist
/-!
# C11 over histories that contain Redefines

`C11.once_at_most_once` / `C11.first_result_kept` speak about histories of calls.  With the history
model of `Model/Hist.lean` (calls and Redefines on shared function objects, the run-once cells and
execution counters threaded, one common fuel) the same holds with any number of Redefines interleaved:
over the whole history the body of a run-once function is executed at most once, and its memo cell
keeps the result of that execution.
-/
namespace ArgMapper.C11
open ArgMapper

/-- every execution of every `Call` of a history, in order (Redefines execute nothing) -/
def histLog (obs : List HistObs) : List ExecEv :=
  obs.flatMap (fun o => match o with | .call _ l => l | .redef _ => [])

/-- every function object with id `fid` that some call of the history could execute is run-once -/
def OnceEverywhereH (ops : List HistOp) (fid : Nat) : Prop :=
  ∀ op ∈ ops, match op with
    | .call c _ t _ => (t.id = fid → t.once = true) ∧ ∀ k f, c.funcOf k = some f → f.id = fid → f.once = true
    | .redefine .. => True

/-- **C11 (at most once, Redefines interleaved)** -/
theorem once_at_most_once_hist (fuel : Nat) (ops : List HistOp) (fid : Nat) (h : OnceEverywhereH ops fid) :
    ((histLog (runHist fuel {} ops).2).filter (fun e => e.fid == fid)).length ≤ 1 := by
  have hg := OnceHist.runHist_good fuel fid ops {} [] h (Once.Good_nil fid)
  exact hg.1

/-- **C11 (first result kept, Redefines interleaved)** — once it has executed, the memo cell the function
objects carry at the end of the history holds the result of that execution -/
theorem first_result_kept_hist (fuel : Nat) (ops : List HistOp) (fid : Nat) (h : OnceEverywhereH ops fid)
    (ev : ExecEv) (hev : ev ∈ histLog (runHist fuel {} ops).2) (hf : ev.fid = fid) :
    ∃ m, mapGet (runHist fuel {} ops).1.memo fid = some m ∧ m.res = ev.res := by
  have hg := OnceHist.runHist_good fuel fid ops {} [] h (Once.Good_nil fid)
  exact hg.2 ev hev hf

/-- a run-once function that has not executed during the history has no result yet (so its first real
use afterwards executes it), whatever Redefines the history contains -/
theorem not_run_no_memo (fuel : Nat) (ops : List HistOp) (fid : Nat) (h : OnceEverywhereH ops fid)
    (hno : ∀ ev ∈ histLog (runHist fuel {} ops).2, ev.fid ≠ fid) :
    mapGet (runHist fuel {} ops).1.memo fid = none := by
  rcases OnceHist.runHist_has fuel fid ops {} [] (OnceHist.Has_nil fid) with hn | ⟨ev, hev, hf⟩
  · exact hn
  · exact absurd hf (hno ev hev)

end ArgMapper.C11
