import ArgMapper.Model.Args
/-!
# C16 (continued): the spellings of a value option agree

`Named("", v)` is `Typed(v)`, `NamedSubtype("", v, st)` is `TypedSubtype(v, st)`, `NamedSubtype(n, v, "")`
is `Named(n, v)`, and a value's own `Arg()` — hence every element of `ValueSet.Args()` — is the
option its label spells out.  The harness uses these spellings interchangeably; the theorems below
are why the model may describe them by one protocol line.
-/
namespace ArgMapper.C16

theorem named_empty_name (b : Builder) (v : Option Val) :
    applyOpt b (.named "" v) = applyOpt b (.typed [v]) := by
  simp [applyOpt, setNamed]

theorem namedSub_empty_name (b : Builder) (v : Option Val) (st : String) :
    applyOpt b (.namedSub "" v st) = applyOpt b (.typedSub v st) := by
  simp [applyOpt, setNamedSub]

theorem namedSub_empty_subtype (b : Builder) (n : String) (v : Option Val) :
    applyOpt b (.namedSub n v "") = applyOpt b (.named n v) := by
  by_cases h : n = ""
  · subst h; simp [applyOpt, setNamedSub, setNamed, setTypedSub]
  · simp [applyOpt, setNamedSub, h]

theorem typedSub_empty_subtype (b : Builder) (v : Option Val) :
    applyOpt b (.typedSub v "") = applyOpt b (.typed [v]) := by
  simp [applyOpt, setTypedSub]

/-- a named value's `Arg()` is `NamedSubtype(name, v, subtype)` -/
theorem valueArg_named (b : Builder) (n st : String) (v : Val) (hn : n ≠ "") :
    applyOpt b (valueArg n st v) = applyOpt b (.namedSub n (some v) st) := by
  simp [valueArg, hn]

/-- a type-only value's `Arg()` is `TypedSubtype(v, subtype)` -/
theorem valueArg_typed (b : Builder) (st : String) (v : Val) :
    applyOpt b (valueArg "" st v) = applyOpt b (.typedSub (some v) st) := by
  simp [valueArg]

/-- … which is also what `NamedSubtype` with that (possibly empty) name does: the kind never matters -/
theorem valueArg_eq_namedSub (b : Builder) (n st : String) (v : Val) :
    applyOpt b (valueArg n st v) = applyOpt b (.namedSub n (some v) st) := by
  by_cases hn : n = ""
  · subst hn; rw [valueArg_typed, namedSub_empty_name]
  · exact valueArg_named b n st v hn

theorem valueArg_ne_nil (n st : String) (v : Val) : valueArg n st v ≠ .nilOpt := by
  unfold valueArg; split <;> simp

theorem buildFrom_cons (b : Builder) (o : Opt) (r : List Opt) (h : o ≠ .nilOpt) :
    buildFrom b (o :: r) = buildFrom (applyOpt b o) r := by
  cases o <;> simp_all [buildFrom]

/-- options that act alike on every builder (and are not the nil option) may replace one another
anywhere in an option list -/
theorem buildFrom_map_congr {α : Type} (f g : α → Opt) (hfg : ∀ a b, applyOpt b (f a) = applyOpt b (g a))
    (hf : ∀ a, f a ≠ .nilOpt) (hg : ∀ a, g a ≠ .nilOpt) (pre post : List Opt) (l : List α) (b : Builder) :
    buildFrom b (pre ++ l.map f ++ post) = buildFrom b (pre ++ l.map g ++ post) := by
  induction pre generalizing b with
  | cons o pre ih =>
    by_cases ho : o = .nilOpt
    · subst ho; simp [buildFrom]
    · simp only [List.cons_append, buildFrom_cons _ _ _ ho]; exact ih _
  | nil =>
    simp only [List.nil_append]
    induction l generalizing b with
    | nil => rfl
    | cons a l ih =>
      simp only [List.map_cons, List.cons_append, buildFrom_cons _ _ _ (hf a), buildFrom_cons _ _ _ (hg a), hfg]
      exact ih _

/-- `ValueSet.Args()` supplies exactly `NamedSubtype(name, value, subtype)` per value, in order:
passing a value set's arguments (anywhere among other options) is passing its values one by one -/
theorem valueSetArgs_build (vals : List ((String × String) × Val)) (pre post : List Opt) :
    build (pre ++ valueSetArgs vals ++ post)
      = build (pre ++ vals.map (fun p => Opt.namedSub p.1.1 (some p.2) p.1.2) ++ post) := by
  unfold build valueSetArgs
  exact buildFrom_map_congr _ _ (fun a b => valueArg_eq_namedSub b _ _ _) (fun a => valueArg_ne_nil _ _ _)
    (fun a => by simp) pre post vals Builder.empty

/-- the same for a call on a function with default options -/
theorem valueSetArgs_buildFor (defaults : List Opt) (vals : List ((String × String) × Val)) (pre post : List Opt) :
    buildFor defaults (pre ++ valueSetArgs vals ++ post)
      = buildFor defaults (pre ++ vals.map (fun p => Opt.namedSub p.1.1 (some p.2) p.1.2) ++ post) := by
  unfold buildFor
  have := valueSetArgs_build vals (defaults ++ pre) post
  simpa [List.append_assoc] using this

/-- what `Args()` yields for a set holding a named and a type-only value -/
example : valueSetArgs [(("Port", ""), ⟨1, 7⟩), (("", "s"), ⟨2, 8⟩)]
    = [.namedSub "Port" (some ⟨1, 7⟩) "", .typedSub (some ⟨2, 8⟩) "s"] := by decide

end ArgMapper.C16
