import ArgMapper.Model.Hist
import ArgMapper.Props.C04
import ArgMapper.Props.C01c
/-!
# C04 over histories: every reported error is the error of an execution of the history

`C04.conv_error_verbatim` says: the error a call reports was returned by its last execution, *or* sits
in a run-once cell at the start of the call.  Over a history of calls and Redefines on shared function
objects (from fresh objects) the second case is closed: a cell only ever holds the result of an
execution of the history (`C01.memo_from_history`).  So whatever error a call of a history reports —
a converter's or the target's own — is the error value some execution of the history returned, in this
call or in an earlier one; and a call that reports success executed no failing body.
-/
namespace ArgMapper.C04
open ArgMapper

/-- a converter's error reported by a call after any history: returned by the last execution of this call,
or by an execution of an earlier call of the history (and then served from a run-once cell) -/
theorem conv_error_from_history (fuel : Nat) (pre : List HistOp) (c : Ctx) (cgr : CallGraphResult) (target : FuncDesc)
    (orc : List OrcItem) (ε : Nat)
    (h : (histCall c cgr target fuel (runHist fuel {} pre).1 orc).1 = .convErr ε) :
    (∃ ev, (histCall c cgr target fuel (runHist fuel {} pre).1 orc).2.log.getLast? = some ev ∧ ev.res.err = some ε) ∨
    (∃ ev ∈ C01.histLog (runHist fuel {} pre).2, ev.res.err = some ε) := by
  rcases conv_error_verbatim c cgr target fuel _ (rfl : (HistState.start _ cgr.cg orc).log = []) ε h with h1 | ⟨m, hm, he⟩
  · exact .inl h1
  · obtain ⟨ev, hev, _, hres⟩ := C01.memo_from_history fuel pre m hm
    exact .inr ⟨ev, hev, by rw [hres]; exact he⟩

/-- a failing execution ends the call it happens in, whatever came before in the history: it is the last
execution of that call and the call reports its error -/
theorem failing_execution_is_last_hist (fuel : Nat) (pre : List HistOp) (c : Ctx) (cgr : CallGraphResult)
    (target : FuncDesc) (orc : List OrcItem) (ev : ExecEv) (ε : Nat)
    (hev : ev ∈ (histCall c cgr target fuel (runHist fuel {} pre).1 orc).2.log) (herr : ev.res.err = some ε) :
    (histCall c cgr target fuel (runHist fuel {} pre).1 orc).2.log.getLast? = some ev ∧
    ((histCall c cgr target fuel (runHist fuel {} pre).1 orc).1 = .convErr ε ∨
     ∃ r, (histCall c cgr target fuel (runHist fuel {} pre).1 orc).1 = .targetErr ε r) :=
  failing_execution_is_last c cgr target fuel _ (rfl : (HistState.start _ cgr.cg orc).log = []) ev ε hev herr

/-- a call of a history that reports success executed no failing body -/
theorem ok_means_no_failure_hist (fuel : Nat) (pre : List HistOp) (c : Ctx) (cgr : CallGraphResult)
    (target : FuncDesc) (orc : List OrcItem) (r : BehOut)
    (hok : (histCall c cgr target fuel (runHist fuel {} pre).1 orc).1 = .ok r) :
    r.err = none ∧ ∀ ev ∈ (histCall c cgr target fuel (runHist fuel {} pre).1 orc).2.log, ev.res.err = none :=
  ok_means_no_failure c cgr target fuel _ (rfl : (HistState.start _ cgr.cg orc).log = []) r hok

end ArgMapper.C04
