import ArgMapper.Model.Reach
import ArgMapper.Proofs.ErrorProp
/-!
# C04 — a failing converter aborts the call and its error is returned verbatim

Property theorems only (helper lemmas in `ArgMapper/Proofs/ErrorProp.lean`).  The statements hold
for every graph, every oracle (legal or not), every behaviour and every fuel: they depend on nothing
about path choice.
-/
namespace ArgMapper.C04
open ArgMapper ErrorProp

/-- **C04_error_propagation (i)** — if an execution during the call returned a non-nil error `ε`,
that execution is the last one of the call (nothing — no converter, not the target — ran after
it) and `Call` returns exactly `ε`: as the converter's error, or as the target's own final error
when the failing function is the target. -/
theorem failing_execution_is_last (c : Ctx) (cgr : CallGraphResult) (target : FuncDesc) (fuel : Nat)
    (s0 : CallSt) (hl : s0.log = []) (ev : ExecEv) (ε : Nat)
    (hev : ev ∈ (callWith c cgr target fuel s0).2.log) (herr : ev.res.err = some ε) :
    (callWith c cgr target fuel s0).2.log.getLast? = some ev ∧
    ((callWith c cgr target fuel s0).1 = .convErr ε ∨
     ∃ r, (callWith c cgr target fuel s0).1 = .targetErr ε r) := by
  obtain ⟨app, hlog, hp⟩ := callWith_eff c cgr target fuel s0
  rw [hl, List.nil_append] at hlog
  rw [hlog] at hev ⊢
  generalize (callWith c cgr target fuel s0).1 = out at hp
  cases out with
  | ok r => exact (hp.2.absurd hev herr).elim
  | convErr ε' =>
    rcases hp with h | h
    · obtain ⟨h1, h2⟩ := h.unique hev herr
      exact ⟨h1, Or.inl (by rw [h2])⟩
    · exact (h.1.absurd hev herr).elim
  | targetErr ε' r =>
    rcases hp.2 with h | h
    · obtain ⟨h1, h2⟩ := h.unique hev herr
      exact ⟨h1, Or.inr ⟨r, by rw [h2]⟩⟩
    · exact (h.absurd hev herr).elim
  | _ => exact (NoErr.absurd hp hev herr).elim

/-- **(ii)** — a call whose result carries no error executed no failing function -/
theorem ok_means_no_failure (c : Ctx) (cgr : CallGraphResult) (target : FuncDesc) (fuel : Nat)
    (s0 : CallSt) (hl : s0.log = []) (r : BehOut)
    (hok : (callWith c cgr target fuel s0).1 = .ok r) :
    r.err = none ∧ ∀ ev ∈ (callWith c cgr target fuel s0).2.log, ev.res.err = none := by
  obtain ⟨app, hlog, hp⟩ := callWith_eff c cgr target fuel s0
  rw [hl, List.nil_append] at hlog
  rw [hlog, hok] at *
  exact ⟨hp.1, hp.2⟩

/-- **(iii)** — an error returned by the target itself is what the result reports -/
theorem target_error_reported (c : Ctx) (cgr : CallGraphResult) (target : FuncDesc) (fuel : Nat)
    (s0 : CallSt) (ε : Nat) (r : BehOut)
    (h : (callWith c cgr target fuel s0).1 = .targetErr ε r) : r.err = some ε := by
  obtain ⟨app, _, hp⟩ := callWith_eff c cgr target fuel s0
  rw [h] at hp
  exact hp.1

/-- a converter error is never turned into anything else: when `Call` reports a converter error,
either the last execution of this call produced it, or it is the memoised error of a run-once
function that failed in an earlier call -/
theorem conv_error_verbatim (c : Ctx) (cgr : CallGraphResult) (target : FuncDesc) (fuel : Nat)
    (s0 : CallSt) (hl : s0.log = []) (ε : Nat)
    (h : (callWith c cgr target fuel s0).1 = .convErr ε) :
    (∃ ev, (callWith c cgr target fuel s0).2.log.getLast? = some ev ∧ ev.res.err = some ε) ∨
    (∃ m ∈ s0.memo, m.2.res.err = some ε) := by
  obtain ⟨app, hlog, hp⟩ := callWith_eff c cgr target fuel s0
  rw [hl, List.nil_append] at hlog
  rw [hlog]
  rw [h] at hp
  rcases hp with ⟨init, ev, rfl, _, he⟩ | ⟨_, m, hm, he⟩
  · exact Or.inl ⟨ev, by simp, he⟩
  · exact Or.inr ⟨m, hm, he⟩

end ArgMapper.C04
