import ArgMapper.Props.C03
import ArgMapper.Props.C05
import ArgMapper.Props.C06
import ArgMapper.Proofs.WalkPanicStatic
import ArgMapper.Proofs.WalkPanicCE
/-!
# C06 (continued) — the last modelled panic sites under a legal oracle

Property theorems only (helper lemmas in `ArgMapper/Proofs/WalkPanic.lean` — the walk invariants —,
`ArgMapper/Proofs/WalkPanicStatic.lean` — the shape of the `Call` graph and the shortest-path argument —,
and `ArgMapper/Proofs/WalkPanicCE.lean` — the counterexample to the original statement).

`C06.no_elem_or_unknown_panic` shows three of the modelled panic sites unreachable for every oracle.  The
remaining ones — "didn't reach a final value for path" (`panic finalValue`), `reflect.Value.Set` with a
non-assignable value (`panic setNotAssignable`) and the last-resort guard of `callDirect` (`missingArg`) —
are treated here for the full label language (names, subtypes, interfaces), every converter set (any
arity, cycles), every behaviour, and every **legal** oracle (each path is `choosePath` for some legal
complete pop order on the re-weighted reversed copy).

**Correction.**  The statement as first written is false in its third conjunct: see
`counterexample_missing_arg` and the comment after `no_walk_panic`.  What holds:

* `no_walk_panic_partial_final_set` — the original hypotheses, the two panics: never reached;
* `no_walk_panic` — corrected: with `ParamsKept` (every converter whose vertex survives pruning keeps all
  its parameter vertices) none of the three outcomes is reached;
* `no_walk_panic_partial_single_input` — the original statement, all three conjuncts, for converter sets
  in which every converter takes at most one input value (`ParamsKept` is then a theorem).
-/
namespace ArgMapper.C06
open ArgMapper

/-- (added hypothesis) pruning did not split a converter from one of its parameters: every converter
whose function vertex is still in the graph still has the vertex of each of its parameters there.
It fails exactly when a converter has several inputs of which some, but not all, can be obtained. -/
def ParamsKept (e : TypeEnv) (b : Builder) (funcs : Nat → Option FuncDesc) (target : FuncDesc) : Prop :=
  ∀ f ∈ b.convs.filterMap funcs,
    Vtx.func f.key ∈ (callGraph {} e b funcs target false none).cg.g.verts →
    ∀ v ∈ f.input.values, v.lab.vertex ∈ (callGraph {} e b funcs target false none).cg.g.verts

theorem hyps_of (e : TypeEnv) (ht : ImplTrans e) (b : Builder) (funcs : Nat → Option FuncDesc) (target : FuncDesc)
    (hb : C03.BuilderOK b) (hc : C01.FuncsConsistent (C01.allFuncs b funcs target))
    (hwf : C05.SetsWF (C01.allFuncs b funcs target)) : WalkPanic.Hyps e b funcs target :=
  ⟨ht, hc, hb.1, hb.2, hwf⟩

/-- **C06_no_walk_panic**, corrected (hypothesis `hkept` added) — for every legal oracle the call never ends
in "didn't reach a final value", in `reflect.Value.Set` with a non-assignable value, or in the "this is a
bug" guard of `callDirect`. -/
theorem no_walk_panic (e : TypeEnv) (ht : ImplTrans e)
    (b : Builder) (funcs : Nat → Option FuncDesc) (target : FuncDesc)
    (hb : C03.BuilderOK b)
    (hc : C01.FuncsConsistent (C01.allFuncs b funcs target))
    (hwf : C05.SetsWF (C01.allFuncs b funcs target))
    (hkept : ParamsKept e b funcs target)
    (hsmall : C03.SmallGraph (callGraph {} e b funcs target false none).cg.g)
    (beh : Nat → Nat → List PVal → BehOut) (fuel : Nat)
    (memo : List (Nat × Memo)) (orc : List OrcItem)
    (hleg : ∀ it ∈ orc, C03.LegalItem (callGraph {} e b funcs target false none).cg.g it) :
    let r := callWith (C01.stdCtx e b funcs target beh) (callGraph {} e b funcs target false none) target fuel
              (initSt (callGraph {} e b funcs target false none).cg memo orc)
    r.1 ≠ .panic .finalValue ∧ r.1 ≠ .panic .setNotAssignable ∧ r.1 ≠ .missingArg := by
  intro r
  have H := hyps_of e ht b funcs target hb hc hwf
  obtain ⟨h1, h2, h3⟩ := WalkPanic.core H beh True
    (fun _ hsat => WalkPanic.reqs_of_kept H beh hsat hkept) hsmall fuel memo orc hleg
  exact ⟨h1, h2, h3 trivial⟩

/- ORIGINAL STATEMENT of `no_walk_panic` — FALSE (corrected above).  It had no hypothesis `hkept`:

    theorem no_walk_panic (e : TypeEnv) (ht : ImplTrans e)
        (b : Builder) (funcs : Nat → Option FuncDesc) (target : FuncDesc)
        (hb : C03.BuilderOK b)
        (hc : C01.FuncsConsistent (C01.allFuncs b funcs target))
        (hwf : C05.SetsWF (C01.allFuncs b funcs target))
        (hsmall : C03.SmallGraph (callGraph {} e b funcs target false none).cg.g)
        (beh : Nat → Nat → List PVal → BehOut) (fuel : Nat)
        (memo : List (Nat × Memo)) (orc : List OrcItem)
        (hleg : ∀ it ∈ orc, C03.LegalItem (callGraph {} e b funcs target false none).cg.g it) :
        let r := callWith (C01.stdCtx e b funcs target beh) (callGraph {} e b funcs target false none) target fuel
                  (initSt (callGraph {} e b funcs target false none).cg memo orc)
        r.1 ≠ .panic .finalValue ∧ r.1 ≠ .panic .setNotAssignable ∧ r.1 ≠ .missingArg

Why it fails (third conjunct only; the first two are `no_walk_panic_partial_final_set`): pruning keeps
every vertex that the reverse search from the root reaches.  A converter `func(A, B) C` is reached as soon
as *one* of its inputs is (say `A`, supplied), so its vertex and its output `C` stay, while the vertex of
the unobtainable input `B` is removed — together with the requirement edge `func → arg B`.  `callGraph`
reports nothing unsatisfied (it only looks at the target's own parameters), the only path to the target's
parameter `C` runs through the converter, the nested `reachTarget` of the converter sees the single
requirement `arg A` (already filled), and `callDirect` then looks `B` up in the argument map: "argument
cannot be satisfied: type: B. This is a bug in the go-argmapper library …" — in the model, `missingArg`.
`WalkPanicCE.missingArg_reached` / `counterexample_missing_arg` is that scenario, kernel-checked with
every hypothesis (legal oracle included); it was replayed on the real library with the same outcome:

    f, _ := argmapper.NewFunc(func(c C) int { return 1 })
    res := f.Call(argmapper.Typed(A{1}), argmapper.Converter(func(a A, b B) C { return C{a.X} }))

Correction (smallest found): `ParamsKept` — a converter that survives pruning keeps all its parameter
vertices.  It is necessary in the sense that the counterexample violates nothing else, and it is a
theorem for converters with at most one input (`no_walk_panic_partial_single_input`). -/

/-- the counterexample to the original statement: every original hypothesis holds (value sets built by
`newFunc`, builder built by `build`, legal oracle) and the call ends in `missingArg` -/
theorem counterexample_missing_arg :
    ∃ (e : TypeEnv) (b : Builder) (funcs : Nat → Option FuncDesc) (target : FuncDesc)
      (beh : Nat → Nat → List PVal → BehOut) (orc : List OrcItem),
      ImplTrans e ∧ C03.BuilderOK b ∧ C01.FuncsConsistent (C01.allFuncs b funcs target) ∧
      C05.SetsWF (C01.allFuncs b funcs target) ∧
      C03.SmallGraph (callGraph {} e b funcs target false none).cg.g ∧
      (∀ it ∈ orc, C03.LegalItem (callGraph {} e b funcs target false none).cg.g it) ∧
      ¬ ParamsKept e b funcs target ∧
      (callWith (C01.stdCtx e b funcs target beh) (callGraph {} e b funcs target false none) target 5
        (initSt (callGraph {} e b funcs target false none).cg [] orc)).1 = .missingArg := by
  obtain ⟨h1, h2, h3, h4, h5, h6, h7, _⟩ := WalkPanicCE.missingArg_reached
  refine ⟨WalkPanicCE.e0, WalkPanicCE.b, WalkPanicCE.funcs, WalkPanicCE.tgt, WalkPanicCE.beh0, WalkPanicCE.orc,
    h1, h2, h3, h4, h5, h6, ?_, h7⟩
  intro hk
  have hconv : WalkPanicCE.conv ∈ WalkPanicCE.b.convs.filterMap WalkPanicCE.funcs :=
    List.mem_filterMap.2 ⟨1, by decide, rfl⟩
  have hg := WalkPanicCE.graph_shape
  have hfv : Vtx.func WalkPanicCE.conv.key ∈
      (callGraph {} WalkPanicCE.e0 WalkPanicCE.b WalkPanicCE.funcs WalkPanicCE.tgt false none).cg.g.verts :=
    of_decide_eq_true hg.1
  have hv2 : (WalkPanicCE.tv 2 1).lab.vertex = Vtx.arg 2 "" := by decide
  have h := hk WalkPanicCE.conv hconv hfv (WalkPanicCE.tv 2 1) (by decide)
  rw [hv2] at h
  have h2' : (callGraph {} WalkPanicCE.e0 WalkPanicCE.b WalkPanicCE.funcs WalkPanicCE.tgt false none).cg.g.hasVertex
      (Vtx.arg 2 "") = true := decide_eq_true h
  rw [hg.2.2.1] at h2'
  cases h2'

/-- **C06_no_walk_panic (the two panic sites)** — the ORIGINAL hypotheses: for every legal oracle the call
never panics with "didn't reach a final value for path" nor in `reflect.Value.Set`.
(`setNotAssignable` does not depend on the oracle being legal; `finalValue` did before the repair of finding F22
(`hopCopies := false`): the path `…, value n t s, value n t "", arg t ""` is real, and walking it left the argument
vertex empty — a shortest path takes the direct edge `value n t s → arg t ""` instead;
`WalkPanicCE.finalValue_needs_legal` is a scenario without any converter in which, in the pre-repair context, that
real but non-shortest path makes the call panic; with the repaired hop (`hopCopies := true`, the default used here)
the same scenario succeeds, `WalkPanicCE.finalValue_illegal_ok_after_repair`.) -/
theorem no_walk_panic_partial_final_set (e : TypeEnv) (ht : ImplTrans e)
    (b : Builder) (funcs : Nat → Option FuncDesc) (target : FuncDesc)
    (hb : C03.BuilderOK b)
    (hc : C01.FuncsConsistent (C01.allFuncs b funcs target))
    (hwf : C05.SetsWF (C01.allFuncs b funcs target))
    (hsmall : C03.SmallGraph (callGraph {} e b funcs target false none).cg.g)
    (beh : Nat → Nat → List PVal → BehOut) (fuel : Nat)
    (memo : List (Nat × Memo)) (orc : List OrcItem)
    (hleg : ∀ it ∈ orc, C03.LegalItem (callGraph {} e b funcs target false none).cg.g it) :
    let r := callWith (C01.stdCtx e b funcs target beh) (callGraph {} e b funcs target false none) target fuel
              (initSt (callGraph {} e b funcs target false none).cg memo orc)
    r.1 ≠ .panic .finalValue ∧ r.1 ≠ .panic .setNotAssignable := by
  intro r
  have H := hyps_of e ht b funcs target hb hc hwf
  obtain ⟨h1, h2, _⟩ := WalkPanic.core H beh False (fun h => h.elim) hsmall fuel memo orc hleg
  exact ⟨h1, h2⟩

/-- converters with at most one input value keep their parameter through pruning -/
theorem paramsKept_of_single (e : TypeEnv) (ht : ImplTrans e)
    (b : Builder) (funcs : Nat → Option FuncDesc) (target : FuncDesc)
    (hb : C03.BuilderOK b)
    (hc : C01.FuncsConsistent (C01.allFuncs b funcs target))
    (hwf : C05.SetsWF (C01.allFuncs b funcs target))
    (hsi : C05.SingleInput (b.convs.filterMap funcs)) : ParamsKept e b funcs target :=
  WalkPanic.paramsKept_of_single (hyps_of e ht b funcs target hb hc hwf) hsi

/-- **C06_no_walk_panic (single-input converter sets)** — the ORIGINAL statement, all three conjuncts, when
every converter takes at most one input value (names, subtypes, interfaces, cycles allowed; the target
may have any number of parameters) -/
theorem no_walk_panic_partial_single_input (e : TypeEnv) (ht : ImplTrans e)
    (b : Builder) (funcs : Nat → Option FuncDesc) (target : FuncDesc)
    (hb : C03.BuilderOK b)
    (hc : C01.FuncsConsistent (C01.allFuncs b funcs target))
    (hwf : C05.SetsWF (C01.allFuncs b funcs target))
    (hsi : C05.SingleInput (b.convs.filterMap funcs))
    (hsmall : C03.SmallGraph (callGraph {} e b funcs target false none).cg.g)
    (beh : Nat → Nat → List PVal → BehOut) (fuel : Nat)
    (memo : List (Nat × Memo)) (orc : List OrcItem)
    (hleg : ∀ it ∈ orc, C03.LegalItem (callGraph {} e b funcs target false none).cg.g it) :
    let r := callWith (C01.stdCtx e b funcs target beh) (callGraph {} e b funcs target false none) target fuel
              (initSt (callGraph {} e b funcs target false none).cg memo orc)
    r.1 ≠ .panic .finalValue ∧ r.1 ≠ .panic .setNotAssignable ∧ r.1 ≠ .missingArg :=
  no_walk_panic e ht b funcs target hb hc hwf (paramsKept_of_single e ht b funcs target hb hc hwf hsi)
    hsmall beh fuel memo orc hleg

end ArgMapper.C06
