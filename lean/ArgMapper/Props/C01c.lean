import ArgMapper.Model.Hist
import ArgMapper.Props.C01b
import ArgMapper.Proofs.NoFabMemo
import ArgMapper.Proofs.NoFab
import ArgMapper.Proofs.NoFabCE
/-!
# C01 (values, not only labels): nothing is fabricated — over whole histories

`C01.injection_sound` speaks about *labels*: every injected value entered the graph at a supplied
value or at a converter output whose label is compatible with the parameter.  This file is about the
*values themselves* (their provenance ids): every argument any executed function receives, in any
`Call` of a history of `Call`s and `Redefine`s on shared function objects, is a value the caller of
that very call supplied, or a value some execution of the history returned (possibly in an earlier
call and served from a run-once cell).  In particular the zero values of `Redefine`'s planning run
never reach a real function.

`BehFull` is the one assumption about function bodies: a Go function returns one value per declared
result (the model's `BehOut.outs` is a list, which could be too short).

Helper lemmas: `ArgMapper/Proofs/NoFabMemo.lean` (the run-once cells and the log through `callWith`),
`ArgMapper/Proofs/NoFab.lean` (the provenance invariant through `reach`), `ArgMapper/Proofs/NoFabCE.lean`
(counterexamples to the original statements).

**Corrected statements.**  `no_fabrication_call` and `no_fabrication_hist` are false as first stated
(`no_fabrication_call_original_false_set`, `no_fabrication_call_original_false_cell`,
`no_fabrication_hist_original_false`): `outputValues` reads a result through `resultField`, which falls back
to the *zero value* (id 0) when it finds no id for the field, and `BehFull` alone does not exclude that:

* (`hk`) a `FuncDesc` carries arbitrary `ValueSet` records; the lookup maps of a converter's output set may
  hold a value that is not in its value list, and then no id is found whatever the body returned.  Excluded by
  `ValueSet.KeysOK` of the converters' output sets (true of every set `newFunc` builds: `newFunc_keysOK`, and
  of `stdCtx` under `FuncsConsistent`: `stdCtx_keysOK`).
* (`hm`) a run-once cell is read instead of running the body, and `BehFull` says nothing about the cells the
  function objects carry when the call starts — an arbitrary `HistState`, or the state an arbitrary earlier
  history left (its bodies are not assumed to be full, and its function objects need not be the same ones).
  Excluded by `MemoFull`: the cells the converters of this call would read hold one id per output value.
  `hist_memoFull` derives it for a history of calls on shared function objects with full bodies.
-/
namespace ArgMapper.C01
open ArgMapper

/-- the provenance ids of the values the caller of an operation supplied -/
def suppliedIds (cg : CG) : List Nat := cg.store.map (fun p => p.2.id)

/-- every body returns one id per declared output value -/
def BehFull (c : Ctx) (target : FuncDesc) : Prop :=
  (∀ n args, (c.beh target.id n args).outs.length = target.output.values.length) ∧
  ∀ k f, c.funcOf k = some f → ∀ n args, (c.beh f.id n args).outs.length = f.output.values.length

/-- all executions of the calls of a history, in order -/
def histLog (obs : List HistObs) : List ExecEv :=
  obs.flatMap (fun o => match o with | .call _ l => l | .redef _ => [])

/-- (added hypothesis) the run-once cells the converters of the context would read hold (at least) one id
per output value of the converter -/
def MemoFull (c : Ctx) (memo : List (Nat × Memo)) : Prop :=
  ∀ k f, c.funcOf k = some f → f.once = true → ∀ m, mapGet memo f.id = some m →
    f.output.values.length ≤ m.res.outs.length

theorem histLog_eq (obs : List HistObs) : histLog obs = NoFabMemo.obsLog obs := by
  unfold histLog NoFabMemo.obsLog
  congr 1

/-- every memo cell on the function objects holds the result of an execution of the history -/
theorem memo_from_history (fuel : Nat) (ops : List HistOp) :
    ∀ p ∈ (runHist fuel {} ops).1.memo,
      ∃ ev ∈ histLog (runHist fuel {} ops).2, ev.fid = p.1 ∧ ev.res = p.2.res := by
  intro p hp
  rcases NoFabMemo.runHist_src fuel ops {} [] (fun q hq => by cases hq) p hp with h | ⟨ev, hev, h⟩
  · exact absurd h id
  · exact ⟨ev, by rw [histLog_eq]; simpa using hev, h⟩

theorem outsListed_of_keysOK (c : Ctx) (hk : ∀ k f, c.funcOf k = some f → ValueSet.KeysOK f.output) :
    NoFab.OutsListed c :=
  fun k f hf => ⟨fun p hp => ((hk k f hf).1 p hp).1, fun p hp => ((hk k f hf).2 p hp).1⟩

theorem behLen_of_behFull (c : Ctx) (target : FuncDesc) (hb : BehFull c target) : NoFab.BehLen c :=
  fun k f hf n args => Nat.le_of_eq (hb.2 k f hf n args).symm

/-- one call, from any state of the function objects: an argument is a supplied value, an output of an
execution of this call, or an output held in a run-once cell at the start.
(Corrected statement: hypotheses `hk` and `hm` added, see the head of the file and below.) -/
theorem no_fabrication_call (c : Ctx) (cgr : CallGraphResult) (target : FuncDesc) (fuel : Nat) (h : HistState)
    (orc : List OrcItem) (hb : BehFull c target)
    (hk : ∀ k f, c.funcOf k = some f → ValueSet.KeysOK f.output) (hm : MemoFull c h.memo) :
    ∀ ev ∈ (histCall c cgr target fuel h orc).2.log, ∀ a ∈ ev.args,
      a.id ∈ suppliedIds cgr.cg ∨ (∃ p ∈ h.memo, a.id ∈ p.2.res.outs) ∨
      ∃ ev' ∈ (histCall c cgr target fuel h orc).2.log, a.id ∈ ev'.res.outs :=
  NoFab.histCall_no_fab (behLen_of_behFull c target hb) (outsListed_of_keysOK c hk) cgr target fuel h orc hm

/- ORIGINAL STATEMENT of `no_fabrication_call` — FALSE (corrected above; it had neither `hk` nor `hm`):

    theorem no_fabrication_call (c : Ctx) (cgr : CallGraphResult) (target : FuncDesc) (fuel : Nat) (h : HistState)
        (orc : List OrcItem) (hb : BehFull c target) :
        ∀ ev ∈ (histCall c cgr target fuel h orc).2.log, ∀ a ∈ ev.args,
          a.id ∈ suppliedIds cgr.cg ∨ (∃ p ∈ h.memo, a.id ∈ p.2.res.outs) ∨
          ∃ ev' ∈ (histCall c cgr target fuel h orc).2.log, a.id ∈ ev'.res.outs
-/

theorem behFull_ce (f : FuncDesc) (hf : f.id = 1 ∧ f.output.values.length = 1) :
    BehFull (NoFabCE.ctx f NoFabCE.behFull) NoFabCE.tgt := by
  refine ⟨fun _ _ => rfl, ?_⟩
  intro k g hg n args
  rcases NoFabCE.funcOf_mem f g _ k hg with rfl | rfl
  · rfl
  · rw [hf.2]
    show (NoFabCE.behFull g.id n args).outs.length = 1
    rw [hf.1]; rfl

/-- the original `no_fabrication_call` is false (needs `hk`): a converter whose typed output map holds a value
that is not in its value list; fresh function objects, full bodies — the target receives id 0 -/
theorem no_fabrication_call_original_false_set :
    ∃ (c : Ctx) (cgr : CallGraphResult) (target : FuncDesc) (fuel : Nat) (h : HistState) (orc : List OrcItem),
      BehFull c target ∧ MemoFull c h.memo ∧
      ¬ ∀ ev ∈ (histCall c cgr target fuel h orc).2.log, ∀ a ∈ ev.args,
        a.id ∈ suppliedIds cgr.cg ∨ (∃ p ∈ h.memo, a.id ∈ p.2.res.outs) ∨
        ∃ ev' ∈ (histCall c cgr target fuel h orc).2.log, a.id ∈ ev'.res.outs :=
  ⟨NoFabCE.ctx NoFabCE.convBad NoFabCE.behFull, NoFabCE.cgr NoFabCE.convBad, NoFabCE.tgt, 5, {}, NoFabCE.orc,
    behFull_ce _ ⟨rfl, rfl⟩, (fun _ _ _ _ m hm => by cases hm), NoFabCE.bad_set_fabricates⟩

theorem keysOK_ce (once : Bool) (k : Nat) (f : FuncDesc)
    (hf : (NoFabCE.ctx (NoFabCE.conv once) NoFabCE.behFull).funcOf k = some f) : ValueSet.KeysOK f.output := by
  rcases NoFabCE.funcOf_mem _ f _ k hf with rfl | rfl
  · unfold ValueSet.KeysOK; decide
  · cases once <;> (unfold ValueSet.KeysOK; decide)

/-- the original `no_fabrication_call` is false (needs `hm`): well-formed value sets, full bodies, and a
run-once cell that holds a result without ids — the target receives id 0 -/
theorem no_fabrication_call_original_false_cell :
    ∃ (c : Ctx) (cgr : CallGraphResult) (target : FuncDesc) (fuel : Nat) (h : HistState) (orc : List OrcItem),
      BehFull c target ∧ (∀ k f, c.funcOf k = some f → ValueSet.KeysOK f.output) ∧
      ¬ ∀ ev ∈ (histCall c cgr target fuel h orc).2.log, ∀ a ∈ ev.args,
        a.id ∈ suppliedIds cgr.cg ∨ (∃ p ∈ h.memo, a.id ∈ p.2.res.outs) ∨
        ∃ ev' ∈ (histCall c cgr target fuel h orc).2.log, a.id ∈ ev'.res.outs :=
  ⟨NoFabCE.ctx (NoFabCE.conv true) NoFabCE.behFull, NoFabCE.cgr (NoFabCE.conv true), NoFabCE.tgt, 5,
    NoFabCE.hShort, NoFabCE.orc, behFull_ce _ ⟨rfl, rfl⟩, keysOK_ce true, NoFabCE.short_cell_fabricates⟩

/-- **C01 over histories**: after any history `pre` (calls and Redefines, from fresh function objects),
every argument of every execution of a further call was supplied to that call or returned by an
execution of the history (this call included).
(Corrected statement: hypotheses `hk` and `hm` added; `hist_memoFull` discharges `hm` for histories on
shared function objects whose bodies are full.) -/
theorem no_fabrication_hist (fuel : Nat) (pre : List HistOp) (c : Ctx) (cgr : CallGraphResult) (target : FuncDesc)
    (orc : List OrcItem) (hb : BehFull c target)
    (hk : ∀ k f, c.funcOf k = some f → ValueSet.KeysOK f.output)
    (hm : MemoFull c (runHist fuel {} pre).1.memo) :
    ∀ ev ∈ (histCall c cgr target fuel (runHist fuel {} pre).1 orc).2.log, ∀ a ∈ ev.args,
      a.id ∈ suppliedIds cgr.cg ∨
      ∃ ev' ∈ histLog (runHist fuel {} pre).2 ++ (histCall c cgr target fuel (runHist fuel {} pre).1 orc).2.log,
        a.id ∈ ev'.res.outs := by
  intro ev hev a ha
  rcases no_fabrication_call c cgr target fuel _ orc hb hk hm ev hev a ha with h | ⟨p, hp, h⟩ | ⟨ev', hev', h⟩
  · exact .inl h
  · obtain ⟨ev', hev', _, hres⟩ := memo_from_history fuel pre p hp
    exact .inr ⟨ev', List.mem_append_left _ hev', by rw [hres]; exact h⟩
  · exact .inr ⟨ev', List.mem_append_right _ hev', h⟩

/- ORIGINAL STATEMENT of `no_fabrication_hist` — FALSE (corrected above; it had neither `hk` nor `hm`):

    theorem no_fabrication_hist (fuel : Nat) (pre : List HistOp) (c : Ctx) (cgr : CallGraphResult) (target : FuncDesc)
        (orc : List OrcItem) (hb : BehFull c target) :
        ∀ ev ∈ (histCall c cgr target fuel (runHist fuel {} pre).1 orc).2.log, ∀ a ∈ ev.args,
          a.id ∈ suppliedIds cgr.cg ∨
          ∃ ev' ∈ histLog (runHist fuel {} pre).2 ++ (histCall c cgr target fuel (runHist fuel {} pre).1 orc).2.log,
            a.id ∈ ev'.res.outs
-/

/-- the original `no_fabrication_hist` is false (needs `hm`; `hk` as for the single call): an earlier call of the
history ran the run-once converter with a body that returned no id; the later call (well-formed value
sets, full bodies) serves the target the zero value -/
theorem no_fabrication_hist_original_false :
    ∃ (fuel : Nat) (pre : List HistOp) (c : Ctx) (cgr : CallGraphResult) (target : FuncDesc) (orc : List OrcItem),
      BehFull c target ∧ (∀ k f, c.funcOf k = some f → ValueSet.KeysOK f.output) ∧
      ¬ ∀ ev ∈ (histCall c cgr target fuel (runHist fuel {} pre).1 orc).2.log, ∀ a ∈ ev.args,
        a.id ∈ suppliedIds cgr.cg ∨
        ∃ ev' ∈ histLog (runHist fuel {} pre).2 ++ (histCall c cgr target fuel (runHist fuel {} pre).1 orc).2.log,
          a.id ∈ ev'.res.outs :=
  ⟨5, NoFabCE.pre, NoFabCE.ctx (NoFabCE.conv true) NoFabCE.behFull, NoFabCE.cgr (NoFabCE.conv true), NoFabCE.tgt,
    NoFabCE.orc, behFull_ce _ ⟨rfl, rfl⟩, keysOK_ce true, NoFabCE.short_history_fabricates⟩

/-! ### discharging the added hypotheses -/

/-- `hk` holds in the context `Call` runs in when the function objects are consistent (`newFunc_keysOK`:
they are when their value sets are built by the model of `NewFunc`) -/
theorem stdCtx_keysOK (e : TypeEnv) (b : Builder) (funcs : Nat → Option FuncDesc) (target : FuncDesc)
    (beh : Nat → Nat → List PVal → BehOut) (hc : FuncsConsistent (allFuncs b funcs target)) :
    ∀ k f, (stdCtx e b funcs target beh).funcOf k = some f → ValueSet.KeysOK f.output :=
  fun k f hf =>
    have hf' : (allFuncs b funcs target).find? (fun g => g.key == k) = some f := hf
    (hc.2 f (List.mem_of_find?_eq_some hf')).2

/-- the operation runs on the shared function objects: `objs id` is the number of output values of the
object `id` -/
def SharedObjs (objs : Nat → Nat) (c : Ctx) (target : FuncDesc) : Prop :=
  target.output.values.length = objs target.id ∧
  ∀ k f, c.funcOf k = some f → f.output.values.length = objs f.id

/-- every call of the history runs full bodies on the shared function objects -/
def HistShared (objs : Nat → Nat) (ops : List HistOp) : Prop :=
  ∀ op ∈ ops, match op with
    | .call c _ t _ => BehFull c t ∧ SharedObjs objs c t
    | .redefine .. => True

/-- `hm` holds after every history of calls with full bodies on shared function objects -/
theorem hist_memoFull (objs : Nat → Nat) (fuel : Nat) (pre : List HistOp) (c : Ctx) (target : FuncDesc)
    (hpre : HistShared objs pre) (hs : SharedObjs objs c target) :
    MemoFull c (runHist fuel {} pre).1.memo := by
  have hops : NoFabMemo.OpsLen objs pre := by
    intro op hop
    have := hpre op hop
    cases op with
    | call c' cgr' t' orc' =>
      obtain ⟨hb, hs'⟩ := this
      rintro f (rfl | ⟨k, hk⟩) n args
      · rw [hb.1, hs'.1]
      · rw [hb.2 k f hk, hs'.2 k f hk]
    | redefine => trivial
  have hlen := NoFabMemo.runHist_lenOK objs fuel pre {} hops (fun p hp => by cases hp)
  intro k f hf _ m hm
  have := hlen _ (NoFab.mem_of_mapGet' hm)
  rw [this, hs.2 k f hf]
  exact Nat.le_refl _

/-- **C01 over histories, on shared function objects**: both added hypotheses discharged by what the
scenario is — every operation runs full bodies on the same function objects -/
theorem no_fabrication_hist_shared (objs : Nat → Nat) (fuel : Nat) (pre : List HistOp) (c : Ctx)
    (cgr : CallGraphResult) (target : FuncDesc) (orc : List OrcItem) (hb : BehFull c target)
    (hk : ∀ k f, c.funcOf k = some f → ValueSet.KeysOK f.output)
    (hpre : HistShared objs pre) (hs : SharedObjs objs c target) :
    ∀ ev ∈ (histCall c cgr target fuel (runHist fuel {} pre).1 orc).2.log, ∀ a ∈ ev.args,
      a.id ∈ suppliedIds cgr.cg ∨
      ∃ ev' ∈ histLog (runHist fuel {} pre).2 ++ (histCall c cgr target fuel (runHist fuel {} pre).1 orc).2.log,
        a.id ∈ ev'.res.outs :=
  no_fabrication_hist fuel pre c cgr target orc hb hk (hist_memoFull objs fuel pre c target hpre hs)

/-- non-vacuity: the hypotheses of `no_fabrication_call` hold in a concrete context (run-once converter
`func(A) C`, target `func(C)`, `Typed(A)` with id 10, fresh function objects), and the call runs both bodies:
the converter receives the supplied id, the target the id the converter returned -/
example :
    BehFull (NoFabCE.ctx (NoFabCE.conv true) NoFabCE.behFull) NoFabCE.tgt ∧
    (∀ k f, (NoFabCE.ctx (NoFabCE.conv true) NoFabCE.behFull).funcOf k = some f → ValueSet.KeysOK f.output) ∧
    MemoFull (NoFabCE.ctx (NoFabCE.conv true) NoFabCE.behFull) ({} : HistState).memo ∧
    suppliedIds (NoFabCE.cgr (NoFabCE.conv true)).cg = [10] ∧
    (histCall (NoFabCE.ctx (NoFabCE.conv true) NoFabCE.behFull) (NoFabCE.cgr (NoFabCE.conv true)) NoFabCE.tgt 5
      {} NoFabCE.orc).2.log.map (fun ev => ev.args.map (·.id)) = [[10], [7]] :=
  ⟨behFull_ce _ ⟨rfl, rfl⟩, keysOK_ce true, (fun _ _ _ _ m hm => by cases hm), NoFabCE.supplied.1, NoFabCE.good_log⟩

end ArgMapper.C01
