import ArgMapper.Model.Gens
import ArgMapper.Proofs.GensLemmas
/-!
# Converter generators (C06, and the reach of every `callGraph` theorem)

Property theorems only.  Generators are user code run while the graph is built; the snapshot of
vertices they are invoked for is iterated in Go map order (`order`, any permutation).

* `generators_transparent`: when no generator reports an error, the graph is the graph `callGraph`
  builds for the builder whose converter list is extended by the generated functions — so every
  theorem stated for all builders (C01 injection soundness, C02/C13 unsatisfied reports, C03, C04,
  C05, C08 …) covers generated converters.
* `generator_error_reported`: a generator error on any visited value aborts the call with an error —
  for every iteration order — and nothing else does.
* `generated_sound_complete`, `runGens_perm`: what is generated is exactly what the generators return
  for the snapshot, independent of the order up to permutation.
-/
namespace ArgMapper.C06
open ArgMapper GensLemmas

theorem generators_transparent (var : Variant) (e : TypeEnv) (b : Builder) (funcs : Nat → Option FuncDesc)
    (target : FuncDesc) (redefining : Bool) (filter : Option Filter) (genOf : Nat → Vtx → GenRes)
    (order : List Vtx) (r : CallGraphResult)
    (h : callGraphG var e b funcs target redefining filter genOf order = some r) :
    ∃ l, runGens genOf b.gens order = some l ∧
      r = callGraph var e { b with convs := b.convs ++ l } funcs target redefining filter := by
  unfold callGraphG expandGens at h
  cases hr : runGens genOf b.gens order with
  | none => rw [hr] at h; simp at h
  | some l =>
    rw [hr] at h
    simp only [Option.map_some, Option.some.injEq] at h
    exact ⟨l, rfl, h.symm⟩

/-- without generators nothing changes -/
theorem no_generators (var : Variant) (e : TypeEnv) (b : Builder) (funcs : Nat → Option FuncDesc)
    (target : FuncDesc) (redefining : Bool) (filter : Option Filter) (genOf : Nat → Vtx → GenRes)
    (order : List Vtx) (hg : b.gens = []) :
    callGraphG var e b funcs target redefining filter genOf order =
      some (callGraph var e b funcs target redefining filter) := by
  unfold callGraphG expandGens
  rw [hg, runGens_nil_gens]
  simp only [Option.map_some, List.append_nil]
  rw [← hg]

theorem generator_error_reported (var : Variant) (e : TypeEnv) (b : Builder) (funcs : Nat → Option FuncDesc)
    (target : FuncDesc) (redefining : Bool) (filter : Option Filter) (genOf : Nat → Vtx → GenRes)
    (order : List Vtx) :
    callGraphG var e b funcs target redefining filter genOf order = none ↔
      ∃ v ∈ order, ∃ g ∈ b.gens, genOf g v = .err := by
  unfold callGraphG expandGens
  rw [Option.map_eq_none_iff, Option.map_eq_none_iff]
  exact runGens_eq_none_iff genOf b.gens order

theorem generated_sound_complete (genOf : Nat → Vtx → GenRes) (gens : List Nat) (order : List Vtx)
    (l : List Nat) (h : runGens genOf gens order = some l) (fid : Nat) :
    fid ∈ l ↔ ∃ v ∈ order, ∃ g ∈ gens, genOf g v = .func fid := by
  rw [runGens_eq_some genOf gens order l h, List.mem_flatMap]
  constructor
  · rintro ⟨v, hv, hf⟩
    exact ⟨v, hv, (mem_outs genOf gens v fid).1 hf⟩
  · rintro ⟨v, hv, hf⟩
    exact ⟨v, hv, (mem_outs genOf gens v fid).2 hf⟩

theorem runGens_perm (genOf : Nat → Vtx → GenRes) (gens : List Nat) (o₁ o₂ : List Vtx) (hp : o₁.Perm o₂) :
    (runGens genOf gens o₁ = none ↔ runGens genOf gens o₂ = none) ∧
    ∀ l₁ l₂, runGens genOf gens o₁ = some l₁ → runGens genOf gens o₂ = some l₂ → l₁.Perm l₂ := by
  refine ⟨?_, ?_⟩
  · rw [runGens_eq, runGens_eq, any_bad_perm genOf gens hp]
    cases o₂.any (bad genOf gens) <;> simp
  · intro l₁ l₂ h₁ h₂
    rw [runGens_eq_some genOf gens o₁ l₁ h₁, runGens_eq_some genOf gens o₂ l₂ h₂]
    exact flatMap_perm _ hp

/-- the snapshot contains only named values and typed outputs … -/
theorem genVerts_kinds (c : CG) (v : Vtx) (h : v ∈ genVerts c) : v.isValue = true ∨ v.isOut = true := by
  unfold genVerts at h
  have := (List.mem_filter.1 h).2
  simpa [Bool.or_eq_true] using this

/-- … and every supplied value is in it: a generator sees each value the caller supplied -/
theorem supplied_in_snapshot (b : Builder) (funcs : Nat → Option FuncDesc) (target : FuncDesc) (v : Vtx)
    (h : v ∈ (inputsGraph ((CG.empty.add .root) |> (funcGraph · target false)) b).2) :
    v ∈ genVerts (preGenGraph b funcs target) := by
  rw [Prune.inputsGraph_eq] at h
  unfold genVerts
  exact List.mem_filter.2 ⟨inputs_mem_preGen b funcs target v h, inputsList_kind b v h⟩

end ArgMapper.C06
