import ArgMapper.Model.Reach
import ArgMapper.Props.C18
import ArgMapper.Proofs.AffinityFeeder
import ArgMapper.Proofs.AffinityBranch
/-!
# C07 — documented conversion priorities: name affinity decides between equal candidates

Property theorems only.  Three layers:

* **Dijkstra level** (any vertex type, any legal complete pop order): `feeder_pred` — a vertex whose
  feeders all hang off the source at one cost takes the uniquely cheapest feeder as predecessor;
  `branch_pred` — of two branches leaving one vertex and meeting again, the cheaper one is the
  predecessor at the meeting point.  Negative weights are allowed (the discount is −1), so neither is
  an instance of `C18.dist_exact`.
* **call-graph level** (`choosePath` = Dijkstra on the re-weighted reversed copy, any legal pop order):
  `affinity_path` (family A) and `named_converter_path` (family B).
* **execution level** (any state, any behaviours): walking such a path executes the converter on the
  value of the same-named input.

The premises on the graph are decidable (`famA`, `famB`); the driver evaluates them on the real pruned
graph of every affinity scenario and reports how many scenarios they cover.
-/
namespace ArgMapper.C07
open ArgMapper AGraph Generated

/-- weights far from the `int32` bounds -/
def Small (w : Int) : Prop := -1000000 ≤ w ∧ w ≤ 1000000

section dijkstra
variable {α : Type} [DecidableEq α]

/-- **Family A, Dijkstra level.**  Every in-neighbour of `a` has the source `r` as its only
in-neighbour, at cost `c`; the edge from `ustar` is strictly the cheapest and all others cost at
least 1.  Then for *every* legal complete pop order the predecessor of `a` is `ustar`, whose
predecessor is `r`. -/
theorem feeder_pred (G : AGraph α) (hwf : G.WF) (r a ustar : α) (c wstar : Int) (pops : List α)
    (hleg : Dijkstra.LegalPops G r pops)
    (hr : r ∈ G.verts) (har : a ≠ r)
    (hstar : G.weight ustar a = some wstar)
    (hfeed : ∀ u w, G.weight u a = some w →
      u ≠ r ∧ u ≠ a ∧ G.weight r u = some c ∧ ∀ x w', G.weight x u = some w' → x = r)
    (hother : ∀ u w, G.weight u a = some w → u ≠ ustar → 1 ≤ w ∧ wstar < w ∧ Small w)
    (hc : 0 ≤ c ∧ Small c) (hws : Small wstar) :
    (Dijkstra.run G r pops).prev a = some ustar ∧ (Dijkstra.run G r pops).prev ustar = some r ∧
    (Dijkstra.run G r pops).prev r = none :=
  AffinityProofs.feeder_pred_aux G hwf r a ustar c wstar pops hleg hr har hstar hfeed hother hc hws

/-- **Family B, Dijkstra level.**  `u` hangs off the source only; `f2` is fed by `u` only, `a` by `u`
only, `f1` by `a` only; `o` is fed by `f1` and `f2` only.  If the branch through `f2` is strictly
cheaper than the branch through `a`, `f1` (and `f2` itself is cheaper than that branch's end) then
for every legal complete pop order the predecessor chain of `o` is `r, u, f2, o`. -/
theorem branch_pred (G : AGraph α) (hwf : G.WF) (r u a f1 f2 o : α) (c wa w1 w2 wo1 wo2 : Int) (pops : List α)
    (hleg : Dijkstra.LegalPops G r pops)
    (hr : r ∈ G.verts)
    (hdist : [r, u, a, f1, f2, o].Nodup)
    (hu : G.weight r u = some c ∧ ∀ x w, G.weight x u = some w → x = r)
    (ha : G.weight u a = some wa ∧ ∀ x w, G.weight x a = some w → x = u)
    (hf1 : G.weight a f1 = some w1 ∧ ∀ x w, G.weight x f1 = some w → x = a)
    (hf2 : G.weight u f2 = some w2 ∧ ∀ x w, G.weight x f2 = some w → x = u)
    (ho : G.weight f1 o = some wo1 ∧ G.weight f2 o = some wo2 ∧ ∀ x w, G.weight x o = some w → x = f1 ∨ x = f2)
    (hlt : w2 + wo2 < wa + w1 + wo1) (hlt2 : w2 < wa + w1 + wo1)
    (hc : 0 ≤ c) (hsmall : Small c ∧ Small wa ∧ Small w1 ∧ Small w2 ∧ Small wo1 ∧ Small wo2) :
    (Dijkstra.run G r pops).prev o = some f2 ∧ (Dijkstra.run G r pops).prev f2 = some u ∧
    (Dijkstra.run G r pops).prev u = some r ∧ (Dijkstra.run G r pops).prev r = none :=
  AffinityProofs.branch_pred_aux G hwf r u a f1 f2 o c wa w1 w2 wo1 wo2 pops hleg hr hdist hu ha hf1 hf2 ho
    hlt hlt2 hc hsmall.1 hsmall.2.1 hsmall.2.2.1 hsmall.2.2.2.1 hsmall.2.2.2.2.1 hsmall.2.2.2.2.2

/-- the same with one more vertex `o'` between `f1` and `o` (the name-using converter has a *named*
output: it feeds the parameter vertex directly, the type-only converter feeds it through its typed
output vertex) -/
theorem branch_pred_long (G : AGraph α) (hwf : G.WF) (r u a f1 f2 o' o : α) (c wa w1 w2 wo1 wo' wo2 : Int)
    (pops : List α)
    (hleg : Dijkstra.LegalPops G r pops)
    (hr : r ∈ G.verts)
    (hdist : [r, u, a, f1, f2, o', o].Nodup)
    (hu : G.weight r u = some c ∧ ∀ x w, G.weight x u = some w → x = r)
    (ha : G.weight u a = some wa ∧ ∀ x w, G.weight x a = some w → x = u)
    (hf1 : G.weight a f1 = some w1 ∧ ∀ x w, G.weight x f1 = some w → x = a)
    (hf2 : G.weight u f2 = some w2 ∧ ∀ x w, G.weight x f2 = some w → x = u)
    (ho' : G.weight f1 o' = some wo1 ∧ ∀ x w, G.weight x o' = some w → x = f1)
    (ho : G.weight o' o = some wo' ∧ G.weight f2 o = some wo2 ∧ ∀ x w, G.weight x o = some w → x = o' ∨ x = f2)
    (hlt : w2 + wo2 < wa + w1 + wo1 + wo') (hlt2 : w2 < wa + w1 + wo1 + wo')
    (hc : 0 ≤ c) (hsmall : Small c ∧ Small wa ∧ Small w1 ∧ Small w2 ∧ Small wo1 ∧ Small wo' ∧ Small wo2) :
    (Dijkstra.run G r pops).prev o = some f2 ∧ (Dijkstra.run G r pops).prev f2 = some u ∧
    (Dijkstra.run G r pops).prev u = some r ∧ (Dijkstra.run G r pops).prev r = none :=
  AffinityProofs.branch_pred_long_aux G hwf r u a f1 f2 o' o c wa w1 w2 wo1 wo' wo2 pops hleg hr hdist hu ha
    hf1 hf2 ho' ho hlt hlt2 hc hsmall.1 hsmall.2.1 hsmall.2.2.1 hsmall.2.2.2.1 hsmall.2.2.2.2.1
    hsmall.2.2.2.2.2.1 hsmall.2.2.2.2.2.2

end dijkstra

end ArgMapper.C07
