import ArgMapper.Props.C15
import ArgMapper.Proofs.TagStrings2
/-!
# C15 (continued) — the struct-tag round trip, and what `NewValueSet` refuses

Property theorems only.  `C15.values_roundtrip` and the lookup theorems assume `TagRoundTrips`: the label
rendered into a struct tag by `valueField` parses back (`fieldLabel`).  Here that hypothesis is
discharged for every label whose subtype contains no comma — in particular for every label the
validation of `NewValueSet` (`labelOK`, added by the repair of finding F19) accepts — and the checked
constructor is characterised.
-/
namespace ArgMapper.C15
open ArgMapper

/-- splitting a list of characters at a separator character -/
def splitChars (sep : Char) : List Char → List (List Char)
  | [] => [[]]
  | c :: cs =>
    if c = sep then [] :: splitChars sep cs
    else match splitChars sep cs with
      | [] => [[c]]
      | p :: ps => (c :: p) :: ps

/-- `String.splitOn` with a one-character separator is the obvious split of the character list -/
theorem splitOn_char (s : String) (sep : Char) :
    s.splitOn sep.toString = (splitChars sep s.toList).map String.ofList := by
  have he : ∀ cs, splitChars sep cs = TagStrings.splitChars sep cs := by
    intro cs
    induction cs with
    | nil => rfl
    | cons c cs ih =>
      simp only [splitChars, TagStrings.splitChars, ih]
      split
      · rfl
      · cases TagStrings.splitChars sep cs <;> rfl
  rw [he]
  exact TagStrings.splitOn_char s sep

/-- **the tag round trip** — a label whose subtype contains no comma survives `valueField` / `fieldLabel` -/
theorem tag_roundtrip (i : Nat) (l : Label) (h : ',' ∉ l.sub.toList) :
    fieldLabel (valueField i l) = { l with name := lower l.name } := by
  exact TagStrings.tag_roundtrip i l h

theorem subtypeOK_no_comma (s : String) (h : subtypeOK s = true) : ',' ∉ s.toList := by
  exact TagStrings.subtypeOK_no_comma s h

/-- `TagRoundTrips` holds for every list of labels the validation accepts -/
theorem tagRoundTrips_of_ok (vs : List Label) (h : vs.all labelOK = true) : TagRoundTrips vs := by
  intro i l hl
  have hm : l ∈ vs := List.mem_of_getElem? hl
  have hok : labelOK l = true := List.all_eq_true.1 h l hm
  unfold labelOK at hok
  rw [Bool.and_eq_true] at hok
  exact tag_roundtrip i l (subtypeOK_no_comma l.sub hok.1)

/-- **C15_checked** — `NewValueSet` with its validation: a list containing a label that cannot be
represented is refused; an accepted list yields a set that reports the values back (names lower-cased),
in order — with no hypothesis left about strings -/
theorem checked_rejects (vs : List Label) (h : vs.all labelOK = false) :
    newValueSetChecked vs = .error .unrepresentable := by
  unfold newValueSetChecked
  rw [h]
  rfl

theorem checked_values_roundtrip (vs : List Label) (s : ValueSet) (h : newValueSetChecked vs = .ok s) :
    s.labels = vs.map (fun l => { l with name := lower l.name }) ∧
    s.values.map (·.index) = (List.range vs.length).map (· + 1) := by
  unfold newValueSetChecked at h
  split at h
  · next hok =>
    obtain ⟨s', hs', h1, h2⟩ := values_roundtrip vs (tagRoundTrips_of_ok vs hok)
    rw [hs'] at h
    cases h
    exact ⟨h1, h2⟩
  · cases h

end ArgMapper.C15
