import ArgMapper.Props.C01
import ArgMapper.Model.Redefine
import ArgMapper.Proofs.RedefineInputs
/-!
# C08 — Redefine yields a function over exactly the missing, permitted inputs (model level)

Property theorems only (helper lemmas in `ArgMapper/Proofs/RedefineInputs.lean`).
-/
namespace ArgMapper.C08
open ArgMapper

/-- does the input filter admit a value of this type? (`none` = no filter given) -/
def passes (e : TypeEnv) (fin : Option Filter) (t : Nat) : Bool :=
  match fin with
  | none => true
  | some f => f.eval e t

/-- **C08_inputs_filtered_fresh** — when the planning run succeeds, every input the redefined function
declares (a) passes the input filter and (b) is not one of the vertices the caller supplied a value
for.  Holds for every oracle (root-first real paths, as `validPath` checks) and every behaviour of
the stand-ins; `skipRecordsInput = false` is the repaired behaviour (finding F9a), and the graph is
built with the repaired rule R8 (finding F9b). -/
theorem inputs_filtered_fresh (e : TypeEnv) (b : Builder) (funcs : Nat → Option FuncDesc)
    (target : FuncDesc) (fin fout : Option Filter) (c : Ctx)
    (hg : c.g = (callGraph {} e b funcs target true fin).cg.g) (hskip : c.skipRecordsInput = false)
    (fuel : Nat) (s0 : CallSt) (hin : s0.inputSet = []) (ls : List Label)
    (h : redefine c (callGraph {} e b funcs target true fin) target fout fuel s0 = .ok ls) :
    ∀ l ∈ ls, passes e fin l.ty = true ∧
      ∃ v, v ∉ (callGraph {} e b funcs target true fin).inputs ∧ (v.isValue = true ∨ v.isArg = true) ∧
        l = { v.label with sub := "" } := by
  intro l hl
  rw [RedefineInputs.redefine_ok c _ target fout fuel s0 ls h] at hl
  obtain ⟨v, hv, hnot, hkind, hlab⟩ := RedefineInputs.mem_declaredInputs _ _ l hl
  have hadj : c.g.hasEdge v .root = true :=
    RedefineInputs.reach_inputSet c hskip true fuel [] _ s0 (by intro u hu; rw [hin] at hu; cases hu) v hv
  rw [hg] at hadj
  have hty : l.ty = v.ty := by
    rw [hlab]
    rcases hkind with hk | hk <;> cases v <;> first | rfl | cases hk
  refine ⟨?_, v, hnot, hkind, hlab⟩
  rcases RedefineInputs.callGraph_rootAdj {} e b funcs target fin v hkind hadj with hmem | hp
  · exact absurd hmem hnot
  · rw [hty]
    exact hp

/-- the freshness half, stated on vertices: a declared input comes from a used input vertex that is
not among the supplied ones -/
theorem declared_not_supplied (inputSet provided : List Vtx) (l : Label) (h : l ∈ declaredInputs inputSet provided) :
    ∃ v ∈ inputSet, v ∉ provided ∧ (v.isValue = true ∨ v.isArg = true) ∧ l = { v.label with sub := "" } :=
  RedefineInputs.mem_declaredInputs inputSet provided l h

/-- **C08_output_filter** — Redefine fails exactly with the output-filter error iff some output of the
function is rejected by the output filter (checked before anything else) -/
theorem output_filter (c : Ctx) (cgr : CallGraphResult) (target : FuncDesc) (fout : Option Filter)
    (fuel : Nat) (s0 : CallSt) :
    redefine c cgr target fout fuel s0 = .outputFiltered ↔ outputsPass c.env target fout = false :=
  RedefineInputs.redefine_outputFiltered c cgr target fout fuel s0

/-- what `reachTarget` records in redefine mode (after the repair of F9a) is adjacent to the root -/
theorem inputSet_root_adjacent (c : Ctx) (hskip : c.skipRecordsInput = false) (fuel : Nat)
    (reaching : List Vtx) (t : Vtx) (s : CallSt) (hs : ∀ v ∈ s.inputSet, c.g.hasEdge v .root = true) :
    ∀ v ∈ (reach c true fuel reaching t s).2.inputSet, c.g.hasEdge v .root = true :=
  RedefineInputs.reach_inputSet c hskip true fuel reaching t s hs

/-- in the Redefine graph a value / typed-argument vertex adjacent to the root is either a supplied
value or passes the input filter -/
theorem root_adjacent_supplied_or_permitted (e : TypeEnv) (b : Builder) (funcs : Nat → Option FuncDesc)
    (target : FuncDesc) (fin : Option Filter) (v : Vtx) (hv : v.isValue = true ∨ v.isArg = true)
    (h : (callGraph {} e b funcs target true fin).cg.g.hasEdge v .root = true) :
    v ∈ (callGraph {} e b funcs target true fin).inputs ∨ passes e fin v.ty = true :=
  RedefineInputs.callGraph_rootAdj {} e b funcs target fin v hv h

end ArgMapper.C08
