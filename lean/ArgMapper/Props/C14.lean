import ArgMapper.Model.Sig
import ArgMapper.Proofs.Sig
/-!
# C14 — introspection mirrors the Go signature exactly
Property theorems only (helper lemmas in `ArgMapper/Proofs/Sig.lean`).

Tag *strings* are parsed by `parseTag` (compared with the real parser on generated tags by the
correspondence run); the theorems here are about what is done with the parsed tag.
-/
namespace ArgMapper.C14
open ArgMapper

/-- **C14_values_spec (struct forms)** — for a struct or pointer-to-struct parameter the reported
values are, in declaration order, one per exported non-marker field, each carrying its field
position as index. -/
theorem struct_values (d : Nat) (hd : d ≤ 1) (fs : List Field) :
    ∃ vs, newValueSetFromStruct d fs = .ok vs ∧ vs.labels = specStructLabels fs ∧
      vs.lifted = false ∧ vs.ptrs = d ∧
      ∀ v ∈ vs.values, ∃ f, fs[v.index]? = some f ∧ f.exported = true ∧ f.marker = false ∧ fieldLabel f = v.lab := by
  refine ⟨_, newValueSetFromStruct_eq d hd fs, structVals_labels fs 0, rfl, rfl, ?_⟩
  intro v hv
  obtain ⟨_, f, h1, h2, h3⟩ := structVals_mem fs 0 v hv
  simp only [keep, Bool.and_eq_true, Bool.not_eq_true'] at h2
  exact ⟨f, by simpa using h1, h2.1, h2.2, h3⟩

/-- names come from the tag if it gives one and from the field otherwise, always lower-cased,
emptied by `typeOnly`; the subtype comes from the tag -/
theorem field_label (f : Field) :
    (fieldLabel f).ty = f.ty ∧ (fieldLabel f).sub = (parseTag f.tag).subtype ∧
    ((parseTag f.tag).typeOnly = true → (fieldLabel f).name = "") ∧
    ((parseTag f.tag).typeOnly = false → (parseTag f.tag).nameOverride ≠ "" →
        (fieldLabel f).name = lower (parseTag f.tag).nameOverride) ∧
    ((parseTag f.tag).typeOnly = false → (parseTag f.tag).nameOverride = "" →
        (fieldLabel f).name = lower f.name) := by
  unfold fieldLabel
  refine ⟨rfl, rfl, ?_, ?_, ?_⟩
  · intro h; simp [h]
  · intro h h'; simp [h, h']
  · intro h h'; simp [h, h']

/-- **C14_ptr_equiv** — pointer-to-struct forms report what struct forms report -/
theorem ptr_equiv (fs : List Field) :
    (newValueSetFromStruct 1 fs).map (·.labels) = (newValueSetFromStruct 0 fs).map (·.labels) := by
  rw [newValueSetFromStruct_eq 1 (by omega), newValueSetFromStruct_eq 0 (by omega)]; rfl

/-- **C14_values_spec (positional)** — one type-only value per position, in order -/
theorem positional_values (ps : List Param) (hne : ps ≠ []) (hns : ∀ p ∈ ps, p.isStruct = false) :
    ∃ vs, newValueSet ps = .ok vs ∧ vs.labels = specPositionalLabels ps ∧ vs.lifted = true ∧
      (vs.values.map (·.index)) = List.range ps.length := by
  refine ⟨_, (newValueSet_eq_lifted ps hns hne).trans (newValueSetLifted_eq ps hns), ?_, rfl, ?_⟩
  · apply List.ext_getElem?
    intro j
    simp [ValueSet.labels, specPositionalLabels, List.getElem?_mapIdx]
    cases ps[j]? <;> rfl
  · apply List.ext_getElem?
    intro j
    simp only [List.getElem?_map, List.getElem?_mapIdx]
    by_cases h : j < ps.length
    · simp [List.getElem?_range h, List.getElem?_eq_getElem h, liftedVal]
    · have : ps[j]? = none := List.getElem?_eq_none (by omega)
      simp [this, List.getElem?_eq_none (show (List.range ps.length).length ≤ j by simp; omega)]

/-- **C14_error_stripped** — a final `error` result is excluded from the outputs, and only a
final one -/
theorem error_stripped (ins outs : List Param) (fs : FuncSig) (h : newFunc ins (outs ++ [.plain errorTy]) = .ok fs) :
    newValueSet outs = .ok fs.output ∧ fs.hasErr = true := by
  have := newFunc_ok h
  simpa [lastIsErr_concat_error] using this

theorem no_error_kept (ins outs : List Param) (fs : FuncSig) (h : newFunc ins outs = .ok fs)
    (hl : ∀ p, outs.getLast? = some p → p.isStruct = true ∨ p.ty ≠ errorTy) :
    newValueSet outs = .ok fs.output ∧ fs.hasErr = false := by
  have := newFunc_ok h
  simpa [lastIsErr_false outs hl] using this

/-- **C14_rejects** — marker structs mixed with other parameters and doubly indirected marker
structs are rejected at construction -/
theorem rejects_mix (ps : List Param) (hlen : 2 ≤ ps.length) (hs : ∃ p ∈ ps, p.isStruct = true) :
    newValueSet ps = .error .mix := by
  obtain ⟨p, hp, hps⟩ := hs
  have hl : newValueSet ps = newValueSetLifted ps := by
    unfold newValueSet
    split
    · simp at hlen
    · simp at hlen
    · rfl
  rw [hl]
  unfold newValueSetLifted
  have : ps.any Param.isStruct = true := List.any_eq_true.mpr ⟨p, hp, hps⟩
  simp [this]

theorem rejects_double_pointer (t d : Nat) (fs : List Field) (hd : 2 ≤ d)
    (hm : (Param.struct t d fs).isStruct = true) :
    newValueSet [.struct t d fs] = .error .ptrDepth := by
  unfold newValueSet
  simp only [hm, if_true]
  unfold newValueSetFromStruct
  rw [if_pos (by omega)]

/-- non-vacuity: a struct with a renamed, a type-only, an unexported and a subtype-tagged field -/
example : (newValueSetFromStruct 1
    [markerField, ⟨"A", "", 0, true, false⟩, ⟨"b", "", 1, false, false⟩, ⟨"C", ",typeOnly", 2, true, false⟩,
     ⟨"E", "Renamed,subtype=s1", 4, true, false⟩]).map (·.labels) =
    .ok [⟨"a", 0, ""⟩, ⟨"", 2, ""⟩, ⟨"renamed", 4, "s1"⟩] := by
  rw [newValueSetFromStruct_eq 1 (by omega)]
  show Except.ok ((structVals 0 _).map (·.lab)) = _
  rw [structVals_labels, specStructLabels, fieldLabel_eq_C]
  apply congrArg Except.ok
  decide +kernel

end ArgMapper.C14
