import ArgMapper.Props.C01
import ArgMapper.Props.C20
import ArgMapper.Proofs.Prune
/-!
# C13 / C02 (graph level) — what is truly missing is reported, before anything runs

Property theorems only (helper lemmas in `ArgMapper/Proofs/Prune.lean`).
-/
namespace ArgMapper.C13
open ArgMapper

/-- the labels of the values the caller effectively supplied -/
def suppliedLabels (b : Builder) : List Label :=
  b.named.map (fun p => { name := p.1, ty := p.2.ty, sub := "" }) ++
  b.namedSub.map (fun p => { name := p.1.1, ty := p.2.ty, sub := p.1.2 }) ++
  b.typed.map (fun p => { name := "", ty := p.1, sub := "" }) ++
  b.typedSub.map (fun p => { name := "", ty := p.1.1, sub := p.1.2 })

/-- a label no supplied value and no output of any registered converter is compatible with -/
def Hopeless (e : TypeEnv) (b : Builder) (funcs : Nat → Option FuncDesc) (p : Label) : Prop :=
  (∀ s ∈ suppliedLabels b, compatB e p s = false) ∧
  ∀ fid ∈ b.convs, ∀ f, funcs fid = some f → ∀ o ∈ f.output.labels, compatB e p o = false

/-- the supplied labels are the labels of the vertices `inputsGraph` creates, in the same order -/
theorem suppliedLabels_eq (b : Builder) : suppliedLabels b = (Prune.inputsList b).map Vtx.label := by
  simp [suppliedLabels, Prune.inputsList, List.map_append, List.map_map, Function.comp_def, Vtx.label]

/-- **C13_report (missing ⊇ hopeless)** — a parameter of the target that can be matched by no supplied
value and by no output of any supplied converter is listed in the unsatisfied-argument error, which is
raised by `callGraph` itself: `callWith` then returns `.unsat … true` without executing anything. -/
theorem hopeless_reported (e : TypeEnv) (ht : ImplTrans e) (ha : ImplAntisym e)
    (b : Builder) (funcs : Nat → Option FuncDesc) (target : FuncDesc)
    (hk : ValueSet.KeysOK target.input)
    (hck : ∀ fid ∈ b.convs, ∀ f, funcs fid = some f → ValueSet.KeysOK f.output)
    (p : Label) (hp : p ∈ target.input.labels) (hh : Hopeless e b funcs p) :
    p ∈ (callGraph {} e b funcs target false none).unsat := by
  have _ := hk  -- not needed: only the converters' output maps are consulted
  apply Prune.param_unsat e b funcs target p hp
  intro hkept
  obtain ⟨l, hav, hc⟩ := Prune.kept_compat e ht ha b funcs target hck p hkept
  rcases hav with hs | ⟨fid, hfid, f, hf, hl⟩
  · rw [← suppliedLabels_eq] at hs
    rw [hh.1 l hs] at hc
    exact absurd hc (by simp)
  · rw [hh.2 fid hfid f hf l hl] at hc
    exact absurd hc (by simp)

/-- … and then nothing runs: the error is produced before any function is executed -/
theorem unsat_before_execution (c : Ctx) (cgr : CallGraphResult) (target : FuncDesc) (fuel : Nat)
    (s0 : CallSt) (h : cgr.unsat ≠ []) :
    callWith c cgr target fuel s0 = (.unsat cgr.unsat true, s0) := by
  unfold callWith
  have : (!cgr.unsat.isEmpty) = true := by
    cases hu : cgr.unsat with
    | nil => exact absurd hu h
    | cons _ _ => rfl
  rw [if_pos this]

/-- **C13_report (missing ⊆ parameters)** — only parameters of the target are listed -/
theorem unsat_are_parameters (e : TypeEnv) (b : Builder) (funcs : Nat → Option FuncDesc)
    (target : FuncDesc) (hk : ValueSet.KeysOK target.input) (p : Label)
    (hp : p ∈ (callGraph {} e b funcs target false none).unsat) :
    p ∈ target.input.labels :=
  have _ := hk  -- not needed
  (Prune.unsat_param e b funcs target p hp).1

/-- **C13_report (never one with an exactly matching supplied value)** — a parameter whose vertex holds
a supplied value is adjacent to the root and survives pruning -/
theorem exact_not_listed (e : TypeEnv) (b : Builder) (funcs : Nat → Option FuncDesc)
    (target : FuncDesc) (hk : ValueSet.KeysOK target.input) (p : Label) (hp : p ∈ target.input.labels)
    (hn : p.name ≠ "") (hs : p ∈ suppliedLabels b) :
    p ∉ (callGraph {} e b funcs target false none).unsat := by
  have _ := hk  -- not needed
  have _ := hp  -- not needed: a label that is not a parameter is not listed anyway
  intro hu
  apply (Prune.unsat_param e b funcs target p hu).2
  rw [suppliedLabels_eq, List.mem_map] at hs
  obtain ⟨u, hu', rfl⟩ := hs
  have hv : u.label.vertex = u := by
    have ho := Prune.inputsList_isOrigin b u hu'
    cases u with
    | value n t s =>
      have hn' : n ≠ "" := hn
      simp [Vtx.label, Label.vertex, hn']
    | out t s => exact absurd rfl hn
    | root => simp [Vtx.isOrigin, Vtx.isValue, Vtx.isOut] at ho
    | arg _ _ => simp [Vtx.isOrigin, Vtx.isValue, Vtx.isOut] at ho
    | func _ => simp [Vtx.isOrigin, Vtx.isValue, Vtx.isOut] at ho
  rw [hv]
  apply Prune.inputs_kept e b funcs target u hu'
  rw [← hv]
  exact Prune.vertex_ne_root _

/-- **C13_report (inputs)** — the input list of the error is exactly the supplied values -/
theorem inputs_are_supplied (e : TypeEnv) (b : Builder) (funcs : Nat → Option FuncDesc) (target : FuncDesc) :
    ((callGraph {} e b funcs target false none).inputs.map Vtx.label).Perm (suppliedLabels b) := by
  rw [Prune.inputs_eq, suppliedLabels_eq]

end ArgMapper.C13
