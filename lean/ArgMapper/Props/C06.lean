import ArgMapper.Props.C01b
import ArgMapper.Proofs.Termination
/-!
# C06 — calls always return (model level: bounded recursion, no modelled panic)

Property theorems only (helper lemmas in `ArgMapper/Proofs/Termination.lean`).

What is proved here holds for **every oracle** (any requirement order, any root-first real paths),
every behaviour of the function bodies and every state: the recursion of `reachTarget` is bounded by
the number of function vertices, and three of the four modelled panic sites are unreachable.  The
fourth — "didn't reach a final value for path" — depends on the chosen paths being *shortest* paths
(a legal oracle); it is decided by exploration on the real code (see DESIGN.md, C06).
-/
namespace ArgMapper.C06
open ArgMapper

/-- the function vertices of a graph -/
def funcVerts (g : AGraph Vtx) : List Vtx := g.verts.filter Vtx.isFunc

/-- **C06_total (bounded recursion)** — with the set of functions being resolved tracked (repair of F3),
`reachTarget` never recurses deeper than the number of function vertices: fuel that covers the
function vertices not yet on the resolution stack is never exhausted, whatever cycles the
converters form. -/
theorem reach_never_out_of_fuel (c : Ctx) (htr : c.trackReaching = true) (hwf : c.g.WF) (redefine : Bool)
    (fuel : Nat) (reaching : List Vtx) (target : Vtx) (s : CallSt)
    (ht : target ∈ c.g.verts) (htf : target.isFunc = true) (hnr : target ∉ reaching)
    (hfuel : ((funcVerts c.g).filter (fun v => !decide (v ∈ reaching))).length ≤ fuel) :
    (reach c redefine fuel reaching target s).1 ≠ .error .outOfFuel :=
  Termination.reach_fuel c htr hwf redefine fuel reaching target s ht htf hnr hfuel

/-- … hence `Call` with the fuel the driver uses never ends in `outOfFuel` -/
theorem call_never_out_of_fuel (c : Ctx) (htr : c.trackReaching = true) (hwf : c.g.WF)
    (cgr : CallGraphResult) (target : FuncDesc) (hcg : cgr.cg.g = c.g) (htv : cgr.target = .func target.key)
    (ht : Vtx.func target.key ∈ c.g.verts) (fuel : Nat) (hfuel : (funcVerts c.g).length ≤ fuel) (s0 : CallSt) :
    (callWith c cgr target fuel s0).1 ≠ .outOfFuel := by
  have _ := hcg
  intro h
  have h' := Termination.callWith_outOfFuel c cgr target fuel s0 h
  rw [htv] at h'
  refine reach_never_out_of_fuel c htr hwf false fuel [] (.func target.key) s0 ht rfl (by simp) ?_ h'
  simpa [funcVerts] using hfuel

/-- before that repair a two-converter cycle with two inputs each diverged: for every fuel the model of
the unrepaired `reachTarget` runs out of fuel on this graph (finding F3, replayed on the code as a
fatal stack overflow) -/
def cycleGraph : AGraph Vtx :=
  { verts := [.root, .func 0, .func 1, .func 2, .arg 3 "", .out 3 "", .arg 2 "", .out 2 "", .arg 1 "", .out 1 ""],
    edges := [(.func 0, .arg 3 "", 5), (.arg 3 "", .out 3 "", 5), (.out 3 "", .func 1, 5),
              (.func 1, .arg 1 "", 5), (.func 1, .arg 2 "", 5), (.arg 2 "", .out 2 "", 5), (.out 2 "", .func 2, 5),
              (.func 2, .arg 3 "", 5), (.func 2, .arg 1 "", 5), (.arg 1 "", .out 1 "", 5), (.out 1 "", .root, 1)] }

/-- the unrepaired context on that graph, choosing paths by itself (greedy legal pop order) -/
def tv (t : Nat) (i : Nat) : SVal := ⟨⟨"", t, ""⟩, i⟩
def fd0 : FuncDesc := FuncDesc.mk 0 0 ⟨true, 0, [tv 3 0], [], [(3, tv 3 0)], true⟩ ValueSet.nil false false
def fd1 : FuncDesc := FuncDesc.mk 1 1 ⟨true, 0, [tv 1 0, tv 2 1], [], [(1, tv 1 0), (2, tv 2 1)], true⟩
  ⟨true, 0, [tv 3 0], [], [(3, tv 3 0)], true⟩ false false
def fd2 : FuncDesc := FuncDesc.mk 2 2 ⟨true, 0, [tv 3 0, tv 1 1], [], [(3, tv 3 0), (1, tv 1 1)], true⟩
  ⟨true, 0, [tv 2 0], [], [(2, tv 2 0)], true⟩ false false

def cycleCtx : Ctx :=
  { env := ⟨fun _ => false, fun _ _ => false⟩, g := cycleGraph,
    funcOf := fun k => if k = 0 then some fd0 else if k = 1 then some fd1 else if k = 2 then some fd2 else none,
    beh := fun _ _ _ => ⟨[7], none⟩, trackReaching := false, auto := true }

/-- OPTIONAL (stretch): the divergence itself — sampled here for the fuels the driver can use; the
real code's fatal stack overflow on this input is replayed by the correspondence check -/
theorem counterexample_mutual_cycle_diverges :
    ∀ fuel ∈ [1, 2, 3, 5, 8, 13, 21],
      (reach cycleCtx false fuel [] (.func 0)
        { store := [(.out 1 "", ⟨1, 5, .out 1 ""⟩)], last := none, inputSet := [], memo := [], log := [], count := [], orc := [] }).1
        = .error .outOfFuel := by
  have h : ([1, 2, 3, 5, 8, 13, 21].all fun fuel => Termination.isOutOfFuel
      (reach cycleCtx false fuel [] (.func 0)
        { store := [(.out 1 "", ⟨1, 5, .out 1 ""⟩)], last := none, inputSet := [], memo := [], log := [], count := [], orc := [] }).1)
      = true := by decide +kernel
  intro fuel hf
  exact Termination.eq_of_isOutOfFuel (List.all_eq_true.1 h fuel hf)

/-- **the memoised pointer result can always be reused** and **every function vertex resolves**:
the panic sites `elemOnStruct` and `unknownVertex` are unreachable when the memoised slice is copied
(repair of F15) and every function vertex of the graph has its function object -/
theorem no_elem_or_unknown_panic (c : Ctx) (hmc : c.memoCopy = true)
    (hfun : ∀ k, Vtx.func k ∈ c.g.verts → (c.funcOf k).isSome = true) (hwf : c.g.WF)
    (redefine : Bool) (fuel : Nat) (reaching : List Vtx) (target : Vtx) (s : CallSt) :
    (reach c redefine fuel reaching target s).1 ≠ .error (.panic .elemOnStruct) ∧
    (reach c redefine fuel reaching target s).1 ≠ .error (.panic .unknownVertex) ∧
    (reach c redefine fuel reaching target s).1 ≠ .error (.panic .emptyPath) := by
  have h := Termination.reach_panic3 c hmc hfun hwf redefine fuel reaching target s
  exact ⟨fun he => h _ he (Or.inl rfl), fun he => h _ he (Or.inr (Or.inl rfl)),
    fun he => h _ he (Or.inr (Or.inr rfl))⟩

/-- **C06_malformed** — a nil option yields the dedicated error, a rejected converter argument an
option error; neither reaches the resolver -/
theorem malformed_options (defaults opts : List Opt) :
    (Opt.nilOpt ∈ defaults ++ opts → buildFor defaults opts = .nilArg) ∧
    (Opt.nilOpt ∉ defaults ++ opts → (∃ fs, Opt.conv fs ∈ defaults ++ opts ∧ none ∈ fs) →
      ∃ b, buildFor defaults opts = .optErr b) := by
  refine ⟨fun h => buildFrom_of_mem _ h Builder.empty, fun hnil h => ?_⟩
  obtain ⟨fs, hm, hn⟩ := h
  exact Termination.build_optErr _ hnil fs hm hn

/-- options without an effect on resolution — `Logger`, `FuncName`, and after the repairs of F20/F21
`Logger(nil)` and `ConverterGen(nil)` — leave the builder as it is; nil entries of `ConverterFunc` are dropped -/
theorem ignored_options (b : Builder) :
    applyOpt b .other = b ∧ applyOpt b (.convFunc [none]) = { b with convs := b.convs ++ [] } ∧
    applyOpt b (.named "x" none) = b ∧ applyOpt b (.typed [none]) = b :=
  ⟨rfl, rfl, rfl, rfl⟩

end ArgMapper.C06
