import ArgMapper.Props.C20
import ArgMapper.Proofs.TraverseCorollaries
/-!
# C20 (continued) — consequences a caller relies on
-/
namespace ArgMapper.C20
open ArgMapper AGraph Traverse
variable {α : Type} [DecidableEq α]

/-- whatever `KahnSort` returns is a topological order (every vertex exactly once, each after all
its predecessors) -/
theorem kahn_sound (g : AGraph α) (hwf : g.WF) (L : List α) (h : kahnSort g = some L) : IsTopo g L := by
  by_cases hc : Cyclic g
  · rw [kahn_cyclic g hwf hc] at h
    cases h
  · obtain ⟨L', hL', ht⟩ := kahn_acyclic g hwf hc
    rw [hL'] at h
    cases h
    exact ht

/-- `KahnSort` returns an order exactly on the acyclic graphs -/
theorem kahn_iff (g : AGraph α) (hwf : g.WF) : (∃ L, kahnSort g = some L) ↔ ¬ Cyclic g := by
  constructor
  · rintro ⟨L, hL⟩ hc
    rw [kahn_cyclic g hwf hc] at hL
    cases hL
  · intro hc
    obtain ⟨L, hL, _⟩ := kahn_acyclic g hwf hc
    exact ⟨L, hL⟩

/-- in a returned order, every vertex comes after each of its predecessors (stated with `hasEdge`) -/
theorem kahn_pred_first (g : AGraph α) (hwf : g.WF) (L : List α) (h : kahnSort g = some L) (u v : α)
    (he : g.hasEdge u v = true) :
    ∃ i j : Nat, L[i]? = some u ∧ L[j]? = some v ∧ i < j := by
  obtain ⟨w, hw⟩ := TraverseReach.hasEdge_iff_mem.mp he
  exact (kahn_sound g hwf L h).2.2 _ hw

/-- an explored vertex is reachable from the start -/
theorem explored_reach (g : AGraph α) (cb : α → DfsAct) (start x : α) (h : Explored g cb start x) :
    Reach g start x :=
  TraverseCorollaries.explored_reach' h

/-- DFS never reports a vertex that is not reachable from the start, nor the start itself -/
theorem dfs_reports_reachable (g : AGraph α) (hwf : g.WF) (cb : α → DfsAct) (start : α) (hs : start ∈ g.verts)
    (w : α) (hw : w ∈ (DFS g cb start).log) : Reach g start w ∧ w ≠ start :=
  TraverseCorollaries.reportable_reach ((dfs_sound_once g hwf cb start hs).2.1 w hw)

/-- with a callback that always descends, DFS reports exactly the other vertices reachable from the start -/
theorem dfs_all_reachable (g : AGraph α) (hwf : g.WF) (start : α) (hs : start ∈ g.verts) (w : α) :
    w ∈ (DFS g (fun _ => .descend) start).log ↔ (Reach g start w ∧ w ≠ start) := by
  rw [(dfs_exact g hwf (fun _ => .descend) start hs (fun _ _ => by simp)).2.2 w]
  exact TraverseCorollaries.reportable_descend_iff

end ArgMapper.C20
