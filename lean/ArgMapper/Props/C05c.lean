import ArgMapper.Props.C05b
import ArgMapper.Props.C06b
import ArgMapper.Proofs.CompleteLegalSingle
import ArgMapper.Proofs.CompleteLegalCE
/-!
# C05 (continued) — completeness with the full label language, under legal oracles

Property theorems only (helper lemmas in `ArgMapper/Proofs/CompleteLegal.lean`,
`ArgMapper/Proofs/CompleteLegalSingle.lean`, `ArgMapper/Proofs/WalkPanic*.lean`; the counterexample in
`ArgMapper/Proofs/CompleteLegalCE.lean`).  `complete_single` and `complete_acyclic` are stated for the
subtype-free fragment and every oracle.  The statements below are for the full label language (names, subtypes,
interface types) and every **legal** oracle (each path is `choosePath` for a legal complete pop order) — which is
what the real algorithm produces, for every map iteration order and every tie-break.  (Before the repair of
finding F22 — an R6 hop `value n t s → value n t ""` copied nothing — the walk could end without a value on a real
path that is not a shortest one, `WalkPanicCE.finalValue_needs_legal`.)

* `complete_acyclic_legal` — clause (b), proved as stated.
* `complete_single_legal` — clause (a), **proved as stated** for the repaired library (`C01.stdCtx` has
  `hopCopies := true`).  History: before the repair of F22 the statement was **false** —
  `counterexample_single_legal` (two single-input converters forming a cycle through one name, two supplied
  values with subtypes; the unrepaired library failed 503 of 3000 identical calls), now stated for the pre-repair
  context `{ C01.stdCtx … with hopCopies := false }`; the same scenario succeeds in the repaired context
  (`counterexample_single_legal_repaired`).  The partial results proved while the statement was false are kept:
  `complete_single_legal_partial_acyclic` (extra hypothesis: the pruned graph is acyclic) and
  `complete_single_legal_partial_no_r6` (extra hypothesis: the pruned graph has no R6 edge; cycles allowed;
  holds for every oracle, legal or not).
-/
namespace ArgMapper.C05
open ArgMapper

/-- the pruned graph has no R6 edge: no named value vertex depends on another named value vertex (R6 joins
`value n t ""`, when no value was supplied for it, to every `value n t s`, `s ≠ ""`) -/
def NoR6 (g : AGraph Vtx) : Prop :=
  ∀ n t s n' t' s', g.hasEdge (.value n t s) (.value n' t' s') = false

/-- **C05_complete_single (full label language, legal oracles)** — clause (a), the ORIGINAL statement: arbitrary
cycles, names, subtypes (R6 edges), interfaces; every converter takes at most one input value.  True since the
repair of finding F22 (an R6 hop copies the value: `C01.stdCtx` has `hopCopies := true`); false before it, see
`counterexample_single_legal` and the comment below. -/
theorem complete_single_legal (e : TypeEnv) (ht : ImplTrans e)
    (b : Builder) (funcs : Nat → Option FuncDesc) (target : FuncDesc)
    (hb : C03.BuilderOK b)
    (hc : C01.FuncsConsistent (C01.allFuncs b funcs target))
    (hsi : SingleInput (b.convs.filterMap funcs))
    (hwf : SetsWF (C01.allFuncs b funcs target))
    (hkey : ∀ f ∈ b.convs.filterMap funcs, f.key ≠ target.key)
    (hsmall : C03.SmallGraph (callGraph {} e b funcs target false none).cg.g)
    (hsat : (callGraph {} e b funcs target false none).unsat = [])
    (beh : Nat → Nat → List PVal → BehOut) (fuel : Nat)
    (hfuel : (C06.funcVerts (callGraph {} e b funcs target false none).cg.g).length + 1 ≤ fuel)
    (memo : List (Nat × Memo)) (orc : List OrcItem)
    (hleg : ∀ it ∈ orc, C03.LegalItem (callGraph {} e b funcs target false none).cg.g it) :
    let r := callWith (C01.stdCtx e b funcs target beh) (callGraph {} e b funcs target false none) target fuel
              (initSt (callGraph {} e b funcs target false none).cg memo orc)
    (∃ res, r.1 = .ok res) ∨ (∃ ε, r.1 = .convErr ε) ∨ (∃ ε res, r.1 = .targetErr ε res) ∨ (∃ w, r.1 = .badOracle w) :=
  CompleteLegal.single_core_legal (C06.hyps_of e ht b funcs target hb hc hwf) beh hsi hkey hsmall hsat fuel hfuel
    memo orc hleg

/- HISTORY of `complete_single_legal`: **before the repair of finding F22** (context
`{ C01.stdCtx … with hopCopies := false }`) the statement above was FALSE, see `counterexample_single_legal`.

Why it failed.  A named requirement `value n t ""` that is entered by an R6 hop held no value (the hop copied
nothing), so the converter that needs it ran a nested search for it.  That search uses the name discount,
which makes the hop `value n t s → value n t ""` and a detour through a same-named converter chain cost the
same; which predecessor Dijkstra records is a matter of tie-breaking, and each nested `reachTarget` breaks
its ties independently (fresh copy of the graph, fresh map iteration order).  In a cyclic set one tie-break
can route the search for `n/U/""` through `f`, and the next one the search for `f`'s requirement `n/T/""`
through the converter `g` that is being resolved: "unsatisfied".  In Go terms:

    target  func(z Z) int
    f       func(struct{ argmapper.Struct; N T }) struct{ argmapper.Struct; N U }
    g       func(struct{ argmapper.Struct; N U }) struct{ argmapper.Struct; N T; Z Z `argmapper:",typeOnly"` }
    fn.Call(NamedSubtype("n", T{}, "s"), NamedSubtype("n", U{}, "y"), Converter(f, g))

503 of 3000 such calls on the unrepaired library returned `Unsatisfiable arguments: name: "n" (type: T)`, the
others succeeded.  Both ingredients were needed: without a cycle the statement held
(`complete_single_legal_partial_acyclic`), without R6 edges too (`complete_single_legal_partial_no_r6`).
Since the repair the hop copies the value of `value n t s`, the vertex `value n t ""` holds a value when the
converter is reached, its nested search has nothing to look for, and the tie-breaks no longer matter. -/

/- ORIGINAL STATEMENT of `counterexample_single_legal` (before the repair of finding F22; it was stated for
`C01.stdCtx …`, whose R6 hop then copied nothing).  `C01.stdCtx` now has `hopCopies := true` and the scenario
succeeds there (`counterexample_single_legal_repaired`), so the counterexample is restated below for the
pre-repair context `{ C01.stdCtx … with hopCopies := false }`:

    theorem counterexample_single_legal :
        ∃ (e : TypeEnv) (b : Builder) (funcs : Nat → Option FuncDesc) (target : FuncDesc)
          (beh : Nat → Nat → List PVal → BehOut) (orc orc' : List OrcItem),
          ImplTrans e ∧ C03.BuilderOK b ∧ C01.FuncsConsistent (C01.allFuncs b funcs target) ∧
          SingleInput (b.convs.filterMap funcs) ∧ SetsWF (C01.allFuncs b funcs target) ∧
          (∀ f ∈ b.convs.filterMap funcs, f.key ≠ target.key) ∧
          C03.SmallGraph (callGraph {} e b funcs target false none).cg.g ∧
          (callGraph {} e b funcs target false none).unsat = [] ∧
          (C06.funcVerts (callGraph {} e b funcs target false none).cg.g).length + 1 ≤ 5 ∧
          (∀ it ∈ orc, C03.LegalItem (callGraph {} e b funcs target false none).cg.g it) ∧
          (callWith (C01.stdCtx e b funcs target beh) (callGraph {} e b funcs target false none) target 5
            (initSt (callGraph {} e b funcs target false none).cg [] orc)).1 = .unsat [⟨"n", 1, ""⟩] false ∧
          (∀ it ∈ orc', C03.LegalItem (callGraph {} e b funcs target false none).cg.g it) ∧
          (callWith (C01.stdCtx e b funcs target beh) (callGraph {} e b funcs target false none) target 5
            (initSt (callGraph {} e b funcs target false none).cg [] orc')).1 = .ok ⟨[7, 8], none⟩ -/

/-- the counterexample to the original `complete_single_legal`, **in the pre-repair context**
(`hopCopies := false`: an R6 hop copies nothing — finding F22, which this scenario documents): every hypothesis
holds (single-input converters, legal oracle, enough fuel, nothing reported unsatisfied by `callGraph`) and the
call ends in an unsatisfied-argument error; with another legal oracle the same call succeeds.
In the repaired context see `counterexample_single_legal_repaired`. -/
theorem counterexample_single_legal :
    ∃ (e : TypeEnv) (b : Builder) (funcs : Nat → Option FuncDesc) (target : FuncDesc)
      (beh : Nat → Nat → List PVal → BehOut) (orc orc' : List OrcItem),
      ImplTrans e ∧ C03.BuilderOK b ∧ C01.FuncsConsistent (C01.allFuncs b funcs target) ∧
      SingleInput (b.convs.filterMap funcs) ∧ SetsWF (C01.allFuncs b funcs target) ∧
      (∀ f ∈ b.convs.filterMap funcs, f.key ≠ target.key) ∧
      C03.SmallGraph (callGraph {} e b funcs target false none).cg.g ∧
      (callGraph {} e b funcs target false none).unsat = [] ∧
      (C06.funcVerts (callGraph {} e b funcs target false none).cg.g).length + 1 ≤ 5 ∧
      (∀ it ∈ orc, C03.LegalItem (callGraph {} e b funcs target false none).cg.g it) ∧
      (callWith { C01.stdCtx e b funcs target beh with hopCopies := false }
        (callGraph {} e b funcs target false none) target 5
        (initSt (callGraph {} e b funcs target false none).cg [] orc)).1 = .unsat [⟨"n", 1, ""⟩] false ∧
      (∀ it ∈ orc', C03.LegalItem (callGraph {} e b funcs target false none).cg.g it) ∧
      (callWith { C01.stdCtx e b funcs target beh with hopCopies := false }
        (callGraph {} e b funcs target false none) target 5
        (initSt (callGraph {} e b funcs target false none).cg [] orc')).1 = .ok ⟨[7, 8], none⟩ :=
  ⟨CompleteLegalCE.e0, CompleteLegalCE.b, CompleteLegalCE.funcs, CompleteLegalCE.tgt, CompleteLegalCE.beh0,
    CompleteLegalCE.orc, CompleteLegalCE.orcGood, CompleteLegalCE.unsat_reached⟩

/-- the scenario of `counterexample_single_legal` **after the repair of F22** (`C01.stdCtx`, `hopCopies := true`):
with its legal oracle (the forced path to the target's parameter; the nested search of the converter `g` has
nothing missing, because the hop filled `value n U ""`) the call succeeds; the two pre-repair oracles are
rejected as inconsistent with the run (`badOracle`), an outcome `complete_single_legal` admits -/
theorem counterexample_single_legal_repaired :
    (∀ it ∈ CompleteLegalCE.orcFixed,
      C03.LegalItem (callGraph {} CompleteLegalCE.e0 CompleteLegalCE.b CompleteLegalCE.funcs CompleteLegalCE.tgt false none).cg.g it) ∧
    (callWith (C01.stdCtx CompleteLegalCE.e0 CompleteLegalCE.b CompleteLegalCE.funcs CompleteLegalCE.tgt CompleteLegalCE.beh0)
      (callGraph {} CompleteLegalCE.e0 CompleteLegalCE.b CompleteLegalCE.funcs CompleteLegalCE.tgt false none) CompleteLegalCE.tgt 5
      (initSt (callGraph {} CompleteLegalCE.e0 CompleteLegalCE.b CompleteLegalCE.funcs CompleteLegalCE.tgt false none).cg []
        CompleteLegalCE.orcFixed)).1 = .ok ⟨[7, 8], none⟩ ∧
    (callWith (C01.stdCtx CompleteLegalCE.e0 CompleteLegalCE.b CompleteLegalCE.funcs CompleteLegalCE.tgt CompleteLegalCE.beh0)
      (callGraph {} CompleteLegalCE.e0 CompleteLegalCE.b CompleteLegalCE.funcs CompleteLegalCE.tgt false none) CompleteLegalCE.tgt 5
      (initSt (callGraph {} CompleteLegalCE.e0 CompleteLegalCE.b CompleteLegalCE.funcs CompleteLegalCE.tgt false none).cg []
        CompleteLegalCE.orc)).1 = .badOracle "missing" :=
  ⟨CompleteLegalCE.after_repair.1, CompleteLegalCE.after_repair.2.1, CompleteLegalCE.after_repair.2.2.1⟩

/-- **C05_complete_single (full label language, legal oracles), acyclic graphs** — clause (a) with the extra
hypothesis that the pruned graph has no cycle. -/
theorem complete_single_legal_partial_acyclic (e : TypeEnv) (ht : ImplTrans e)
    (b : Builder) (funcs : Nat → Option FuncDesc) (target : FuncDesc)
    (hb : C03.BuilderOK b)
    (hc : C01.FuncsConsistent (C01.allFuncs b funcs target))
    (hsi : SingleInput (b.convs.filterMap funcs))
    (hwf : SetsWF (C01.allFuncs b funcs target))
    (hkey : ∀ f ∈ b.convs.filterMap funcs, f.key ≠ target.key)
    (hsmall : C03.SmallGraph (callGraph {} e b funcs target false none).cg.g)
    (hsat : (callGraph {} e b funcs target false none).unsat = [])
    (hacyc : Acyclic (callGraph {} e b funcs target false none).cg.g)
    (beh : Nat → Nat → List PVal → BehOut) (fuel : Nat)
    (hfuel : (C06.funcVerts (callGraph {} e b funcs target false none).cg.g).length + 1 ≤ fuel)
    (memo : List (Nat × Memo)) (orc : List OrcItem)
    (hleg : ∀ it ∈ orc, C03.LegalItem (callGraph {} e b funcs target false none).cg.g it) :
    let r := callWith (C01.stdCtx e b funcs target beh) (callGraph {} e b funcs target false none) target fuel
              (initSt (callGraph {} e b funcs target false none).cg memo orc)
    (∃ res, r.1 = .ok res) ∨ (∃ ε, r.1 = .convErr ε) ∨ (∃ ε res, r.1 = .targetErr ε res) ∨ (∃ w, r.1 = .badOracle w) := by
  have _ := hkey
  obtain ⟨rank, hrank⟩ := hacyc
  have H := C06.hyps_of e ht b funcs target hb hc hwf
  exact CompleteLegal.acyclic_core H beh hsat rank hrank (WalkPanic.paramsKept_of_single H hsi) hsmall fuel hfuel
    memo orc hleg

/-- **C05_complete_single (full label language), no R6 edge** — clause (a), arbitrary cycles, with the extra
hypothesis that the pruned graph has no R6 edge.  Holds for **every** oracle (the legality hypothesis and
`SmallGraph` of the original statement are not needed). -/
theorem complete_single_legal_partial_no_r6 (e : TypeEnv) (ht : ImplTrans e)
    (b : Builder) (funcs : Nat → Option FuncDesc) (target : FuncDesc)
    (hb : C03.BuilderOK b)
    (hc : C01.FuncsConsistent (C01.allFuncs b funcs target))
    (hsi : SingleInput (b.convs.filterMap funcs))
    (hwf : SetsWF (C01.allFuncs b funcs target))
    (hkey : ∀ f ∈ b.convs.filterMap funcs, f.key ≠ target.key)
    (hsat : (callGraph {} e b funcs target false none).unsat = [])
    (hno : NoR6 (callGraph {} e b funcs target false none).cg.g)
    (beh : Nat → Nat → List PVal → BehOut) (fuel : Nat)
    (hfuel : (C06.funcVerts (callGraph {} e b funcs target false none).cg.g).length + 1 ≤ fuel)
    (memo : List (Nat × Memo)) (orc : List OrcItem) :
    let r := callWith (C01.stdCtx e b funcs target beh) (callGraph {} e b funcs target false none) target fuel
              (initSt (callGraph {} e b funcs target false none).cg memo orc)
    (∃ res, r.1 = .ok res) ∨ (∃ ε, r.1 = .convErr ε) ∨ (∃ ε res, r.1 = .targetErr ε res) ∨ (∃ w, r.1 = .badOracle w) :=
  CompleteLegal.single_core (C06.hyps_of e ht b funcs target hb hc hwf) beh hsi hkey hno hsat fuel hfuel memo orc

/-- **C05_complete_acyclic (full label language, legal oracles)** — clause (b): any number of inputs, the pruned
graph acyclic, every surviving converter with all its requirement vertices in the graph. -/
theorem complete_acyclic_legal (e : TypeEnv) (ht : ImplTrans e)
    (b : Builder) (funcs : Nat → Option FuncDesc) (target : FuncDesc)
    (hb : C03.BuilderOK b)
    (hc : C01.FuncsConsistent (C01.allFuncs b funcs target))
    (hwf : SetsWF (C01.allFuncs b funcs target))
    (hkey : ∀ f ∈ b.convs.filterMap funcs, f.key ≠ target.key)
    (hsmall : C03.SmallGraph (callGraph {} e b funcs target false none).cg.g)
    (hsat : (callGraph {} e b funcs target false none).unsat = [])
    (hacyc : Acyclic (callGraph {} e b funcs target false none).cg.g)
    (hall : AllConvSat (callGraph {} e b funcs target false none).cg.g (b.convs.filterMap funcs))
    (beh : Nat → Nat → List PVal → BehOut) (fuel : Nat)
    (hfuel : (C06.funcVerts (callGraph {} e b funcs target false none).cg.g).length + 1 ≤ fuel)
    (memo : List (Nat × Memo)) (orc : List OrcItem)
    (hleg : ∀ it ∈ orc, C03.LegalItem (callGraph {} e b funcs target false none).cg.g it) :
    let r := callWith (C01.stdCtx e b funcs target beh) (callGraph {} e b funcs target false none) target fuel
              (initSt (callGraph {} e b funcs target false none).cg memo orc)
    (∃ res, r.1 = .ok res) ∨ (∃ ε, r.1 = .convErr ε) ∨ (∃ ε res, r.1 = .targetErr ε res) ∨ (∃ w, r.1 = .badOracle w) := by
  have _ := hkey  -- not needed: nothing distinguishes the target's vertex in the proof
  obtain ⟨rank, hrank⟩ := hacyc
  exact CompleteLegal.acyclic_core (C06.hyps_of e ht b funcs target hb hc hwf) beh hsat rank hrank hall hsmall
    fuel hfuel memo orc hleg

end ArgMapper.C05
