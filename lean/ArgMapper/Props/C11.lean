import ArgMapper.Model.Reach
import ArgMapper.Proofs.Once
/-!
# C11 (sequential) — a run-once function executes at most once; later uses see that result

Property theorems only (helper lemmas in `ArgMapper/Proofs/Once.lean`).

A history is any sequence of calls — any targets, graphs, behaviours, oracles, fuels — on shared
function objects: the run-once memo cells and the execution counters are threaded from one call to
the next, exactly as the real `Func` objects carry them.  (`Redefine` keeps none of the state of its
planning run — `redefine` returns only an outcome — so interleaved `Redefine`s do not appear.)
-/
namespace ArgMapper.C11
open ArgMapper

structure CallOp where
  c : Ctx
  cgr : CallGraphResult
  target : FuncDesc
  fuel : Nat
  orc : List OrcItem

structure HistSt where
  memo : List (Nat × Memo)
  count : List (Nat × Nat)
  log : List ExecEv

def stepCall (h : HistSt) (op : CallOp) : HistSt :=
  { memo := (callWith op.c op.cgr op.target op.fuel { initSt op.cgr.cg h.memo op.orc with count := h.count }).2.memo,
    count := (callWith op.c op.cgr op.target op.fuel { initSt op.cgr.cg h.memo op.orc with count := h.count }).2.count,
    log := h.log ++ (callWith op.c op.cgr op.target op.fuel { initSt op.cgr.cg h.memo op.orc with count := h.count }).2.log }

def runHistory (ops : List CallOp) : HistSt := ops.foldl stepCall { memo := [], count := [], log := [] }

/-- every function object with id `fid` that some call of the history could execute is run-once -/
def OnceEverywhere (ops : List CallOp) (fid : Nat) : Prop :=
  ∀ op ∈ ops, (op.target.id = fid → op.target.once = true) ∧
    ∀ k f, op.c.funcOf k = some f → f.id = fid → f.once = true

/-- the history invariant (`Once.Good`) is preserved by one call -/
theorem stepCall_good (fid : Nat) (h : HistSt) (op : CallOp)
    (hop : (op.target.id = fid → op.target.once = true) ∧
      ∀ k f, op.c.funcOf k = some f → f.id = fid → f.once = true)
    (hg : Once.Good fid h.memo h.log) : Once.Good fid (stepCall h op).memo (stepCall h op).log := by
  have hp := Once.callWith_pres fid op.c hop.2 op.cgr op.target hop.1 op.fuel
    { initSt op.cgr.cg h.memo op.orc with count := h.count }
  exact hp h.log (by simpa [initSt] using hg)

theorem foldl_stepCall_good (fid : Nat) (ops : List CallOp) (h : HistSt)
    (hops : ∀ op ∈ ops, (op.target.id = fid → op.target.once = true) ∧
      ∀ k f, op.c.funcOf k = some f → f.id = fid → f.once = true)
    (hg : Once.Good fid h.memo h.log) :
    Once.Good fid (ops.foldl stepCall h).memo (ops.foldl stepCall h).log := by
  induction ops generalizing h with
  | nil => exact hg
  | cons op rest ih =>
    rw [List.foldl_cons]
    exact ih _ (fun o ho => hops o (List.mem_cons_of_mem _ ho))
      (stepCall_good fid h op (hops op List.mem_cons_self) hg)

theorem runHistory_good (ops : List CallOp) (fid : Nat) (h : OnceEverywhere ops fid) :
    Once.Good fid (runHistory ops).memo (runHistory ops).log :=
  foldl_stepCall_good fid ops _ h (Once.Good_nil fid)

/-- **C11_once_sequential (at most once)** — over any history, the body of a run-once function is
invoked at most once -/
theorem once_at_most_once (ops : List CallOp) (fid : Nat) (h : OnceEverywhere ops fid) :
    ((runHistory ops).log.filter (fun e => e.fid == fid)).length ≤ 1 :=
  (runHistory_good ops fid h).1

/-- **C11_once_sequential (first result kept)** — once it has executed, its memo cell holds the result
of that execution for the rest of the history -/
theorem first_result_kept (ops : List CallOp) (fid : Nat) (h : OnceEverywhere ops fid) (ev : ExecEv)
    (hev : ev ∈ (runHistory ops).log) (hf : ev.fid = fid) :
    ∃ m, mapGet (runHistory ops).memo fid = some m ∧ m.res = ev.res :=
  (runHistory_good ops fid h).2 ev hev hf

/-- … and every use served from the memo returns exactly that result (outputs or error) without
executing anything -/
theorem memo_hit (c : Ctx) (f : FuncDesc) (am : ArgMap) (s : CallSt) (m : Memo) (hf : f.once = true)
    (hm : mapGet s.memo f.id = some m) :
    callDirect c f am s = (.ok (m.res, m.unwrapped), s) := by
  unfold callDirect
  rw [hf, if_pos rfl, hm]

/-- with the memoised slice copied before unwrapping (repair of F15) a memoised pointer-struct result
can be reused: `outputValues` never panics -/
theorem reuse_never_panics (c : Ctx) (hc : c.memoCopy = true) (f : FuncDesc) (r : BehOut) (unw : Bool) (s : CallSt) :
    ∃ s', outputValues c f r unw s = .ok s' := by
  unfold outputValues
  rw [if_neg (by simp [hc])]
  exact ⟨_, rfl⟩

/-- before that repair it did panic on the second use (finding F15) -/
def cexFunc : FuncDesc :=
  { id := 1, key := 1, input := ValueSet.nil,
    output := { hasStruct := true, ptrs := 1, values := [⟨⟨"", 2, ""⟩, 1⟩], named := [],
                typed := [(2, ⟨⟨"", 2, ""⟩, 1⟩)], lifted := false },
    hasErr := false, once := true }

def cexCtx : Ctx :=
  { env := ⟨fun _ => false, fun _ _ => false⟩, g := AGraph.empty, funcOf := fun _ => none,
    beh := fun _ _ _ => ⟨[7], none⟩, memoCopy := false }

theorem counterexample_ptr_result :
    (match outputValues cexCtx cexFunc ⟨[7], none⟩ true
        { store := [], last := none, inputSet := [], memo := [], log := [], count := [], orc := [] } with
      | .error (.panic .elemOnStruct) => true
      | _ => false) = true := by
  simp [outputValues, cexCtx, cexFunc]

end ArgMapper.C11
