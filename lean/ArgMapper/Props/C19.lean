import ArgMapper.Spec.GraphSpec
import ArgMapper.Proofs.GraphRefine
/-!
# C19 — graph mutations keep the edge structure consistent; copies are independent

Property theorems only (helper lemmas live in `ArgMapper/Proofs/GraphRefine*.lean`).

`GraphSpec.implRun true ops` is the heap-of-maps transcription of `graph.go` (with `Reverse`
initialising the maps first — the repaired behaviour, finding F11) run on a history;
`GraphSpec.specRun ops` is the plain adjacency specification run on the same history.
-/
namespace ArgMapper.C19
open ArgMapper AGraph GraphSpec GraphImpl
variable {α : Type} [DecidableEq α]

/-- the history respects `AddEdge*`'s documented precondition (both endpoints present) -/
def Respects (ops : List (GOp α)) : Prop :=
  ∀ c ∈ (specRun ops).classes, c.poisoned = false

/-- every operation names a handle that exists at that point -/
def HandlesOk : SpecWorld α → List (GOp α) → Prop
  | _, [] => True
  | s, op :: rest =>
    (match op with
      | .new => True
      | .add h _ _ | .addow h _ _ | .edge h _ _ _ | .redge h _ _ | .remove h _ | .copy h | .reverse h =>
        h < s.handles.length) ∧ HandlesOk (specStep s op) rest

/-- what a client can observe of handle `h`, implementation model vs. specification -/
structure ObsEq (w : World α) (s : SpecWorld α) (h : Nat) : Prop where
  /-- `Vertices()` / `Vertex(id)`: same vertex set, same payloads, no duplicates -/
  verts : ∀ v t, (v, t) ∈ vertices w h ↔ (v ∈ (s.view h).verts ∧ aget (s.cls h).tags v = some t)
  vertsNodup : (akeys (vertices w h)).Nodup
  /-- successors with weights are exactly the specification's edges … -/
  outs : ∀ u v wt, (v, wt) ∈ outEdges w h u ↔ (s.view h).weight u v = some wt
  /-- … and predecessors are exactly their mirror -/
  ins : ∀ u v wt, (u, wt) ∈ inEdges w h v ↔ (s.view h).weight u v = some wt
  /-- the adjacency maps have an entry for exactly the present vertices -/
  outKeys : ∀ v, v ∈ outKeys w h ↔ v ∈ (s.view h).verts
  inKeys : ∀ v, v ∈ inKeys w h ↔ v ∈ (s.view h).verts

/-- `HandlesOk` is the helper files' `HOk` (same recursion, restated here where `HandlesOk` lives) -/
theorem handlesOk_hOk (ops : List (GOp α)) : ∀ s, HandlesOk s ops → HOk s ops := by
  induction ops with
  | nil => intro s _; trivial
  | cons op ops ih => intro s h; cases op <;> exact ⟨h.1, ih _ h.2⟩

/-- the specification keeps its own representation invariant -/
theorem spec_wf (ops : List (GOp α)) (hh : HandlesOk SpecWorld.empty ops) :
    ∀ c ∈ (specRun ops).classes, c.g.WF :=
  foldl_wf ops (s := SpecWorld.empty) (fun c hc => by simp [SpecWorld.empty] at hc)

/-- **C19_refines** — after any history of `Add, AddOverwrite, AddEdge(Weighted), RemoveEdge, Remove,
Copy, Reverse` that respects the precondition of `AddEdge*`, every live handle of the
implementation model shows exactly what the plain adjacency specification shows. -/
theorem refines (ops : List (GOp α)) (hh : HandlesOk SpecWorld.empty ops) (hr : Respects ops) :
    (implRun true ops).handles.length = (specRun ops).handles.length ∧
    ∀ h, h < (specRun ops).handles.length → ObsEq (implRun true ops) (specRun ops) h := by
  have hsim := run_obs ops (handlesOk_hOk ops _ hh) hr
  refine ⟨hsim.len, fun h hlt => ?_⟩
  obtain ⟨h1, h2, h3, h4, h5, h6⟩ := hsim.obs hlt
  exact ⟨h1, h2, h3, h4, h5, h6⟩

/-- consequence: successors and predecessors are mirrors of one another on every handle -/
theorem mirror (ops : List (GOp α)) (hh : HandlesOk SpecWorld.empty ops) (hr : Respects ops)
    (h : Nat) (hlt : h < (specRun ops).handles.length) (u v : α) (wt : Int) :
    (v, wt) ∈ outEdges (implRun true ops) h u ↔ (u, wt) ∈ inEdges (implRun true ops) h v := by
  have ho := (refines ops hh hr).2 h hlt
  rw [ho.outs, ho.ins]

/-- reversing twice is the identity (specification level: same class, same orientation) -/
theorem reverse_reverse (s : SpecWorld α) (h : Nat) :
    let s2 := specStep (specStep s (.reverse h)) (.reverse s.handles.length)
    s2.handle (s.handles.length + 1) = s.handle h := by
  simp [specStep, SpecWorld.handle, List.getD_eq_getElem?_getD]

/-- a copy is independent: an operation on the copy's handle leaves every older class untouched
(specification level; `refines` transports it to the implementation model) -/
theorem copy_independent (s : SpecWorld α) (h : Nat) (op : GOp α)
    (hop : match op with
      | .add k _ _ | .addow k _ _ | .edge k _ _ _ | .redge k _ _ | .remove k _ => k = s.handles.length
      | _ => False)
    (c : Nat) (hc : c < s.classes.length) :
    (specStep (specStep s (.copy h)) op).classes[c]? = s.classes[c]? :=
  copy_indep s h op hop c hc

/-- the concrete failing history of finding F11 (`Reverse` without `init`): the unrepaired model
does *not* refine the specification — proved by evaluation, replayed on the code before the fix -/
theorem counterexample_reverse_nil :
    vertices (implRun false ([.new, .reverse 0, .add 0 2 3] : List (GOp Nat))) 1 = [] ∧
    ((specRun ([.new, .reverse 0, .add 0 2 3] : List (GOp Nat))).view 1).verts = [2] := by
  decide

/-- non-vacuity: a history with an overwrite, a re-weighted edge, a copy and a reversed view
satisfies the hypotheses of `refines` -/
example : let ops : List (GOp Nat) :=
    [.new, .add 0 1 1, .add 0 2 1, .edge 0 1 2 5, .reverse 0, .copy 1, .edge 1 1 2 7, .addow 2 1 9, .remove 2 2]
    HandlesOk SpecWorld.empty ops ∧ Respects ops := by
  refine ⟨?_, ?_⟩
  · simp only [HandlesOk]; decide
  · unfold Respects; decide

end ArgMapper.C19
