import ArgMapper.Props.C19
import ArgMapper.Proofs.GraphCorollaries
/-!
# C19 (continued) — the clauses of the property read off the implementation model

`C19.refines` relates every handle of the implementation model (`implRun true`, the transcription of
`graph.go`) to the adjacency specification.  The theorems here state the remaining clauses of the
property directly about what the implementation model reports — successors (`outEdges`),
predecessors (`inEdges`) and `vertices` — after a history extended by one more operation.
-/
namespace ArgMapper.C19
open ArgMapper AGraph GraphSpec GraphImpl
variable {α : Type} [DecidableEq α]

/-- **removing a vertex removes all its incident edges**: after `Remove(v)` on handle `h`, `v` is
no vertex of `h`, has neither successors nor predecessors, and is nobody's successor or predecessor -/
theorem remove_removes_incident (ops : List (GOp α)) (h : Nat) (v : α)
    (hh : HandlesOk SpecWorld.empty (ops ++ [.remove h v])) (hr : Respects (ops ++ [.remove h v])) :
    let w := implRun true (ops ++ [.remove h v])
    (∀ t, (v, t) ∉ vertices w h) ∧
    (∀ u wt, (u, wt) ∉ outEdges w h v ∧ (u, wt) ∉ inEdges w h v ∧
             (v, wt) ∉ outEdges w h u ∧ (v, wt) ∉ inEdges w h u) := by
  intro w
  have hh0 := (handlesOk_append ops [.remove h v] _ hh).1
  have hr0 := respects_prefix ops _ hr
  have hlt : h < (specRun ops).handles.length := (last_ok ops _ hh).1
  have hc := cok ops hh0 hr0 h hlt
  have ho := (refines _ hh hr).2 h (by rw [specRun_snoc]; exact hlt)
  rw [specRun_snoc] at ho
  refine ⟨fun t hm => ?_, fun u wt => ⟨fun hm => ?_, fun hm => ?_, fun hm => ?_, fun hm => ?_⟩⟩
  · exact ((remove_verts _ h v hc v).1 ((ho.verts v t).1 hm).1).2 rfl
  · have := (ho.outs v u wt).1 hm
    rw [remove_weight _ h v hc] at this; simp at this
  · have := (ho.ins u v wt).1 hm
    rw [remove_weight _ h v hc] at this; simp at this
  · have := (ho.outs u v wt).1 hm
    rw [remove_weight _ h v hc] at this; simp at this
  · have := (ho.ins v u wt).1 hm
    rw [remove_weight _ h v hc] at this; simp at this

/-- `Remove(v)` touches nothing else on that handle: every edge between two other vertices stays -/
theorem remove_keeps_others (ops : List (GOp α)) (h : Nat) (v a b : α) (wt : Int)
    (hh : HandlesOk SpecWorld.empty (ops ++ [.remove h v])) (hr : Respects (ops ++ [.remove h v]))
    (ha : a ≠ v) (hb : b ≠ v) :
    (b, wt) ∈ outEdges (implRun true (ops ++ [.remove h v])) h a ↔ (b, wt) ∈ outEdges (implRun true ops) h a := by
  have hh0 := (handlesOk_append ops [.remove h v] _ hh).1
  have hr0 := respects_prefix ops _ hr
  have hlt : h < (specRun ops).handles.length := (last_ok ops _ hh).1
  have hc := cok ops hh0 hr0 h hlt
  have ho := (refines _ hh hr).2 h (by rw [specRun_snoc]; exact hlt)
  rw [specRun_snoc] at ho
  have ho0 := (refines _ hh0 hr0).2 h hlt
  rw [ho.outs, ho0.outs, remove_weight _ h v hc]
  simp [ha, hb]

/-- **`Reverse` is the mirror**: the successors reported by the reversed view (the new handle) are
exactly the predecessors reported by the original handle, weights included, and the vertices agree -/
theorem reverse_is_mirror (ops : List (GOp α)) (h : Nat)
    (hh : HandlesOk SpecWorld.empty (ops ++ [.reverse h])) (hr : Respects (ops ++ [.reverse h])) :
    let w := implRun true (ops ++ [.reverse h])
    let n := (specRun ops).handles.length
    (∀ u v wt, (v, wt) ∈ outEdges w n u ↔ (v, wt) ∈ inEdges w h u) ∧
    (∀ u v wt, (v, wt) ∈ inEdges w n u ↔ (v, wt) ∈ outEdges w h u) ∧
    (∀ v t, (v, t) ∈ vertices w n ↔ (v, t) ∈ vertices w h) := by
  intro w n
  have hlt : h < (specRun ops).handles.length := (last_ok ops _ hh).1
  have hlen : (specRun (ops ++ [.reverse h])).handles.length = n + 1 := by
    rw [specRun_snoc]; simp [specStep, n]
  have hoN := (refines _ hh hr).2 n (by omega)
  have hoH := (refines _ hh hr).2 h (by omega)
  rw [specRun_snoc] at hoN hoH
  refine ⟨fun u v wt => ?_, fun u v wt => ?_, fun v t => ?_⟩
  · rw [hoN.outs, hoH.ins, reverse_weight _ h hlt]
  · rw [hoN.ins, hoH.outs, reverse_weight _ h hlt]
  · rw [hoN.verts, hoH.verts, reverse_verts _ h hlt, reverse_tags _ h hlt]

/-- **a copy starts out equal**: right after `Copy()` the new handle reports what the original reports -/
theorem copy_starts_equal (ops : List (GOp α)) (h : Nat)
    (hh : HandlesOk SpecWorld.empty (ops ++ [.copy h])) (hr : Respects (ops ++ [.copy h])) :
    let w := implRun true (ops ++ [.copy h])
    let n := (specRun ops).handles.length
    (∀ u v wt, (v, wt) ∈ outEdges w n u ↔ (v, wt) ∈ outEdges w h u) ∧
    (∀ u v wt, (v, wt) ∈ inEdges w n u ↔ (v, wt) ∈ inEdges w h u) ∧
    (∀ v t, (v, t) ∈ vertices w n ↔ (v, t) ∈ vertices w h) := by
  intro w n
  have hh0 := (handlesOk_append ops [.copy h] _ hh).1
  have hr0 := respects_prefix ops _ hr
  have hlt : h < (specRun ops).handles.length := (last_ok ops _ hh).1
  have hc := cok ops hh0 hr0 h hlt
  have hlen : (specRun (ops ++ [.copy h])).handles.length = n + 1 := by
    rw [specRun_snoc]; simp [specStep, n]
  have hoN := (refines _ hh hr).2 n (by omega)
  have hoH := (refines _ hh hr).2 h (by omega)
  rw [specRun_snoc] at hoN hoH
  refine ⟨fun u v wt => ?_, fun u v wt => ?_, fun v t => ?_⟩
  · rw [hoN.outs, hoH.outs, copy_view _ h hlt hc]
  · rw [hoN.ins, hoH.ins, copy_view _ h hlt hc]
  · rw [hoN.verts, hoH.verts, copy_view _ h hlt hc, copy_tags _ h hlt hc]

/-- **copies are independent** (implementation model): a mutation through the copy's handle changes
nothing that any older handle `k` reports -/
theorem copy_independent_impl (ops : List (GOp α)) (h : Nat) (op : GOp α)
    (hop : match op with
      | .add k _ _ | .addow k _ _ | .edge k _ _ _ | .redge k _ _ | .remove k _ => k = (specRun ops).handles.length
      | _ => False)
    (hh : HandlesOk SpecWorld.empty (ops ++ [.copy h, op])) (hr : Respects (ops ++ [.copy h, op]))
    (k : Nat) (hk : k < (specRun ops).handles.length) :
    let w1 := implRun true ops
    let w2 := implRun true (ops ++ [.copy h, op])
    (∀ u v wt, (v, wt) ∈ outEdges w2 k u ↔ (v, wt) ∈ outEdges w1 k u) ∧
    (∀ u v wt, (v, wt) ∈ inEdges w2 k u ↔ (v, wt) ∈ inEdges w1 k u) ∧
    (∀ v t, (v, t) ∈ vertices w2 k ↔ (v, t) ∈ vertices w1 k) := by
  intro w1 w2
  have happ : ops ++ [GOp.copy h, op] = (ops ++ [.copy h]) ++ [op] := by simp
  have hh1 := (handlesOk_append ops [.copy h, op] _ hh).1
  have hr1 := respects_prefix ops _ hr
  have hc := cok ops hh1 hr1 k hk
  have hrun : specRun (ops ++ [.copy h, op]) = specStep (specStep (specRun ops) (.copy h)) op := by
    rw [happ, specRun_snoc, specRun_snoc]
  have hlen : (specRun (ops ++ [.copy h, op])).handles.length = (specRun ops).handles.length + 1 := by
    rw [hrun, mut_handles _ op _ hop]; simp [specStep]
  have ho2 := (refines _ hh hr).2 k (by omega)
  have ho1 := (refines _ hh1 hr1).2 k hk
  rw [hrun] at ho2
  obtain ⟨e1, e2⟩ := copy_mut_old (specRun ops) h op hop k hk hc
  have ev : (specStep (specStep (specRun ops) (.copy h)) op).view k = (specRun ops).view k := by
    unfold SpecWorld.view; rw [e1, e2]
  refine ⟨fun u v wt => ?_, fun u v wt => ?_, fun v t => ?_⟩
  · rw [ho2.outs, ho1.outs, ev]
  · rw [ho2.ins, ho1.ins, ev]
  · rw [ho2.verts, ho1.verts, ev, e2]

/-- **overwriting a vertex keeps its edges**: `AddOverwrite(v)` replaces the payload only -/
theorem overwrite_keeps_edges (ops : List (GOp α)) (h : Nat) (v : α) (tag : Nat)
    (hh : HandlesOk SpecWorld.empty (ops ++ [.addow h v tag])) (hr : Respects (ops ++ [.addow h v tag])) :
    let w1 := implRun true ops
    let w2 := implRun true (ops ++ [.addow h v tag])
    (∀ a b wt, (b, wt) ∈ outEdges w2 h a ↔ (b, wt) ∈ outEdges w1 h a) ∧
    (∀ a b wt, (b, wt) ∈ inEdges w2 h a ↔ (b, wt) ∈ inEdges w1 h a) ∧
    (v, tag) ∈ vertices w2 h := by
  intro w1 w2
  have hh0 := (handlesOk_append ops [.addow h v tag] _ hh).1
  have hr0 := respects_prefix ops _ hr
  have hlt : h < (specRun ops).handles.length := (last_ok ops _ hh).1
  have hc := cok ops hh0 hr0 h hlt
  have ho := (refines _ hh hr).2 h (by rw [specRun_snoc]; exact hlt)
  rw [specRun_snoc] at ho
  have ho0 := (refines _ hh0 hr0).2 h hlt
  refine ⟨fun a b wt => ?_, fun a b wt => ?_, ?_⟩
  · rw [ho.outs, ho0.outs, addow_weight _ h v tag hc]
  · rw [ho.ins, ho0.ins, addow_weight _ h v tag hc]
  · exact (ho.verts v tag).2 (addow_vert _ h v tag hc)

/-- non-vacuity of the premises used above (remove on a copy of a reversed view) -/
example : let ops : List (GOp Nat) :=
    [.new, .add 0 1 1, .add 0 2 1, .edge 0 1 2 5, .reverse 0, .copy 1, .remove 2 2]
    HandlesOk SpecWorld.empty ops ∧ Respects ops := by
  refine ⟨?_, ?_⟩
  · simp only [HandlesOk]; decide
  · unfold Respects; decide

end ArgMapper.C19
