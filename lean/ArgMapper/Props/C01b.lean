import ArgMapper.Props.C01
import ArgMapper.Proofs.CallGraphFuncs
/-!
# C01 (completion) — discharging the structural hypotheses of `injection_sound_partial`

`injection_sound_partial` assumes `FuncsOK` (the function object of every function vertex knows the
outputs hanging off that vertex) and `hnar` (no typed-argument vertex hangs off the root).  Both hold
for the graph `callGraph` builds for a `Call` when the context resolves a function vertex to the
first registered function of that Go type and functions of the same Go type have the same value
sets (they do: the value sets are computed from the type).
-/
namespace ArgMapper.C01
open ArgMapper

/-- functions with the same Go type (`key`) have the same value sets, and all sets are well keyed -/
def FuncsConsistent (fs : List FuncDesc) : Prop :=
  (∀ f ∈ fs, ∀ g ∈ fs, f.key = g.key → f.input = g.input ∧ f.output = g.output) ∧
  ∀ f ∈ fs, ValueSet.KeysOK f.input ∧ ValueSet.KeysOK f.output

/-- all function objects of a call: the target first, then the converters in registration order -/
def allFuncs (b : Builder) (funcs : Nat → Option FuncDesc) (target : FuncDesc) : List FuncDesc :=
  target :: b.convs.filterMap funcs

/-- the context `Call` runs in: a function vertex holds the first function registered with its type -/
def stdCtx (e : TypeEnv) (b : Builder) (funcs : Nat → Option FuncDesc) (target : FuncDesc)
    (beh : Nat → Nat → List PVal → BehOut) : Ctx :=
  { env := e, g := (callGraph {} e b funcs target false none).cg.g,
    funcOf := fun k => (allFuncs b funcs target).find? (fun f => f.key == k), beh := beh }

/-- value sets built by the model of `NewFunc` are well keyed -/
theorem newFunc_keysOK (ins outs : List Param) (fs : FuncSig) (h : newFunc ins outs = .ok fs) :
    ValueSet.KeysOK fs.input ∧ ValueSet.KeysOK fs.output :=
  CGF.newFunc_keysOK h

/-- in a `Call` graph (not redefining) no typed-argument vertex hangs off the root -/
theorem callGraph_no_arg_root (e : TypeEnv) (b : Builder) (funcs : Nat → Option FuncDesc)
    (target : FuncDesc) (filter : Option Filter) (t : Nat) (s : String) :
    (callGraph {} e b funcs target false filter).cg.g.hasEdge (.arg t s) .root = false := by
  cases h : (callGraph {} e b funcs target false filter).cg.g.hasEdge (.arg t s) .root with
  | false => rfl
  | true => exact absurd (CGF.ginv_callGraph {} e b funcs target filter _ _ h) (by simp [CGF.EdgeP, Vtx.isArg])

theorem stdCtx_funcsOK (e : TypeEnv) (b : Builder) (funcs : Nat → Option FuncDesc) (target : FuncDesc)
    (beh : Nat → Nat → List PVal → BehOut) (hc : FuncsConsistent (allFuncs b funcs target)) :
    FuncsOK (stdCtx e b funcs target beh) := by
  intro k f hfo
  simp only [stdCtx] at hfo ⊢
  exact CGF.funcsOK_of_edgeP (b.convs.filterMap funcs) (allFuncs b funcs target)
    (callGraph {} e b funcs target false none).cg.g
    (CGF.ginv_callGraph {} e b funcs target none)
    (fun f hf => List.mem_cons_of_mem _ hf)
    (fun f hf f' hf' hk => (hc.1 f hf f' hf' hk).2)
    (fun f hf => (hc.2 f hf).2) k f hfo

/-- **C01_injection_sound** (all structural hypotheses discharged) — for every type environment with a
transitive, antisymmetric `Implements`, every set of supplied values and converters, every target,
every behaviour of the function bodies, every oracle (requirement orders and path choices) and every
fuel: each function executed during `Call` gets one value per declared parameter, each of them
supplied by the caller or returned by a converter, and label-compatible with the parameter under the
matching table. -/
theorem injection_sound (e : TypeEnv) (ht : ImplTrans e) (ha : ImplAntisym e)
    (b : Builder) (funcs : Nat → Option FuncDesc) (target : FuncDesc)
    (hc : FuncsConsistent (allFuncs b funcs target))
    (beh : Nat → Nat → List PVal → BehOut) (fuel : Nat) (memo : List (Nat × Memo)) (orc : List OrcItem) :
    ∀ ev ∈ (callWith (stdCtx e b funcs target beh) (callGraph {} e b funcs target false none) target fuel
              (initSt (callGraph {} e b funcs target false none).cg memo orc)).2.log,
      ArgsOK e ev := by
  have henv : (stdCtx e b funcs target beh).env = e := rfl
  have hcg : (stdCtx e b funcs target beh).g = (callGraph {} e b funcs target false none).cg.g := by
    simp only [stdCtx]
  have hnar : ∀ t s, (stdCtx e b funcs target beh).g.hasEdge (.arg t s) .root = false := by
    intro t s
    rw [hcg]
    exact callGraph_no_arg_root e b funcs target none t s
  exact injection_sound_partial e ht ha b funcs target (stdCtx e b funcs target beh) henv hcg
    (stdCtx_funcsOK e b funcs target beh hc) hnar
    (callGraph_store_origin e b funcs target false none) fuel memo orc

end ArgMapper.C01
