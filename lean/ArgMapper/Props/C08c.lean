import ArgMapper.Props.C08b
import ArgMapper.Proofs.RedefCallable
import ArgMapper.Proofs.RedefCallableCE
import ArgMapper.Proofs.RedefLowerNames
/-!
# C08 (continued) — the redefined function is callable

Property theorems only (helper lemmas in `ArgMapper/Proofs/RedefCallableMono.lean` — the unpruned `Call`
graph grows with the supplied values —, `ArgMapper/Proofs/RedefCallable.lean` — the builder of the redefined
function's call, the paths of the planning run —, and `ArgMapper/Proofs/RedefCallableCE.lean` — the
counterexamples to the original statements).

Same fragment as `succeeds_when_permitted` (converters with at most one input, no subtype labels, each name
denoting a single type).  When the planning run of `Redefine` succeeded with declared inputs `ls` — for any
oracle — the call the redefined function makes (the original options plus one value of exactly the
declared type for every declared input) is never refused for lack of an argument: every parameter of
the target is found reachable when the graph is built (`callable_graph`), and, by C05's completeness on
this fragment, the call then executes the target or reports the error of a function body (`callable`).

**Correction.**  The statements as first written are false: see `LowerNames`, `counterexample_upper_case_name`,
`counterexample_name_with_two_types` and the comment after `callable_graph`.
-/
namespace ArgMapper.C08
open ArgMapper

/-- the options the redefined function adds: `Named(name, v)` for a named declared input, `Typed(v)` for a
type-only one, `v` a value of exactly the declared type with provenance `idOf l` -/
def withDeclared (b : Builder) (ls : List Label) (idOf : Label → Nat) : Builder :=
  ls.foldl (fun b l => setNamed b l.name (some { ty := l.ty, id := idOf l })) b

/-- (added hypothesis) the names of parameters and results are lower-case, as `Named` stores them
(`setNamed` keys the named map by `lower name`).  True of every label the model of `NewFunc` produces
(`newFunc_lowerNames`); a `FuncDesc` holds arbitrary labels. -/
def LowerNames (fs : List FuncDesc) : Prop :=
  ∀ f ∈ fs, ∀ l ∈ f.input.labels ++ f.output.labels, lower l.name = l.name

/-- value sets built by the model of `NewFunc` satisfy the condition of `LowerNames`: `fieldLabel` sets a
label's name to `""` or to `lower …`, and `lower` is idempotent (`C16.lower_idem`) -/
theorem newFunc_lowerNames (ins outs : List Param) (fs : FuncSig) (h : newFunc ins outs = .ok fs) :
    ∀ l ∈ fs.input.labels ++ fs.output.labels, lower l.name = l.name := by
  intro l hl
  rcases List.mem_append.1 hl with hl | hl
  · exact (RedefC.newFunc_setLower h).1 l hl
  · exact (RedefC.newFunc_setLower h).2 l hl

/-- **C08_callable (graph level)** (corrected statement: hypotheses `hnames` and `hlow` added, see below) -/
theorem callable_graph (e : TypeEnv) (ht : ImplTrans e)
    (b : Builder) (funcs : Nat → Option FuncDesc) (target : FuncDesc)
    (hc : C01.FuncsConsistent (C01.allFuncs b funcs target))
    (hsf : C05.SubtypeFree b (C01.allFuncs b funcs target))
    (hsi : C05.SingleInput (b.convs.filterMap funcs))
    (hwf : C05.SetsWF (b.convs.filterMap funcs))
    (htk : C05.TypedKeysOK b)
    (hkey : ∀ f ∈ b.convs.filterMap funcs, f.key ≠ target.key)
    (hnames : NamesSingleType b (C01.allFuncs b funcs target))
    (hlow : LowerNames (C01.allFuncs b funcs target))
    (fin fout : Option Filter) (outCount : Nat → Nat) (fuel : Nat) (orc : List OrcItem) (ls : List Label)
    (hok : redefine (redefCtx e b funcs target fin outCount) (callGraph {} e b funcs target true fin) target fout fuel
            (initSt (callGraph {} e b funcs target true fin).cg [] orc) = .ok ls)
    (idOf : Label → Nat) :
    (callGraph {} e (withDeclared b ls idOf) funcs target false none).unsat = [] := by
  have H : Complete.Hyps e b funcs target := ⟨hc, hsf.1, hsf.2.1, hsf.2.2, hsi, htk, hkey, hwf⟩
  exact RedefC.callable_unsat H ht hnames hlow fin fout outCount fuel orc ls hok idOf

/- ORIGINAL STATEMENT of `callable_graph` — FALSE (corrected above).  It had neither `hnames` nor `hlow`:

    theorem callable_graph (e : TypeEnv) (ht : ImplTrans e)
        (b : Builder) (funcs : Nat → Option FuncDesc) (target : FuncDesc)
        (hc : C01.FuncsConsistent (C01.allFuncs b funcs target))
        (hsf : C05.SubtypeFree b (C01.allFuncs b funcs target))
        (hsi : C05.SingleInput (b.convs.filterMap funcs))
        (hwf : C05.SetsWF (b.convs.filterMap funcs))
        (htk : C05.TypedKeysOK b)
        (hkey : ∀ f ∈ b.convs.filterMap funcs, f.key ≠ target.key)
        (fin fout : Option Filter) (outCount : Nat → Nat) (fuel : Nat) (orc : List OrcItem) (ls : List Label)
        (hok : redefine (redefCtx e b funcs target fin outCount) (callGraph {} e b funcs target true fin) target fout fuel
                (initSt (callGraph {} e b funcs target true fin).cg [] orc) = .ok ls)
        (idOf : Label → Nat) :
        (callGraph {} e (withDeclared b ls idOf) funcs target false none).unsat = []

Why it fails:
1. `withDeclared` passes `Named(l.name, v)` and `setNamed` stores the value under `lower l.name`: the supplied
   vertex is `value (lower n) t`, the declared input's vertex is `value n t`.  A `FuncDesc` holds arbitrary
   labels; for a parameter named `"A"` the two differ and the parameter stays unsatisfied
   (`counterexample_upper_case_name`; every other hypothesis, `hnames` included, holds).  No label the model of
   `NewFunc` builds has such a name (`fieldLabel` lower-cases): an artefact of the abstract `FuncDesc`.
2. `Named(n, v)` overwrites the entry `n` of the named map.  When the caller supplied `n : T1` and the target has
   parameters `n : T1` and `n : T2`, the planning run takes `n : T1` as it is and declares `n : T2`
   (`fieldsOK` sees one field); the redefined function's `Named(n, v₂)` then replaces the caller's `n : T1` and
   that parameter is unsatisfied (`counterexample_name_with_two_types`; every other hypothesis, `hlow`
   included, holds).  Outside the property's premise (each name one type).
Correction: the fragment's own `NamesSingleType` (hypothesis of `succeeds_when_permitted`) and `LowerNames`.
What the proof uses is weaker: every named declared input has a lower-case name that no value supplied by the
caller has (`RedefC.declared_named`); two named declared inputs have different names because the planning run
checked `fieldsOK`.  Each of the two hypotheses is necessary by the matching counterexample, which satisfies
the other. -/

/-- counterexample 1 to the original statements: every original hypothesis and `NamesSingleType` hold, the
only parameter is named `"A"`, the planning run succeeds and declares it, and the `Call` graph of the
redefined function's call lists it as unsatisfied -/
theorem counterexample_upper_case_name :
    ∃ (e : TypeEnv) (b : Builder) (funcs : Nat → Option FuncDesc) (target : FuncDesc) (orc : List OrcItem)
      (ls : List Label),
      ImplTrans e ∧ C01.FuncsConsistent (C01.allFuncs b funcs target) ∧
      C05.SubtypeFree b (C01.allFuncs b funcs target) ∧ C05.SingleInput (b.convs.filterMap funcs) ∧
      C05.SetsWF (b.convs.filterMap funcs) ∧ C05.TypedKeysOK b ∧
      (∀ f ∈ b.convs.filterMap funcs, f.key ≠ target.key) ∧
      NamesSingleType b (C01.allFuncs b funcs target) ∧
      redefine (redefCtx e b funcs target none (fun _ => 0)) (callGraph {} e b funcs target true none) target none 5
        (initSt (callGraph {} e b funcs target true none).cg [] orc) = .ok ls ∧
      (callGraph {} e (withDeclared b ls (fun _ => 7)) funcs target false none).unsat = [⟨"A", 1, ""⟩] := by
  refine ⟨CallableCE.e0, Builder.empty, CallableCE.noFuncs, CallableCE.tgt1, CallableCE.orc1, [⟨"A", 1, ""⟩],
    (by intro a b c h; simp [CallableCE.e0] at h), CallableCE.consistent1, CallableCE.labels1,
    (fun f hf => by cases hf), (fun f hf => by cases hf), (fun p hp => by cases hp), (fun f hf => by cases hf),
    ?_, CallableCE.run1.1, CallableCE.run1.2⟩
  have hl : C01.allFuncs Builder.empty CallableCE.noFuncs CallableCE.tgt1 = [CallableCE.tgt1] := rfl
  rw [hl]
  unfold NamesSingleType
  decide +kernel

/-- counterexample 2 to the original statements: every original hypothesis and `LowerNames` hold, the caller
supplied `a : T1`, the target has parameters `a : T1` and `a : T2`, the planning run succeeds and declares
`a : T2`, and the `Call` graph of the redefined function's call lists `a : T1` as unsatisfied -/
theorem counterexample_name_with_two_types :
    ∃ (e : TypeEnv) (b : Builder) (funcs : Nat → Option FuncDesc) (target : FuncDesc) (orc : List OrcItem)
      (ls : List Label),
      ImplTrans e ∧ C01.FuncsConsistent (C01.allFuncs b funcs target) ∧
      C05.SubtypeFree b (C01.allFuncs b funcs target) ∧ C05.SingleInput (b.convs.filterMap funcs) ∧
      C05.SetsWF (b.convs.filterMap funcs) ∧ C05.TypedKeysOK b ∧
      (∀ f ∈ b.convs.filterMap funcs, f.key ≠ target.key) ∧
      LowerNames (C01.allFuncs b funcs target) ∧
      redefine (redefCtx e b funcs target none (fun _ => 0)) (callGraph {} e b funcs target true none) target none 5
        (initSt (callGraph {} e b funcs target true none).cg [] orc) = .ok ls ∧
      (callGraph {} e (withDeclared b ls (fun _ => 7)) funcs target false none).unsat = [⟨"a", 1, ""⟩] := by
  refine ⟨CallableCE.e0, CallableCE.b2, CallableCE.noFuncs, CallableCE.tgt2, CallableCE.orc2, [⟨"a", 2, ""⟩],
    (by intro a b c h; simp [CallableCE.e0] at h), CallableCE.consistent2, CallableCE.labels2,
    (fun f hf => by cases hf), (fun f hf => by cases hf), (fun p hp => by cases hp), (fun f hf => by cases hf),
    ?_, CallableCE.run2.1, CallableCE.run2.2⟩
  have hl : C01.allFuncs CallableCE.b2 CallableCE.noFuncs CallableCE.tgt2 = [CallableCE.tgt2] := rfl
  rw [hl]
  unfold LowerNames
  decide +kernel

/-- **C08_callable** — the call made by the redefined function ends in success or in the error a function
body reported, for every oracle and every behaviour.
(Corrected statement: hypotheses `hnames` and `hlow` added; the original, without them, fails on the same two
scenarios — the graph lists an unsatisfied parameter, so the call ends in `unsat`.) -/
theorem callable (e : TypeEnv) (ht : ImplTrans e)
    (b : Builder) (funcs : Nat → Option FuncDesc) (target : FuncDesc)
    (hc : C01.FuncsConsistent (C01.allFuncs b funcs target))
    (hsf : C05.SubtypeFree b (C01.allFuncs b funcs target))
    (hsi : C05.SingleInput (b.convs.filterMap funcs))
    (hwf : C05.SetsWF (b.convs.filterMap funcs))
    (htk : C05.TypedKeysOK b)
    (hkey : ∀ f ∈ b.convs.filterMap funcs, f.key ≠ target.key)
    (hnames : NamesSingleType b (C01.allFuncs b funcs target))
    (hlow : LowerNames (C01.allFuncs b funcs target))
    (fin fout : Option Filter) (outCount : Nat → Nat) (fuel : Nat) (orc : List OrcItem) (ls : List Label)
    (hok : redefine (redefCtx e b funcs target fin outCount) (callGraph {} e b funcs target true fin) target fout fuel
            (initSt (callGraph {} e b funcs target true fin).cg [] orc) = .ok ls)
    (idOf : Label → Nat)
    (beh : Nat → Nat → List PVal → BehOut) (fuel' : Nat) (hfuel : 2 ≤ fuel') (memo : List (Nat × Memo)) (orc' : List OrcItem) :
    let b' := withDeclared b ls idOf
    let r := callWith (C01.stdCtx e b' funcs target beh) (callGraph {} e b' funcs target false none) target fuel'
              (initSt (callGraph {} e b' funcs target false none).cg memo orc')
    (∃ res, r.1 = .ok res) ∨ (∃ ε, r.1 = .convErr ε) ∨ (∃ ε res, r.1 = .targetErr ε res) ∨ (∃ w, r.1 = .badOracle w) := by
  intro b' r
  have H : Complete.Hyps e b funcs target := ⟨hc, hsf.1, hsf.2.1, hsf.2.2, hsi, htk, hkey, hwf⟩
  have H' : Complete.Hyps e b' funcs target := RedefC.hyps_withDecl H ls idOf
  have hsat : (callGraph {} e b' funcs target false none).unsat = [] :=
    callable_graph e ht b funcs target hc hsf hsi hwf htk hkey hnames hlow fin fout outCount fuel orc ls hok idOf
  rcases Complete.complete_core H' ht hsat beh False (fun h => h.elim) fuel' hfuel memo (fun h => h.elim) orc'
    with h | ⟨h, _⟩ | ⟨h, _⟩ | h
  · exact Or.inl h
  · exact Or.inr (Or.inl h)
  · exact Or.inr (Or.inr (Or.inl h))
  · exact Or.inr (Or.inr (Or.inr h))

/-- a graph with a non-empty unsatisfied list: the call is refused before anything runs -/
theorem unsat_refused (c : Ctx) (cgr : CallGraphResult) (target : FuncDesc) (fuel : Nat) (s0 : CallSt)
    (l : Label) (ls : List Label) (h : cgr.unsat = l :: ls) :
    (callWith c cgr target fuel s0).1 = .unsat (l :: ls) true := by
  unfold callWith
  rw [h]
  rfl

/- ORIGINAL STATEMENT of `callable` — FALSE (corrected above): the same statement without `hnames` and `hlow`.
In both scenarios of `CallableCE` the graph built for `withDeclared b ls idOf` has a non-empty unsatisfied list
(`counterexample_upper_case_name`, `counterexample_name_with_two_types`), so `callWith` returns
`.unsat … true` (`unsat_refused`) — not `ok`, `convErr`, `targetErr` or `badOracle`. -/

end ArgMapper.C08
