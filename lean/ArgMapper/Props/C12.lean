import ArgMapper.Model.Conc
import ArgMapper.Generated.Effects
import ArgMapper.Proofs.Conc
/-!
# C11 (concurrent clause) and C12 — run-once under concurrency; sharing between concurrent calls

Property theorems only (helper lemmas in `ArgMapper/Proofs/Conc.lean`).

What is a theorem here: (1) the run-once protocol of the repaired `callDirect` executes the body at
most once and gives every thread the same result **for every schedule and any number of threads**;
the unrepaired protocol does not (two-thread counterexample); (2) lock discipline implies absence of
data races; (3) the table of accesses to shared state, **regenerated from `/repo`'s sources on every
run**, obeys the discipline.  What is *not* a theorem: that the extracted table is complete (the
extractor is a syntactic, conservative analysis — trusted base) and anything below the level of
"conflicting accesses without a common lock"; both are complemented by the race-detector runs.
-/
namespace ArgMapper.C12
open ArgMapper ArgMapper.Conc

/-- **C11_once_concurrent** — locked protocol, any number of threads, any schedule: the body runs at
most once, and any two threads that have returned hold the same result -/
theorem once_concurrent (n : Nat) (sched : List Nat) :
    (run true n sched).execs ≤ 1 ∧
    ∀ i j r r', result (run true n sched) i = some r → result (run true n sched) j = some r' → r = r' := by
  have hi := inv_run n sched
  refine ⟨hi.execs, ?_⟩
  intro i j r r' h1 h2
  rw [result_eq_one hi h1, result_eq_one hi h2]

/-- every thread that is scheduled often enough returns: no deadlock (the lock is always released) —
stated as: whenever the lock is held, its holder is a live thread that is not blocked -/
theorem lock_holder_progresses (n : Nat) (sched : List Nat) (t : Nat)
    (h : (run true n sched).lock = some t) :
    ∃ pc, (run true n sched).pcs[t]? = some pc ∧ pc ≠ .start ∧ (∀ r, pc ≠ .done r) := by
  obtain ⟨pc, hpc, ha⟩ := (inv_run n sched).holder t h
  exact ⟨pc, hpc, ha.1, ha.2⟩

/-- **counterexample (finding F7)** — the unsynchronised protocol: two threads, both see an empty memo,
both execute, and they return different results -/
theorem counterexample_two_first_uses :
    (run false 2 [0, 1, 0, 1, 0, 1, 0, 1, 0, 1]).execs = 2 ∧
    result (run false 2 [0, 1, 0, 1, 0, 1, 0, 1, 0, 1]) 0 ≠ result (run false 2 [0, 1, 0, 1, 0, 1, 0, 1, 0, 1]) 1 := by
  decide

/-- **C12 (lock discipline ⇒ race freedom)** — if every access to a written location holds that
location's lock, no two threads race -/
theorem guarded_race_free (guard : String → String) (progs : List (List Access)) (hg : Guarded guard progs)
    (p q : List Access) (hp : p ∈ progs) (hq : q ∈ progs) : ¬ Race p q := by
  exact guarded_no_race guard progs hg p q hp hq

/-- the accesses one call performs on shared state, as extracted from the sources: the run-once lock
is the only lock -/
def callAccesses : List Access :=
  Generated.sharedAccesses.map (fun a =>
    { loc := a.loc, write := a.write, lock := if a.locked then some "onceMu" else none })

/-- **the regenerated effects table obeys the discipline**: every store to state that outlives a call,
and every read of such a location, happens under the run-once lock (re-checked by evaluation against
the table produced from `/repo` on this run) -/
theorem effects_guarded : ∀ a ∈ Generated.sharedAccesses, a.locked = true := by
  decide

/-- … hence any number of concurrent calls, each performing (a subset of) these accesses, are free of
data races on the modelled shared state -/
theorem C12_race_free (k : Nat) (p q : List Access)
    (hp : p ∈ List.replicate k callAccesses) (hq : q ∈ List.replicate k callAccesses) : ¬ Race p q := by
  have hall : ∀ a ∈ callAccesses, a.lock = some "onceMu" := by
    intro a ha
    simp only [callAccesses, List.mem_map] at ha
    obtain ⟨b, hb, rfl⟩ := ha
    simp [effects_guarded b hb]
  rw [List.mem_replicate] at hp hq
  obtain ⟨_, rfl⟩ := hp
  obtain ⟨_, rfl⟩ := hq
  exact common_lock_no_race "onceMu" _ _ hall hall

end ArgMapper.C12
