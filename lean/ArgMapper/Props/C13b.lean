import ArgMapper.Props.C01
import ArgMapper.Proofs.LibCompat
/-!
# C05 / C13 (continued) — what the edge rules realise, exactly

Property theorem only.  `compatB` is the documented matching table (C01); `libCompatB` was written by hand
as "what the library's edge rules actually realise" and is what the checks use to classify a refused
parameter as a *matching gap* (known findings G1–G5) rather than a new violation.  This theorem ties it to
the declarative rule set (`EdgeRule`, `RuleFlow` in `Spec/Flow.lean`, of which `C01.callGraph_edges` shows
every edge of a built graph to be an instance): a value that enters the graph at the origin vertex of label
`o` can be copied, vertex to vertex along rule instances, to the vertex of parameter `p` **iff**
`libCompatB e p o`.  Hence the gaps are exactly `compatB ∧ ¬ RuleFlow`, and `gapClass` names five classes
that cover them.
-/
namespace ArgMapper.C13
open ArgMapper

/-- the vertex at which a value with this label enters the graph: a named value vertex, or a typed output -/
def originVertex (l : Label) : Vtx :=
  if l.name ≠ "" then .value l.name l.ty l.sub else .out l.ty l.sub

/-- **the library's matching relation is `libCompatB`** -/
theorem ruleFlow_iff_lib (e : TypeEnv) (ht : ImplTrans e) (ha : ImplAntisym e) (p o : Label) :
    RuleFlow e (originVertex o) p.vertex ↔ libCompatB e p o = true := by
  obtain ⟨pn, pt, ps⟩ := p
  obtain ⟨on, ot, os⟩ := o
  by_cases hp : pn = "" <;> by_cases ho : on = ""
  · subst hp; subst ho
    simp only [originVertex, Label.vertex, ne_eq, not_true_eq_false, if_false]
    exact (LibCompat.ruleFlow_arg_iff ht ha).trans (LibCompat.lib_arg_out e pt ps ot os)
  · subst hp
    simp only [originVertex, Label.vertex, ne_eq, ho, not_false_eq_true, if_true, not_true_eq_false, if_false]
    exact (LibCompat.ruleFlow_arg_iff ht ha).trans (LibCompat.lib_arg_value e pt ps on ot os ho)
  · subst ho
    simp only [originVertex, Label.vertex, ne_eq, hp, not_false_eq_true, if_true, not_true_eq_false, if_false]
    exact (LibCompat.ruleFlow_value_iff ht ha).trans (LibCompat.lib_value_out e pn pt ps ot os hp)
  · simp only [originVertex, Label.vertex, ne_eq, hp, ho, not_false_eq_true, if_true]
    exact (LibCompat.ruleFlow_value_iff ht ha).trans (LibCompat.lib_value_value e pn pt ps on ot os hp ho)

/-- every table-compatible pair the rules do not realise falls into one of the five recorded classes -/
theorem gaps_classified (e : TypeEnv) (ht : ImplTrans e) (ha : ImplAntisym e) (p o : Label)
    (hc : compatB e p o = true) (hn : ¬ RuleFlow e (originVertex o) p.vertex) :
    gapClass e p o ∈ ["G1_named_value_of_implementing_type_to_named_interface_parameter",
      "G2_named_value_of_implementing_type_to_typed_interface_parameter",
      "G3_named_value_without_subtype_to_typed_parameter_with_subtype",
      "G4_named_value_without_subtype_to_same-named_parameter_with_subtype",
      "G5_typed_value_with_subtype_to_named_parameter_of_that_type"] := by
  rcases LibCompat.gapClass_cases e p o with ⟨_, h | h⟩ | h
  · rw [hc] at h; cases h
  · exact (hn ((ruleFlow_iff_lib e ht ha p o).2 h)).elim
  · exact h

end ArgMapper.C13
