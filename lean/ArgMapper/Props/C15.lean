import ArgMapper.Model.Sig
import ArgMapper.Proofs.ValueSets
/-!
# C15 — value sets round-trip values faithfully
Property theorems only (helper lemmas in `ArgMapper/Proofs/Sig.lean`).

`NewValueSet` renders each value's labels into a struct tag and `newValueSetFromStruct` parses the
tag back.  `TagRoundTrips` states that this string round trip is faithful for the given labels
(true whenever names are identifiers and subtypes contain no comma; checked on the real parser by
the correspondence run, and for the concrete labels below by evaluation).
-/
namespace ArgMapper.C15
open ArgMapper

def TagRoundTrips (vs : List Label) : Prop :=
  ∀ i l, vs[i]? = some l → fieldLabel (valueField i l) = { l with name := lower l.name }

/-- **C15_values_roundtrip** — the set reports the values back, names lower-cased, in order -/
theorem values_roundtrip (vs : List Label) (ht : TagRoundTrips vs) :
    ∃ s, newValueSetOfValues vs = .ok s ∧ s.labels = vs.map (fun l => { l with name := lower l.name }) ∧
      s.values.map (·.index) = (List.range vs.length).map (· + 1) := by
  exact ⟨_, newValueSetOfValues_eq vs ht, rtVal_labels vs, rtVal_indices vs⟩

/-- **C15_lookup** — each named value is found by its name, each type-only value by its type (when
no later type-only value has the same type), and by type and subtype when no other value of the
set shares both -/
theorem lookup_named (vs : List Label) (ht : TagRoundTrips vs) (s : ValueSet)
    (hs : newValueSetOfValues vs = .ok s) (i : Nat) (l : Label) (hi : vs[i]? = some l) (hn : l.name ≠ "")
    (hlow : lower l.name ≠ "")
    (huniq : ∀ j l', vs[j]? = some l' → lower l'.name = lower l.name → j = i) :
    (s.namedLookup (lower l.name)).map (·.lab) = some { l with name := lower l.name } := by
  rw [newValueSetOfValues_eq vs ht] at hs
  cases hs
  have _ := hn
  exact named_lookup_rt vs i l hi hlow huniq

theorem lookup_typed (vs : List Label) (ht : TagRoundTrips vs) (s : ValueSet)
    (hs : newValueSetOfValues vs = .ok s) (i : Nat) (l : Label) (hi : vs[i]? = some l) (hn : l.name = "")
    (huniq : ∀ j l', vs[j]? = some l' → l'.name = "" → l'.ty = l.ty → j = i) :
    (s.typedLookup l.ty).map (·.lab) = some l := by
  rw [newValueSetOfValues_eq vs ht] at hs
  cases hs
  exact typed_lookup_rt vs i l hi hn huniq

theorem lookup_typed_sub (vs : List Label) (ht : TagRoundTrips vs) (s : ValueSet)
    (hs : newValueSetOfValues vs = .ok s) (i : Nat) (l : Label) (hi : vs[i]? = some l)
    (huniq : ∀ j l', vs[j]? = some l' → l'.ty = l.ty → l'.sub = l.sub → j = i) :
    (s.typedSubLookup l.ty l.sub).map (·.lab) = some { l with name := lower l.name } := by
  rw [newValueSetOfValues_eq vs ht] at hs
  cases hs
  exact typedSub_lookup_rt vs i l hi huniq

/-- **C15_signature_roundtrip** — loading the values a struct-form set renders as its signature
restores every value (indices of a set are pairwise distinct) -/
theorem signature_roundtrip (s : ValueSet) (hnd : (s.values.map (·.index)).Nodup)
    (vals : List (Option Nat)) (hl : vals.length = s.values.length) :
    s.roundTrip vals = vals := by
  exact roundTrip_eq s.values hnd vals hl

/-- before the repair of finding F1 the rendered signature of a positional set was the parameter type
list only when the types were pairwise distinct … -/
theorem signature_positional_pre_repair (ps : List Param) (hne : 2 ≤ ps.length) (hns : ∀ p ∈ ps, p.isStruct = false)
    (hd : (ps.map Param.ty).Nodup) (s : ValueSet) (hs : newValueSet ps = .ok s) :
    s.signatureByTypeMap 0 = some (ps.map Param.ty) := by
  rw [newValueSet_eq_lifted ps hns (by intro h; simp [h] at hne), newValueSetLifted_eq ps hns] at hs
  cases hs
  exact signature_lifted (ps.map Param.ty) _ rfl (typed_lifted _ hd) 0

/-- non-vacuity of `TagRoundTrips` on labels with mixed case, a subtype containing `=`, and a
type-only value -/
example : TagRoundTrips [⟨"Port", 0, ""⟩, ⟨"", 1, "k=v"⟩, ⟨"xY", 2, "YQ=="⟩] := by
  have h0 : fieldLabelC (valueField 0 ⟨"Port", 0, ""⟩) = ⟨"port", 0, ""⟩ := by decide +kernel
  have h1 : fieldLabelC (valueField 1 ⟨"", 1, "k=v"⟩) = ⟨"", 1, "k=v"⟩ := by decide +kernel
  have h2 : fieldLabelC (valueField 2 ⟨"xY", 2, "YQ=="⟩) = ⟨"xy", 2, "YQ=="⟩ := by decide +kernel
  have l0 : lower "Port" = "port" := by decide +kernel
  have l1 : lower "" = "" := by decide +kernel
  have l2 : lower "xY" = "xy" := by decide +kernel
  intro i l h
  rw [fieldLabel_eq_C]
  rcases i with _ | _ | _ | n
  · simp only [List.getElem?_cons_zero, Option.some.injEq] at h
    subst h
    show fieldLabelC (valueField 0 ⟨"Port", 0, ""⟩) = ⟨lower "Port", 0, ""⟩
    rw [h0, l0]
  · simp only [List.getElem?_cons_succ, List.getElem?_cons_zero, Option.some.injEq] at h
    subst h
    show fieldLabelC (valueField 1 ⟨"", 1, "k=v"⟩) = ⟨lower "", 1, "k=v"⟩
    rw [h1, l1]
  · simp only [List.getElem?_cons_succ, List.getElem?_cons_zero, Option.some.injEq] at h
    subst h
    show fieldLabelC (valueField 2 ⟨"xY", 2, "YQ=="⟩) = ⟨lower "xY", 2, "YQ=="⟩
    rw [h2, l2]
  · simp at h

end ArgMapper.C15
