import ArgMapper.Model.Traverse
import ArgMapper.Model.Dijkstra
import ArgMapper.Proofs.TraverseDfs
import ArgMapper.Proofs.TraverseKahn
import ArgMapper.Proofs.TraverseReach
import ArgMapper.Proofs.TraverseTopo
/-!
# C20 — traversals and orderings are exact

Property theorems only (helper lemmas live in `ArgMapper/Proofs/Traverse*.lean`).
Iteration order of Go maps = representation order of `g.verts` / `g.edges`; every theorem holds
for every `g`, hence for every order.
-/
namespace ArgMapper.C20
open ArgMapper AGraph Traverse
variable {α : Type} [DecidableEq α]

/-! ## DFS -/

/-- vertices whose out-edges the traversal explores: the start vertex and every vertex the callback
descended into, transitively -/
inductive Explored (g : AGraph α) (cb : α → DfsAct) (start : α) : α → Prop
  | start : Explored g cb start start
  | step {u w} : Explored g cb start u → g.hasEdge u w = true → w ≠ start → cb w = .descend →
      Explored g cb start w

/-- vertices that must be handed to the callback -/
def Reportable (g : AGraph α) (cb : α → DfsAct) (start w : α) : Prop :=
  w ≠ start ∧ ∃ u, Explored g cb start u ∧ g.hasEdge u w = true

theorem explored_iff (g : AGraph α) (cb : α → DfsAct) (start x : α) :
    Explored g cb start x ↔ TraverseDfs.Expl g cb start x := by
  constructor
  · intro h
    induction h with
    | start => exact .start
    | step _ he hne hd ih => exact .step ih he hne hd
  · intro h
    induction h with
    | start => exact .start
    | step _ he hne hd ih => exact .step ih he hne hd

theorem reportable_iff (g : AGraph α) (cb : α → DfsAct) (start w : α) :
    Reportable g cb start w ↔ TraverseDfs.Rep g cb start w := by
  simp only [Reportable, TraverseDfs.Rep, explored_iff]

/-- **C20_dfs (exactness)** — if no reportable vertex aborts, the callback is invoked on exactly the
reportable vertices, the traversal is not aborted and the fuel of the wrapper is never exhausted. -/
theorem dfs_exact (g : AGraph α) (hwf : g.WF) (cb : α → DfsAct) (start : α) (hs : start ∈ g.verts)
    (hna : ∀ w, Reportable g cb start w → cb w ≠ .abort) :
    (DFS g cb start).outOfFuel = false ∧ (DFS g cb start).aborted = false ∧
    ∀ w, w ∈ (DFS g cb start).log ↔ Reportable g cb start w := by
  simp only [reportable_iff] at hna ⊢
  exact TraverseDfs.DFS_exact hwf cb start hs hna

/-- **C20_dfs (once)** — with or without aborts: only reportable vertices are ever reported, and a
vertex the traversal descends into is reported exactly once. -/
theorem dfs_sound_once (g : AGraph α) (hwf : g.WF) (cb : α → DfsAct) (start : α) (hs : start ∈ g.verts) :
    (DFS g cb start).outOfFuel = false ∧
    (∀ w ∈ (DFS g cb start).log, Reportable g cb start w) ∧
    ((DFS g cb start).log.filter (fun w => decide (cb w = .descend))).Nodup := by
  simp only [reportable_iff]
  exact TraverseDfs.DFS_sound_once hwf cb start hs

/-- **C20_dfs (abort)** — the traversal reports an error iff an aborting vertex was reported. -/
theorem dfs_abort (g : AGraph α) (hwf : g.WF) (cb : α → DfsAct) (start : α) (hs : start ∈ g.verts) :
    (DFS g cb start).aborted = true ↔ ∃ w ∈ (DFS g cb start).log, cb w = .abort :=
  TraverseDfs.DFS_abort hwf cb start hs

/-! ## topological sorting -/

/-- `L` lists every vertex exactly once and every edge points forward -/
def IsTopo (g : AGraph α) (L : List α) : Prop :=
  L.Nodup ∧ (∀ v, v ∈ L ↔ v ∈ g.verts) ∧
  ∀ e ∈ g.edges, ∃ i j : Nat, L[i]? = some e.1 ∧ L[j]? = some e.2.1 ∧ i < j

/-- a cycle: a vertex that reaches itself through at least one edge -/
def Cyclic (g : AGraph α) : Prop := ∃ u v, g.hasEdge u v = true ∧ Reach g v u

theorem isTopoOrder_iff (g : AGraph α) (L : List α) : isTopoOrder g L = true ↔ IsTopo g L :=
  TraverseKahn.isTopoOrder_iff' g L

/-- **C20_kahn** — on an acyclic graph the result is a topological order; a cyclic graph is
refused (`none` models the `panic`).  The argument graph is a value, so "original untouched"
holds by construction in the model and is compared on the code by the harness. -/
theorem kahn_acyclic (g : AGraph α) (hwf : g.WF) (hac : ¬ Cyclic g) :
    ∃ L, kahnSort g = some L ∧ IsTopo g L :=
  TraverseKahn.kahn_acyclic' g hwf hac

theorem kahn_cyclic (g : AGraph α) (hwf : g.WF) (hc : Cyclic g) : kahnSort g = none :=
  have _ := hwf  -- not needed: a cyclic graph is refused whatever the representation
  TraverseKahn.kahn_cyclic' g hc

/-! ## strongly connected components -/

/-- `comps` is a partition of the vertices into mutual-reachability classes -/
def IsSccPartition (g : AGraph α) (comps : List (List α)) : Prop :=
  comps.flatten.Nodup ∧ (∀ v, v ∈ comps.flatten ↔ v ∈ g.verts) ∧ (∀ c ∈ comps, c ≠ []) ∧
  ∀ c ∈ comps, ∀ u ∈ c, ∀ v ∈ g.verts, (v ∈ c ↔ (Reach g u v ∧ Reach g v u))

theorem reachB_iff (g : AGraph α) (hwf : g.WF) (u v : α) (hu : u ∈ g.verts) :
    reachB g u v = true ↔ Reach g u v :=
  TraverseReach.reachB_iff' g hwf u v hu

/-- **C20_scc_checker_sound_complete** — the executable checker applied to the outputs of the
model and of the real code decides exactly the specification. -/
theorem isSccPartition_iff (g : AGraph α) (hwf : g.WF) (comps : List (List α)) :
    isSccPartition g comps = true ↔ IsSccPartition g comps :=
  TraverseReach.isSccPartition_iff' g hwf comps

/-! ## topological shortest paths agree with Dijkstra -/

/-- true minimum distance (paths of existing edges) -/
def IsDist (g : AGraph α) (u v : α) (d : Int) : Prop :=
  (∃ p, p.head? = some u ∧ p.getLast? = some v ∧ IsPath g p ∧ pathWeight g p = d) ∧
  ∀ p, p.head? = some u → p.getLast? = some v → IsPath g p → d ≤ pathWeight g p

/-- **C20_topo** — on an acyclic graph in which every vertex is reachable from `root`, relaxing in
any topological order yields, for every non-root vertex, its true minimum distance from the root
(the same value `C18.dist_exact` gives for Dijkstra), and the recorded predecessor lies on a
shortest path. -/
theorem topo_exact (g : AGraph α) (hwf : g.WF) (root : α) (hroot : ∀ v ∈ g.verts, Reach g root v)
    (L : List α) (hL : IsTopo g L) (v : α) (hv : v ∈ g.verts) (hne : v ≠ root) :
    ∃ d, lookupD (topoShortestPath g L).dist v = some d ∧ IsDist g root v d :=
  TraverseTopo.topo_exact' g hwf root hroot L hL.1 hL.2.1 hL.2.2 v hv hne

/-- non-vacuity -/
example : let g : AGraph Nat := ⟨[0, 1, 2, 3], [(0, 1, 2), (1, 2, 0), (0, 2, 5), (2, 3, 1)]⟩
    g.WF ∧ ¬ Cyclic g ∧ kahnSort g = some [0, 1, 2, 3] ∧ (∀ v ∈ g.verts, Reach g 0 v) := by
  intro g
  have hwf : g.WF := by
    refine ⟨by decide, by decide, by decide⟩
  refine ⟨hwf, ?_, by decide, ?_⟩
  · unfold Cyclic
    rw [TraverseReach.cyclic_iff_any g hwf]
    decide
  · rw [TraverseReach.all_reach_iff g hwf 0 (by decide)]
    decide

end ArgMapper.C20
