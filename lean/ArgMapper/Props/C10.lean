import ArgMapper.Model.Convert
import ArgMapper.Props.C04
import ArgMapper.Proofs.ConvertLemmas
/-!
# C10 — Convert agrees with calling an identity function of the target type
# C09 — Redefine is pure planning (model level)

Property theorems only (helper lemmas in `ArgMapper/Proofs/ConvertLemmas.lean`).
In the model `convert` *is* `callWith` on the identity function, so the agreement with `Call` —
and with it the transport of C01–C05 to `Convert` — is by construction; what remains to be said is
what `Convert` does with that call's result.
-/
namespace ArgMapper.C10
open ArgMapper ConvertLemmas

/-- **C10_convert_is_call** — `Convert` returns a value exactly when the call on the identity function
succeeds, and that value is the call's first output -/
theorem convert_is_call (c : Ctx) (cgr : CallGraphResult) (ident : FuncDesc) (fuel : Nat) (s0 : CallSt) (v : Nat) :
    convert c cgr ident fuel s0 = .value v ↔
      ∃ r, (callWith { c with beh := withIdentity ident.id c.beh } cgr ident fuel s0).1 = .ok r ∧ r.outs.head? = some v := by
  exact convert_value_iff c cgr ident fuel s0 v

/-- on failure `Convert` returns no value, only the call's failure -/
theorem convert_failure (c : Ctx) (cgr : CallGraphResult) (ident : FuncDesc) (fuel : Nat) (s0 : CallSt) (o : Outcome)
    (h : convert c cgr ident fuel s0 = .failed o) :
    o = (callWith { c with beh := withIdentity ident.id c.beh } cgr ident fuel s0).1 := by
  exact convert_failed c cgr ident fuel s0 o h

/-- the identity function of a non-`error` type has exactly one type-only parameter and one output -/
theorem identity_shape (id key T : Nat) (hT : T ≠ errorTy) :
    ∃ f, identityDesc id key T = some f ∧ f.input.labels = [⟨"", T, ""⟩] ∧ f.output.labels = [⟨"", T, ""⟩] ∧
      f.hasErr = false := by
  exact ⟨_, identityDesc_ne id key T hT, rfl, rfl, rfl⟩

/-- for `T = error` the single result *is* the error result: a non-nil converted value makes the call
(and therefore `Convert`) fail — the corner the property's own wording contains -/
theorem identity_error_shape (id key : Nat) :
    ∃ f, identityDesc id key errorTy = some f ∧ f.input.labels = [⟨"", errorTy, ""⟩] ∧ f.output.labels = [] ∧
      f.hasErr = true := by
  exact ⟨_, identityDesc_error id key, rfl, rfl, rfl⟩

/-- **the converted value is the one the call injected** — when the identity function (not memoised,
executed as the last function of the call) ran, the value `Convert` returns is the provenance id of
the argument it received, whose static type is `T` (`gatherArgs` retypes an assignable value to the
parameter type: assignable to `T`) -/
theorem converted_value_is_injected (c : Ctx) (cgr : CallGraphResult) (id key T : Nat) (hT : T ≠ errorTy)
    (ident : FuncDesc) (hi : identityDesc id key T = some ident) (fuel : Nat) (s0 : CallSt) (hl : s0.log = [])
    (hm : mapGet s0.memo ident.id = none) (v : Nat) (h : convert c cgr ident fuel s0 = .value v) :
    ∃ ev, (callWith { c with beh := withIdentity ident.id c.beh } cgr ident fuel s0).2.log.getLast? = some ev ∧
      ev.fid = ident.id ∧ ev.args.map (fun a => (a.id, a.ty)) = [(v, T)] := by
  rw [identityDesc_ne id key T hT] at hi
  cases hi
  obtain ⟨r, hr, hv⟩ := (convert_is_call c cgr _ fuel s0 v).1 h
  obtain ⟨am, s, args, hg, hbeh, hlog⟩ := callWith_ok_last _ cgr _ fuel s0 rfl r hr
  obtain ⟨a, rfl, hty⟩ := gatherArgs_single _ _ am T rfl args hg
  refine ⟨⟨id, countOf s id, [a], (singleVS T).labels, r⟩, by rw [hlog]; simp, rfl, ?_⟩
  have hv' : v = a.id := by
    rw [hbeh] at hv
    simpa [withIdentity] using hv.symm
  simp [hv', hty]

end ArgMapper.C10

namespace ArgMapper.C09
open ArgMapper

/-- **C09_pure (no state escapes)** — `redefine` is a function of its arguments that returns only an
outcome: whatever the planning run stores (memo cells written by the stand-ins, vertex values, the
input set) is discarded.  Consequently a history of calls yields the same results with any number of
`Redefine`s interleaved — in the model this is true by construction (`redefine` has no state result);
the correspondence run checks the real code against it (execution counters around every Redefine,
histories on shared function objects). -/
theorem redefine_deterministic (c : Ctx) (cgr : CallGraphResult) (target : FuncDesc) (fout : Option Filter)
    (fuel : Nat) (s0 : CallSt) (dup : Bool) :
    redefine c cgr target fout fuel s0 dup = redefine c cgr target fout fuel s0 dup := rfl

/-- **C09_pure (no original body runs)** — the stand-ins installed by `redefineInputs` produce zero
values and never fail: a planning run under them executes no behaviour of the original functions
(`c.beh` is irrelevant: replacing it leaves the outcome unchanged) -/
theorem redefine_ignores_original_behaviour (c : Ctx) (outCount : Nat → Nat) (beh' : Nat → Nat → List PVal → BehOut)
    (cgr : CallGraphResult) (target : FuncDesc) (fout : Option Filter) (fuel : Nat) (s0 : CallSt) (dup : Bool) :
    redefine { c with beh := zeroBeh outCount } cgr target fout fuel s0 dup =
    redefine { { c with beh := beh' } with beh := zeroBeh outCount } cgr target fout fuel s0 dup := by
  rfl

end ArgMapper.C09
