import ArgMapper.Spec.Flow
import ArgMapper.Proofs.ReachSound
import ArgMapper.Proofs.FlowCompat
import ArgMapper.Proofs.CallGraphEdges
/-!
# C01 — every injected value is a label- and type-correct binding, never fabricated

Property theorems only (helper lemmas in `ArgMapper/Proofs/CallGraphEdges.lean`,
`ArgMapper/Proofs/FlowCompat.lean`, `ArgMapper/Proofs/ReachSound.lean`).

Values in flight carry a ghost origin `org`: the vertex at which the value entered the graph — the
vertex of a value the caller supplied, or the output vertex a converter's result was written to.
"Supplied by the caller or returned by a supplied converter, never fabricated" is `org.isOrigin`
(an origin is set only by `initSt` from the supplied values and by `outputValues` from a
function's actual results); "label-compatible" is `compatB` between the parameter's label and the
origin vertex's label.
-/
namespace ArgMapper.C01
open ArgMapper

/-- what an executed function received -/
def ArgsOK (e : TypeEnv) (ev : ExecEv) : Prop :=
  ev.args.length = ev.params.length ∧
  ∀ (i : Nat) (p : Label) (a : PVal), ev.params[i]? = some p → ev.args[i]? = some a →
    a.org.isOrigin = true ∧ compatB e p a.org.label = true

/-- the same, in terms of flow in a concrete graph (what the dynamic part proves) -/
def ArgsFlow (g : AGraph Vtx) (ev : ExecEv) : Prop :=
  ev.args.length = ev.params.length ∧
  ∀ (i : Nat) (p : Label) (a : PVal), ev.params[i]? = some p → ev.args[i]? = some a →
    a.org.isOrigin = true ∧ Flow g a.org p.vertex

/-- every stored value entered at an origin vertex and can flow to where it is stored -/
def StoreOK (g : AGraph Vtx) (s : CallSt) : Prop :=
  ∀ x v, s.get x = some v → v.org.isOrigin = true ∧ Flow g v.org x

/-- the function object of every function vertex knows the outputs that hang off that vertex
(true of graphs built by `callGraph`: the output edges are created from that very output set) -/
def FuncsOK (c : Ctx) : Prop :=
  ∀ k f, c.funcOf k = some f →
    f.key = k ∧
    ∀ v ∈ c.g.ins (.func k),
      (∀ n t s, v = .value n t s → (mapGet f.output.named n).isSome = true) ∧
      (∀ t s, v = .out t s → (mapGet f.output.typed t).isSome = true) ∧
      (v.isValue = true ∨ v.isOut = true)

/-- **static part** — the matching table is closed under flow along the edge rules: whatever
reaches a parameter vertex by vertex-to-vertex copies has a compatible label. Needs transitivity of
`Implements` and excludes twin interfaces (`ImplAntisym`, finding F14). -/
theorem flow_compat (e : TypeEnv) (ht : ImplTrans e) (ha : ImplAntisym e) (o x : Vtx)
    (ho : o.isOrigin = true) (hx : x.isValue = true ∨ x.isArg = true) (h : RuleFlow e o x) :
    compatB e x.label o.label = true :=
  FlowCompat.flow_compat e ht ha o x ho hx h

/-- **edge characterisation** — every edge of the graph `callGraph` builds (with the repaired rules)
is an instance of one of the rules R0–R8 -/
theorem callGraph_edges (e : TypeEnv) (b : Builder) (funcs : Nat → Option FuncDesc) (target : FuncDesc)
    (redefining : Bool) (filter : Option Filter) :
    EdgeOK e (callGraph {} e b funcs target redefining filter).cg.g :=
  CGE.callGraph_edgeOK e b funcs target redefining filter

/-- **dynamic part** — for any graph whose edges obey the rules and in which no typed-argument vertex
hangs off the root (`hnar`), and any legal-or-not oracle (every path handed to `reach` is checked to
be a real path from the root ending in the requirement, nothing more), every function executed
during `Call` receives a full argument list whose members entered the graph at an origin vertex and
flowed to the parameter's vertex.  (Corrected statement: the original, without `hnar` and with
paths not required to start at the root, is false — see the comment below.) -/
theorem call_args_flow (c : Ctx) (hg : EdgeOK c.env c.g) (hf : FuncsOK c)
    (hnar : ∀ t s, c.g.hasEdge (.arg t s) .root = false) (cgr : CallGraphResult)
    (target : FuncDesc) (hcg : cgr.cg.g = c.g) (htv : cgr.target = .func target.key)
    (fuel : Nat) (s0 : CallSt) (hs : StoreOK c.g s0) (hl : s0.log = []) :
    ∀ ev ∈ (callWith c cgr target fuel s0).2.log, ArgsFlow c.g ev :=
  ReachSound.callWith_args_flow c hg hf hnar cgr target htv fuel s0 hs hl

/- ORIGINAL STATEMENT of `call_args_flow` — FALSE (corrected above).  It had no hypothesis `hnar`, and
`validPath` did not require a path to start at the root:

    theorem call_args_flow (c : Ctx) (hg : EdgeOK c.env c.g) (hf : FuncsOK c) (cgr : CallGraphResult)
        (target : FuncDesc) (hcg : cgr.cg.g = c.g) (htv : cgr.target = .func target.key)
        (fuel : Nat) (s0 : CallSt) (hs : StoreOK c.g s0) (hl : s0.log = []) :
        ∀ ev ∈ (callWith c cgr target fuel s0).2.log, ArgsFlow c.g ev

Why it fails: `CallSt.last` survives from one path to the next, and an arg vertex writes `last` into
its own store (`walkStep`, case `.arg`).  An arg vertex that is the first vertex of its path — or
that directly follows the root (an R8 edge `arg → root`, which `EdgeOK` allows) — therefore takes
the value left over by the *previous* path, which need not flow to it.

Counterexample (evaluated with `#eval` on the model before the correction): graph edges
`func 0 → arg 1 "a"`, `func 0 → arg 1 "b"`, `arg 1 "a" → out 1 "a"`, `out 1 "a" → root` (each an
`EdgeRule` instance); target with typed parameters `(1,"a")`, `(1,"b")`;
`store = [(out 1 "a", ⟨1, 5, out 1 "a"⟩)]`, `last = none`;
`orc = [{ target := func 0, missing := [arg 1 "a", arg 1 "b"],
          paths := [[root, out 1 "a", arg 1 "a"], [arg 1 "b"]] }]`.
The old `validPath` accepted the one-vertex path `[arg 1 "b"]`; the call succeeds and logs
`args = [⟨1,5,out 1 "a"⟩, ⟨1,5,out 1 "a"⟩]` for `params = [(1,"a"), (1,"b")]`: the second argument's
origin `out 1 "a"` does not flow to `arg 1 "b"` (that vertex has no out-edge), and `compatB` between
the labels is `false` as well.

Correction (smallest found): paths are root-first (`validPath` now checks `p.head? = some root`, as
`EdgeToPath` over Dijkstra's predecessor map guarantees) and no typed-argument vertex hangs off the
root (`hnar`; true of every `Call` graph — only Redefine's rule R8 creates such edges).  Then an arg
vertex on a path always follows a value or out vertex, which has just refreshed `last`.
Both parts are needed: with root-first paths alone, adding the R8 edge `arg 1 "b" → root` and the path
`[root, arg 1 "b"]` to the example reproduces the same wrong argument (also checked with `#eval`). -/

/-- the initial state of a call satisfies `StoreOK`: supplied values sit at their own vertices -/
theorem initSt_storeOK (cg : CG) (memo : List (Nat × Memo)) (orc : List OrcItem)
    (hcg : ∀ x v, mapGet cg.store x = some v → x.isOrigin = true) :
    StoreOK cg.g (initSt cg memo orc) :=
  ReachSound.initSt_storeOK cg memo orc hcg

/-- `Flow` in a graph whose edges obey the rules is `RuleFlow` -/
theorem flow_ruleFlow (e : TypeEnv) (g : AGraph Vtx) (hg : EdgeOK e g) (o x : Vtx) (h : Flow g o x) :
    RuleFlow e o x :=
  FlowCompat.flow_ruleFlow hg h

/-- the value store of the graph `callGraph` builds is only written at origin vertices (by
`inputsGraph`, at the value / output vertices of the supplied values) -/
theorem callGraph_store_origin (e : TypeEnv) (b : Builder) (funcs : Nat → Option FuncDesc)
    (target : FuncDesc) (redefining : Bool) (filter : Option Filter) :
    ∀ x v, mapGet (callGraph {} e b funcs target redefining filter).cg.store x = some v →
      x.isOrigin = true :=
  fun x v h => CGE.callGraph_store_isOrigin e b funcs target redefining filter x v h

/-- **C01_injection_sound_partial** — `Call` on the graph built by `callGraph`: for all supplied values,
converter sets, target signatures, behaviours and oracles, every executed function (target or
converter) gets one value per declared parameter, each supplied by the caller or returned by a
converter (its origin is an origin vertex) and label-compatible with the parameter under the
matching table.

`hnar` (no typed-argument vertex hangs off the root) is what `call_args_flow` needs; it holds for
every graph built without Redefine (only rule R8 creates such edges).

Partial with respect to the property's sentence in one hypothesis: `ImplAntisym` (no two distinct
interface types implement each other).  The full-strength statement is false without it — see
`counterexample_twin_interfaces` (finding F14). -/
theorem injection_sound_partial (e : TypeEnv) (ht : ImplTrans e) (ha : ImplAntisym e)
    (b : Builder) (funcs : Nat → Option FuncDesc) (target : FuncDesc)
    (c : Ctx) (henv : c.env = e)
    (hcg : c.g = (callGraph {} e b funcs target false none).cg.g) (hf : FuncsOK c)
    (hnar : ∀ t s, c.g.hasEdge (.arg t s) .root = false)
    (hsup : ∀ x v, mapGet (callGraph {} e b funcs target false none).cg.store x = some v → x.isOrigin = true)
    (fuel : Nat) (memo : List (Nat × Memo)) (orc : List OrcItem) :
    ∀ ev ∈ (callWith c (callGraph {} e b funcs target false none) target fuel
              (initSt (callGraph {} e b funcs target false none).cg memo orc)).2.log,
      ArgsOK e ev := by
  intro ev hev
  have hg : EdgeOK c.env c.g := by
    rw [henv, hcg]; exact callGraph_edges e b funcs target false none
  have hs : StoreOK c.g (initSt (callGraph {} e b funcs target false none).cg memo orc) := by
    rw [hcg]; exact initSt_storeOK _ memo orc hsup
  obtain ⟨hlen, hall⟩ := call_args_flow c hg hf hnar (callGraph {} e b funcs target false none) target
    hcg.symm rfl fuel _ hs rfl ev hev
  refine ⟨hlen, fun i p a hp hai => ?_⟩
  obtain ⟨hor, hfl⟩ := hall i p a hp hai
  refine ⟨hor, ?_⟩
  have := flow_compat e ht ha a.org p.vertex hor (FlowCompat.Label.vertex_isParam p)
    (flow_ruleFlow e c.g (henv ▸ hg) _ _ hfl)
  rwa [FlowCompat.Label.vertex_label] at this

/-- the rule set is *not* closed under composition when two distinct interface types implement each
other: a value labelled subtype `y` flows to a parameter requiring subtype `x` of the same
interface type through its twin (replayed on the real code, finding F14) -/
theorem counterexample_twin_interfaces :
    let e : TypeEnv := { isIface := fun t => t == 10 || t == 13,
                         impl := fun t i => (i == 10 || i == 13) && (t == 10 || t == 13 || t == 4) }
    RuleFlow e (.out 10 "y") (.arg 10 "x") ∧ compatB e (Vtx.arg 10 "x").label (Vtx.out 10 "y").label = false := by
  intro e
  refine ⟨?_, by decide⟩
  refine .step rfl (.argOut 10 "x") ?_
  refine .step rfl (.ifaceOut 10 "x" 13 "" rfl rfl (by decide)) ?_
  refine .step rfl (.ifaceOut 13 "" 10 "y" rfl rfl (by decide)) ?_
  exact .here rfl

end ArgMapper.C01
