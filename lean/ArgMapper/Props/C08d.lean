import ArgMapper.Model.CallGraph
/-!
# Filter combinators (`filter.go`)

`FilterAnd` / `FilterOr` of any nesting evaluate as the boolean formula they spell; the shapes the
harness builds (an `And` of two equal `Or`s, an `Or` of one-element `And`s) admit exactly the types
the flat `Or` admits, and the degenerate combinators are constant.
-/
namespace ArgMapper.C08
open ArgMapper

theorem evalAny_iff (e : TypeEnv) (fs : List Filter) (x : Nat) :
    Filter.evalAny e fs x = true ↔ ∃ f ∈ fs, Filter.eval e f x = true := by
  induction fs with
  | nil => simp [Filter.evalAny]
  | cons f fs ih => simp [Filter.evalAny, ih]

theorem evalAll_iff (e : TypeEnv) (fs : List Filter) (x : Nat) :
    Filter.evalAll e fs x = true ↔ ∀ f ∈ fs, Filter.eval e f x = true := by
  induction fs with
  | nil => simp [Filter.evalAll]
  | cons f fs ih => simp [Filter.evalAll, ih]

/-- `FilterOr()` admits nothing, `FilterAnd()` everything -/
theorem or_nil (e : TypeEnv) (x : Nat) : Filter.eval e (.or []) x = false := by
  simp [Filter.eval, Filter.evalAny]

theorem and_nil (e : TypeEnv) (x : Nat) : Filter.eval e (.and []) x = true := by
  simp [Filter.eval, Filter.evalAll]

/-- `FilterAnd(f)` and `FilterOr(f)` are `f` -/
theorem and_singleton (e : TypeEnv) (f : Filter) (x : Nat) : Filter.eval e (.and [f]) x = Filter.eval e f x := by
  simp [Filter.eval, Filter.evalAll]

theorem or_singleton (e : TypeEnv) (f : Filter) (x : Nat) : Filter.eval e (.or [f]) x = Filter.eval e f x := by
  simp [Filter.eval, Filter.evalAny]

/-- `FilterAnd(FilterOr(fs…), FilterOr(fs…))` admits what `FilterOr(fs…)` admits -/
theorem and_or_or (e : TypeEnv) (fs : List Filter) (x : Nat) :
    Filter.eval e (.and [.or fs, .or fs]) x = Filter.eval e (.or fs) x := by
  simp [Filter.eval, Filter.evalAll]

/-- `FilterOr(FilterAnd(f₁), …, FilterAnd(fₙ))` admits what `FilterOr(f₁, …, fₙ)` admits -/
theorem or_of_singleton_ands (e : TypeEnv) (fs : List Filter) (x : Nat) :
    Filter.eval e (.or (fs.map (fun f => Filter.and [f]))) x = Filter.eval e (.or fs) x := by
  simp only [Filter.eval]
  induction fs with
  | nil => rfl
  | cons f fs ih => simp [Filter.evalAny, Filter.eval, Filter.evalAll, ih]

/-- a type filter admits its own type, and the implementers of an interface type -/
theorem ty_self (e : TypeEnv) (t : Nat) : Filter.eval e (.ty t) t = true := by
  simp [Filter.eval]

end ArgMapper.C08
