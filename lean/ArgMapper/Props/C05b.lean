import ArgMapper.Props.C05
import ArgMapper.Proofs.CompleteAcyclicStatic
/-!
# C05 (continued) — clause (b): acyclic converter sets in which every converter can be satisfied

Property theorem only (helper lemmas in `ArgMapper/Proofs/CompleteAcyclic.lean` — the walk invariants
for converters with any number of inputs, the nested searches by induction on the fuel — and
`ArgMapper/Proofs/CompleteAcyclicStatic.lean` — the shape of the graph).  Subtype-free fragment as in `complete_single`, but converters may take any
number of inputs.  Premise of clause (b), stated on the pruned call graph: it has no cycle, and every
converter that survived pruning has all its own requirement vertices in the graph.  For **every
oracle** (requirement order, root-first real paths), every behaviour and enough fuel the call ends in
success or in the error a function body reported.
-/
namespace ArgMapper.C05
open ArgMapper

/-- the graph is a DAG: some rank strictly decreases along every edge (dependent → requirement) -/
def Acyclic (g : AGraph Vtx) : Prop := ∃ rank : Vtx → Nat, ∀ x y, g.hasEdge x y = true → rank y < rank x

/-- every converter whose vertex survived pruning has all its requirement vertices in the graph
("each of them can itself be satisfied") -/
def AllConvSat (g : AGraph Vtx) (fs : List FuncDesc) : Prop :=
  ∀ f ∈ fs, Vtx.func f.key ∈ g.verts → ∀ v ∈ f.input.values, v.lab.vertex ∈ g.verts

/-- **C05_complete_acyclic (subtype-free)** -/
theorem complete_acyclic (e : TypeEnv) (ht : ImplTrans e)
    (b : Builder) (funcs : Nat → Option FuncDesc) (target : FuncDesc)
    (hc : C01.FuncsConsistent (C01.allFuncs b funcs target))
    (hsf : SubtypeFree b (C01.allFuncs b funcs target))
    (hwf : SetsWF (b.convs.filterMap funcs))
    (htk : TypedKeysOK b)
    (hkey : ∀ f ∈ b.convs.filterMap funcs, f.key ≠ target.key)
    (hsat : (callGraph {} e b funcs target false none).unsat = [])
    (hacyc : Acyclic (callGraph {} e b funcs target false none).cg.g)
    (hall : AllConvSat (callGraph {} e b funcs target false none).cg.g (b.convs.filterMap funcs))
    (beh : Nat → Nat → List PVal → BehOut) (fuel : Nat)
    (hfuel : (C06.funcVerts (callGraph {} e b funcs target false none).cg.g).length + 1 ≤ fuel)
    (memo : List (Nat × Memo)) (orc : List OrcItem) :
    let r := callWith (C01.stdCtx e b funcs target beh) (callGraph {} e b funcs target false none) target fuel
              (initSt (callGraph {} e b funcs target false none).cg memo orc)
    (∃ res, r.1 = .ok res) ∨ (∃ ε, r.1 = .convErr ε) ∨ (∃ ε res, r.1 = .targetErr ε res) ∨ (∃ w, r.1 = .badOracle w) := by
  intro r
  have _ := hkey  -- not needed: nothing distinguishes the target's vertex in the proof
  obtain ⟨rank, hrank⟩ := hacyc
  have H : CompleteAcyclic.HypsA e b funcs target := ⟨hc, hsf.1, hsf.2.1, hsf.2.2, htk, hwf⟩
  rcases CompleteAcyclic.complete_core H ht hsat rank hrank hall beh False (fun h => h.elim) fuel hfuel memo
    (fun h => h.elim) orc with h | ⟨h, _⟩ | ⟨h, _⟩ | h
  · exact Or.inl h
  · exact Or.inr (Or.inl h)
  · exact Or.inr (Or.inr (Or.inl h))
  · exact Or.inr (Or.inr (Or.inr h))

end ArgMapper.C05
