import ArgMapper.Model.Redefine
/-!
# Layer R: `convert.go`

`Convert(T, opts…)` synthesises the identity function `func(T) T` and calls it with the options; the
converted value is that call's single output.  In the model the identity is a `FuncDesc` with one
type-only input and one type-only output of type `T` (for `T = error` Go's rule "a final `error`
result is the error" applies: `newFunc` strips it, exactly as `NewFunc` does), and its body returns
its argument.
-/
namespace ArgMapper

/-- `convertFunc([T])` as `NewFunc` sees it -/
def identitySig (T : Nat) : Except SigErr FuncSig := newFunc [.plain T] [.plain T]

def identityDesc (id key T : Nat) : Option FuncDesc :=
  match identitySig T with
  | .ok sg => some { id := id, key := key, input := sg.input, output := sg.output, hasErr := sg.hasErr, once := false }
  | .error _ => none

/-- the behaviour of every function, with the identity's body fixed: it returns what it was given -/
def withIdentity (idFid : Nat) (beh : Nat → Nat → List PVal → BehOut) : Nat → Nat → List PVal → BehOut :=
  fun fid nth args => if fid = idFid then { outs := args.map (·.id), err := none } else beh fid nth args

inductive ConvertOutcome
  /-- `(value, nil)` -/
  | value (id : Nat)
  /-- `(nil, err)` -/
  | failed (why : Outcome)
deriving Repr, DecidableEq

/-- `Convert`: `Call` on the identity, first output on success, `(nil, err)` otherwise -/
def convert (c : Ctx) (cgr : CallGraphResult) (ident : FuncDesc) (fuel : Nat) (s0 : CallSt) : ConvertOutcome :=
  match (callWith { c with beh := withIdentity ident.id c.beh } cgr ident fuel s0).1 with
  | .ok r => (match r.outs with
      | v :: _ => .value v
      | [] => .failed (.ok r))           -- `out[0]` on an empty result: cannot occur for a non-error `T`
  | o => .failed o

end ArgMapper
