import ArgMapper.Model.Graph
/-!
# Layer G: `internal/graph/dijkstra.go` and `EdgeToPath`

`Graph.Dijkstra` transcribed as a fold over an explicit **pop order**.  The production code takes
the next vertex from `container/heap`; which of several minimal vertices it yields depends on Go's
map iteration order.  Given the pop order the run is determined (relaxations out of one vertex go to
distinct neighbours, so they commute).  `LegalPops` states what a correct priority queue guarantees:
each popped vertex is unvisited and has minimal current distance among the unvisited vertices, and
every vertex is popped exactly once.  Theorems quantify over every legal order — a superset of what
the real heap can do; the queue itself is modelled in `Model/Heap.lean`.

Distances are Go `int32`: start at `MaxInt32`, edge weights are truncated with `int32(weight)`, the
sum wraps.  All three are modelled (`wrap32`) — an *unreachable* vertex that is popped at
`MaxInt32` really does hand wrapped (negative) distances and predecessor pointers to its
neighbours, which is why C18's last clause is phrased in terms of predecessor chains.
-/
namespace ArgMapper

def maxInt32 : Int := 2147483647

/-- two's-complement wrap of an integer into `int32` -/
def wrap32 (x : Int) : Int := (x + 2147483648) % 4294967296 - 2147483648

structure DSt (α : Type) where
  dist    : α → Int
  prev    : α → Option α
  visited : List α

namespace Dijkstra
variable {α : Type} [DecidableEq α]

def init (src : α) : DSt α :=
  { dist := fun v => if v = src then 0 else maxInt32, prev := fun _ => none, visited := [] }

def DSt.set (s : DSt α) (v u : α) (t : Int) : DSt α :=
  { s with dist := fun x => if x = v then t else s.dist x,
           prev := fun x => if x = v then some u else s.prev x }

/-- relax edge `u → v` of weight `w` (strict `<`, as in the Go code) -/
def relax (u : α) (du : Int) (s : DSt α) (e : α × Int) : DSt α :=
  if e.1 ∈ s.visited then s
  else if wrap32 (du + wrap32 e.2) < s.dist e.1 then DSt.set s e.1 u (wrap32 (du + wrap32 e.2))
  else s

/-- one iteration of the main loop: mark `u` visited, relax all its out-edges -/
def pop (g : AGraph α) (s : DSt α) (u : α) : DSt α :=
  (g.outsW u).foldl (relax u (s.dist u)) { s with visited := u :: s.visited }

def run (g : AGraph α) (src : α) (pops : List α) : DSt α := pops.foldl (pop g) (init src)

/-- legality of a pop order, checked step by step (executable) -/
def legalFrom (g : AGraph α) : DSt α → List α → Bool
  | _, [] => true
  | s, u :: rest =>
    decide (u ∈ g.verts) && !decide (u ∈ s.visited) &&
    g.verts.all (fun x => decide (x ∈ s.visited) || decide (s.dist u ≤ s.dist x)) &&
    legalFrom g (pop g s u) rest

/-- every vertex is popped exactly once, each time a current minimum -/
def LegalPops (g : AGraph α) (src : α) (pops : List α) : Prop :=
  legalFrom g (init src) pops = true ∧ pops.Nodup ∧ (∀ v, v ∈ g.verts → v ∈ pops)

/-- `EdgeToPath`: follow predecessors from `target`; `fuel` bounds the walk (the theorem
    `chain_fuel` shows `|pops| + 1` always suffices for a `run`). Result is source-first. -/
def chainAux (prev : α → Option α) : Nat → α → List α → List α
  | 0, _, acc => acc
  | n + 1, v, acc =>
    match prev v with
    | none => v :: acc
    | some u => chainAux prev n u (v :: acc)

def edgeToPath (prev : α → Option α) (fuel : Nat) (target : α) : List α :=
  chainAux prev fuel target []

/-- some legal pop order, chosen deterministically (first minimal unvisited vertex); used by the
    driver in `run` mode and to show `LegalPops` is satisfiable -/
def pickMin (s : DSt α) : List α → Option α
  | [] => none
  | x :: xs =>
    match pickMin s xs with
    | none => some x
    | some y => if s.dist x ≤ s.dist y then some x else some y

def greedyPops (g : AGraph α) : Nat → DSt α → List α
  | 0, _ => []
  | n + 1, s =>
    match pickMin s (g.verts.filter (fun x => !decide (x ∈ s.visited))) with
    | none => []
    | some u => u :: greedyPops g n (pop g s u)

end Dijkstra
end ArgMapper
