import ArgMapper.Model.Graph
/-!
# Layer G: `dfs.go`, `kahn.go`, `tarjan.go`, `path.go:TopoShortestPath`

Go's `range` over a map is modelled by the representation order of `AGraph.edges` / `verts`;
theorems quantify over all graphs, hence over all orders.  Recursion is by fuel; the property
theorems show the fuel used by the wrappers (`|V| + 1`) is never exhausted.
-/
namespace ArgMapper
namespace Traverse
variable {α : Type} [DecidableEq α]

/-! ## DFS with callback-controlled descent -/

/-- what the user callback does with the vertex it is handed: call `next()` and return its
    result, return nil without calling `next`, or return an error -/
inductive DfsAct | descend | skip | abort
deriving DecidableEq, Repr

structure DfsSt (α : Type) where
  visited : List α
  /-- vertices handed to the callback, in order -/
  log     : List α
  aborted : Bool
  outOfFuel : Bool := false

def dfsStep (cb : α → DfsAct) (rec : α → DfsSt α → DfsSt α) (s : DfsSt α) (w : α) : DfsSt α :=
  if s.aborted then s
  else if w ∈ s.visited then s
  else
    match cb w with
    | .descend => rec w { s with log := s.log ++ [w] }
    | .skip => { s with log := s.log ++ [w] }
    | .abort => { s with log := s.log ++ [w], aborted := true }

def dfs (g : AGraph α) (cb : α → DfsAct) : Nat → α → DfsSt α → DfsSt α
  | 0, _, s => { s with outOfFuel := true }
  | n + 1, v, s =>
    (g.outs v).foldl (dfsStep cb (dfs g cb n)) { s with visited := v :: s.visited }

def DFS (g : AGraph α) (cb : α → DfsAct) (start : α) : DfsSt α :=
  dfs g cb (g.verts.length + 1) start { visited := [], log := [], aborted := false }

/-! ## Kahn's algorithm (on a copy; `none` = the `panic("graph has cycles")`) -/

structure KahnSt (α : Type) where
  g : AGraph α
  S : List α

def kahnEdge (x : α) (st : KahnSt α) (m : α) : KahnSt α :=
  if ((st.g.removeEdge x m).ins m).isEmpty
  then { g := st.g.removeEdge x m, S := st.S ++ [m] }
  else { g := st.g.removeEdge x m, S := st.S }

def kahnLoop : Nat → KahnSt α → List α → KahnSt α × List α
  | 0, st, L => (st, L)
  | n + 1, st, L =>
    match st.S.getLast? with
    | none => (st, L)
    | some x =>
      kahnLoop n ((st.g.outs x).foldl (kahnEdge x) { g := st.g, S := st.S.dropLast }) (L ++ [x])

def kahnSort (g : AGraph α) : Option (List α) :=
  match kahnLoop (g.verts.length + 1)
      { g := g, S := g.verts.filter (fun v => (g.ins v).isEmpty) } [] with
  | (st, L) => if st.g.edges.isEmpty then some L else none

/-! ## Tarjan SCC, as written in `tarjan.go` -/

structure SccAcct (α : Type) where
  next  : Nat
  index : List (α × Nat)
  stack : List α
  scc   : List (List α)

def idxOf (a : SccAcct α) (v : α) : Nat :=
  match a.index.find? (fun p => decide (p.1 = v)) with
  | some p => p.2
  | none => 0

/-- pop the stack down to and including `v`; returns the component in pop order -/
def popTo (v : α) : List α → List α → List α × List α
  | [], acc => ([], acc)                       -- `pop` on an empty stack returns nil: cannot occur
  | x :: rest, acc => if x = v then (rest, acc ++ [x]) else popTo v rest (acc ++ [x])

def sccEdge (rec : α → SccAcct α → SccAcct α × Nat) (st : SccAcct α × Nat) (t : α) :
    SccAcct α × Nat :=
  if idxOf st.1 t = 0 then
    match rec t st.1 with
    | (a, r) => (a, Nat.min st.2 r)
  else if t ∈ st.1.stack then (st.1, Nat.min st.2 (idxOf st.1 t))
  else st

/-- the stack is kept top-first -/
def sccVisit (g : AGraph α) : Nat → α → SccAcct α → SccAcct α × Nat
  | 0, _, a => (a, 0)
  | n + 1, v, a =>
    match (g.outs v).foldl (sccEdge (sccVisit g n))
        ({ a with next := a.next + 1, index := (v, a.next) :: a.index, stack := v :: a.stack },
         a.next) with
    | (a', minIdx) =>
      if a.next = minIdx then
        match popTo v a'.stack [] with
        | (stack', comp) => ({ a' with stack := stack', scc := a'.scc ++ [comp] }, minIdx)
      else (a', minIdx)

def sccTop (g : AGraph α) (a : SccAcct α) (v : α) : SccAcct α :=
  if idxOf a v = 0 then (sccVisit g (g.verts.length + 1) v a).1 else a

def stronglyConnected (g : AGraph α) : List (List α) :=
  (g.verts.foldl (sccTop g) { next := 1, index := [], stack := [], scc := [] }).scc

/-! ## TopoShortestPath -/

structure TopoSt (α : Type) where
  dist : List (α × Int)
  prev : List (α × α)

def lookupD (m : List (α × Int)) (v : α) : Option Int :=
  (m.find? (fun p => decide (p.1 = v))).map (·.2)

def setD {β : Type} (m : List (α × β)) (v : α) (x : β) : List (α × β) :=
  m.filter (fun p => !decide (p.1 = v)) ++ [(v, x)]

/-- `distTo[uh]` of a missing key is Go's zero value 0 -/
def topoRelax (u : α) (s : TopoSt α) (e : α × Int) : TopoSt α :=
  match lookupD s.dist e.1 with
  | none => { dist := setD s.dist e.1 ((lookupD s.dist u).getD 0 + e.2), prev := setD s.prev e.1 u }
  | some dv =>
    if dv > (lookupD s.dist u).getD 0 + e.2
    then { dist := setD s.dist e.1 ((lookupD s.dist u).getD 0 + e.2), prev := setD s.prev e.1 u }
    else s

def topoShortestPath (g : AGraph α) (L : List α) : TopoSt α :=
  L.foldl (fun s u => (g.outsW u).foldl (topoRelax u) s) { dist := [], prev := [] }

/-! ## Executable checkers (their soundness/completeness is proved in `Props/C20.lean`) -/

def indexOf? (L : List α) (v : α) : Option Nat :=
  match L.findIdx? (fun x => decide (x = v)) with
  | some i => some i
  | none => none

/-- `L` lists every vertex exactly once and every edge points forward -/
def isTopoOrder (g : AGraph α) (L : List α) : Bool :=
  decide (L.Nodup) && g.verts.all (fun v => decide (v ∈ L)) && L.all (fun v => decide (v ∈ g.verts)) &&
  g.edges.all (fun e =>
    match indexOf? L e.1, indexOf? L e.2.1 with
    | some i, some j => decide (i < j)
    | _, _ => false)

/-- reachability closure by fuel-bounded search: `reachSet g fuel frontier seen` -/
def reachSet (g : AGraph α) : Nat → List α → List α → List α
  | 0, _, seen => seen
  | n + 1, frontier, seen =>
    match (frontier.flatMap (g.outs ·)).filter (fun x => !decide (x ∈ seen)) with
    | [] => seen
    | new => reachSet g n new.eraseDups (seen ++ new.eraseDups)

def reachB (g : AGraph α) (u v : α) : Bool :=
  decide (v ∈ reachSet g (g.verts.length + 1) [u] [u])

/-- `comps` is a partition of the vertices into mutual-reachability classes -/
def isSccPartition (g : AGraph α) (comps : List (List α)) : Bool :=
  decide (comps.flatten.Nodup) && g.verts.all (fun v => decide (v ∈ comps.flatten)) &&
  comps.flatten.all (fun v => decide (v ∈ g.verts)) && comps.all (fun c => !c.isEmpty) &&
  comps.all (fun c => c.all (fun u => g.verts.all (fun v =>
    decide (v ∈ c) == (reachB g u v && reachB g v u))))

end Traverse
end ArgMapper
