import ArgMapper.Model.Sig
/-!
# Layer B: options (`args.go`)

Options are closures applied in order to four maps; later writes overwrite earlier ones.  Values are
abstracted to `Val = (dynamic type id, provenance id)`; a nil `interface{}` is `none`.
-/
namespace ArgMapper

structure Val where
  ty : Nat
  id : Nat
deriving Repr, DecidableEq, Inhabited

inductive Opt
  | named (n : String) (v : Option Val)
  | namedSub (n : String) (v : Option Val) (st : String)
  | typed (vs : List (Option Val))
  | typedSub (v : Option Val) (st : String)
  /-- `ConverterFunc(fs…)`: already built functions, nil entries ignored -/
  | convFunc (fs : List (Option Nat))
  /-- `Converter(fs…)` on raw values: `some fid` is accepted by `NewFunc`, `none` is rejected -/
  | conv (fs : List (Option Nat))
  | gen (k : Nat)
  | filterIn (k : Nat)
  | filterOut (k : Nat)
  | funcOnce
  | other                      -- Logger, FuncName: no effect on resolution
  | nilOpt
deriving Repr, DecidableEq

structure Builder where
  named    : List (String × Val)
  namedSub : List ((String × String) × Val)
  typed    : List (Nat × Val)
  typedSub : List ((Nat × String) × Val)
  convs    : List Nat
  gens     : List Nat
  filterIn : Option Nat
  filterOut : Option Nat
  once     : Bool
  /-- accumulated non-fatal option errors (a rejected `Converter` argument) -/
  errs     : Nat
deriving Repr, DecidableEq

def Builder.empty : Builder :=
  { named := [], namedSub := [], typed := [], typedSub := [], convs := [], gens := [],
    filterIn := none, filterOut := none, once := false, errs := 0 }

def setTyped (b : Builder) (v : Option Val) : Builder :=
  match v with
  | none => b
  | some x => { b with typed := mapSet b.typed x.ty x }

def setTypedSub (b : Builder) (v : Option Val) (st : String) : Builder :=
  if st = "" then setTyped b v
  else match v with
    | none => b
    | some x => { b with typedSub := mapSet b.typedSub (x.ty, st) x }

def setNamed (b : Builder) (n : String) (v : Option Val) : Builder :=
  if n = "" then setTyped b v
  else match v with
    | none => b
    | some x => { b with named := mapSet b.named (lower n) x }

def setNamedSub (b : Builder) (n : String) (v : Option Val) (st : String) : Builder :=
  if n = "" then setTypedSub b v st
  else if st = "" then setNamed b n v
  else match v with
    | none => b
    | some x => { b with namedSub := mapSet b.namedSub (lower n, st) x }

/-- `Converter(fs…)` stops at the first rejected function and reports the error -/
def addConvs (b : Builder) : List (Option Nat) → Builder
  | [] => b
  | none :: _ => { b with errs := b.errs + 1 }
  | some f :: rest => addConvs { b with convs := b.convs ++ [f] } rest

/-- one option applied (`nilOpt` is handled by `build`) -/
def applyOpt (b : Builder) : Opt → Builder
  | .named n v => setNamed b n v
  | .namedSub n v st => setNamedSub b n v st
  | .typed vs => vs.foldl setTyped b
  | .typedSub v st => setTypedSub b v st
  | .convFunc fs => { b with convs := b.convs ++ fs.filterMap id }
  | .conv fs => addConvs b fs
  | .gen k => { b with gens := b.gens ++ [k] }
  | .filterIn k => { b with filterIn := some k }
  | .filterOut k => { b with filterOut := some k }
  | .funcOnce => { b with once := true }
  | .other => b
  | .nilOpt => b

inductive BuildOutcome
  | ok (b : Builder)
  /-- `errors.New("arg cannot be nil")`: no builder at all -/
  | nilArg
  /-- some option returned an error: builder returned together with the error -/
  | optErr (b : Builder)
deriving Repr, DecidableEq

def buildFrom (b : Builder) : List Opt → BuildOutcome
  | [] => if b.errs = 0 then .ok b else .optErr b
  | .nilOpt :: _ => .nilArg
  | o :: rest => buildFrom (applyOpt b o) rest

/-- `newArgBuilder(opts…)` -/
def build (opts : List Opt) : BuildOutcome := buildFrom Builder.empty opts

/-- `(*Value).Arg()`: a named value becomes `NamedSubtype(name, v, subtype)`, a type-only one
`TypedSubtype(v, subtype)` (the kind is decided by the name alone). -/
def valueArg (name sub : String) (v : Val) : Opt :=
  if name ≠ "" then .namedSub name (some v) sub else .typedSub (some v) sub

/-- `(*ValueSet).Args()`: one `Arg()` per value, in declaration order. -/
def valueSetArgs (vals : List ((String × String) × Val)) : List Opt :=
  vals.map (fun p => valueArg p.1.1 p.1.2 p.2)

/-- `Func.argBuilder`: defaults stored on the `Func` are prepended -/
def buildFor (defaults opts : List Opt) : BuildOutcome := build (defaults ++ opts)

end ArgMapper
