import ArgMapper.Model.Sig
/-!
# `error.go`: the text of the unsatisfied-argument error

`ErrArgumentUnsatisfied.Error()` renders four lists into a fixed template.  The model produces the
message as its list of lines (the message is these lines joined by `"\n"`); type names and function
names are data of the run (`reflect.Type.String()`, `Func.Name()`), so they are parameters.

Names are rendered with `%q`; for the names this model is run on (letters, digits, `_`) that is the
name between double quotes.
-/
namespace ArgMapper

/-- `Value.String()` -/
def renderValue (tyName : Nat → String) (l : Label) : String :=
  if l.name ≠ "" then
    (if l.sub = "" then s!"name: \"{l.name}\" (type: {tyName l.ty})"
     else s!"name: \"{l.name}\" (type: {tyName l.ty}, subtype: {l.sub})")
  else
    (if l.sub = "" then s!"type: {tyName l.ty}"
     else s!"type: {tyName l.ty} (subtype: {l.sub})")

/-- a converter as the message shows it: its name, its input values, its output values -/
structure ConvShown where
  name : String
  ins  : List Label
  outs : List Label

/-- the lines a `%s` of the template expands to: the buffer's lines, or one empty line for an empty buffer -/
def sectionLines (ls : List String) : List String := if ls.isEmpty then [""] else ls

def missingLines (tyName : Nat → String) (args : List Label) : List String :=
  args.map (fun a => "    - " ++ renderValue tyName a)

def fullArgLines (tyName : Nat → String) (params : List Label) : List String :=
  params.map (fun a => "    - " ++ renderValue tyName a)

def inputLines (tyName : Nat → String) (inputs : List Label) : List String :=
  (if inputs.isEmpty then ["    No inputs!"] else []) ++ inputs.map (fun a => "    - " ++ renderValue tyName a)

def convLines (tyName : Nat → String) (convs : List ConvShown) : List String :=
  (if convs.isEmpty then ["    No converter functions."] else []) ++
  convs.flatMap (fun c => ["    - " ++ c.name] ++ c.ins.map (fun a => "        > " ++ renderValue tyName a)
    ++ c.outs.map (fun a => "        < " ++ renderValue tyName a))

/-- `(*ErrArgumentUnsatisfied).Error()`, line by line -/
def unsatMessageLines (tyName : Nat → String) (funcName : String) (params args inputs : List Label)
    (convs : List ConvShown) : List String :=
  ["",
   s!"Argument to function \"{funcName}\" could not be satisfied!",
   "",
   "This means that one (or more) of the arguments to a function do not",
   "have values that could be populated. A complete error description is below",
   "for debugging.",
   "",
   "==> Unsatisfiable arguments",
   "    This is a list of the arguments that a value could not be found.",
   ""] ++
  sectionLines (missingLines tyName args) ++
  ["",
   "==> Full list of desired function arguments",
   "    This is a list of the arguments the function expected. Some arguments",
   "    are named and some are unnamed. Unnamed arguments are matched by type.",
   ""] ++
  sectionLines (fullArgLines tyName params) ++
  ["",
   "==> Full list of direct inputs",
   "    This is a list of the direct inputs that were available. None of these",
   "    matched the unsatisfied arguments. Note that inputs are also possible",
   "    through mappers, listed after this section.",
   ""] ++
  sectionLines (inputLines tyName inputs) ++
  ["",
   "==> Full list of available converters",
   "    This is the list of functions that can be used to convert direct",
   "    inputs (possibly being called in a chain) into a desired function",
   "    argument. Arguments prefixed with \">\" are inputs and arguments prefixed",
   "    with \"<\" are outputs.",
   ""] ++
  sectionLines (convLines tyName convs) ++
  [""]

/-- the message -/
def unsatMessage (tyName : Nat → String) (funcName : String) (params args inputs : List Label)
    (convs : List ConvShown) : String :=
  "\n".intercalate (unsatMessageLines tyName funcName params args inputs convs)

end ArgMapper
