import ArgMapper.Model.Graph
import ArgMapper.Model.Traverse
import ArgMapper.Model.Sig
import ArgMapper.Model.Args
import ArgMapper.Generated.Consts
/-!
# Layer CG: the call graph (`call.go:callGraph`, `func.go:graph`, `args.go:graph`)

Edges point from a *dependent* to its *requirement*.  The phases below are in the order of the Go
code, so vertices created by one phase are seen by the next; every loop `for _, raw := range
g.Vertices()` iterates a snapshot taken when the loop starts.

Vertex payloads (the mutable `Value` fields) live in a separate store keyed by vertex.
-/
namespace ArgMapper

inductive Vtx
  | root
  | value (name : String) (ty : Nat) (sub : String)
  | arg (ty : Nat) (sub : String)
  | out (ty : Nat) (sub : String)
  /-- one vertex per Go function *type*; `key` is the id of the first function registered with it -/
  | func (key : Nat)
deriving DecidableEq, Repr, Inhabited

structure TypeEnv where
  isIface : Nat → Bool
  /-- `impl t i`: type `t` implements interface type `i` (`reflect.Type.Implements`) -/
  impl : Nat → Nat → Bool

/-- `reflect.Type.AssignableTo` on the type universe of the model -/
def TypeEnv.assignable (e : TypeEnv) (src dst : Nat) : Bool :=
  src == dst || (e.isIface dst && e.impl src dst)

structure FuncDesc where
  /-- index of this function object in the scenario -/
  id     : Nat
  /-- canonical id of its Go function type (vertex identity) -/
  key    : Nat
  input  : ValueSet
  output : ValueSet
  hasErr : Bool
  once   : Bool
deriving Repr

/-- input filter of `Redefine` (`FilterType`, `FilterOr`, `FilterAnd`) -/
inductive Filter
  | ty (t : Nat)
  | or (fs : List Filter)
  | and (fs : List Filter)
deriving Repr

mutual
def Filter.eval (e : TypeEnv) : Filter → Nat → Bool
  | .ty t, x => x == t || (e.isIface t && e.impl x t)
  | .or fs, x => Filter.evalAny e fs x
  | .and fs, x => Filter.evalAll e fs x
def Filter.evalAny (e : TypeEnv) : List Filter → Nat → Bool
  | [], _ => false
  | f :: fs, x => Filter.eval e f x || Filter.evalAny e fs x
def Filter.evalAll (e : TypeEnv) : List Filter → Nat → Bool
  | [], _ => true
  | f :: fs, x => Filter.eval e f x && Filter.evalAll e fs x
end

structure CG where
  g     : AGraph Vtx
  /-- valid `Value` fields -/
  store : List (Vtx × Val)

instance : Inhabited CG := ⟨{ g := AGraph.empty, store := [] }⟩

namespace CG

def empty : CG := { g := AGraph.empty, store := [] }

def add (c : CG) (v : Vtx) : CG := { c with g := c.g.add v }
def edge (c : CG) (u v : Vtx) (w : Int) : CG := { c with g := c.g.addEdge u v w }
/-- `AddOverwrite` of a vertex object carrying a value -/
def addValued (c : CG) (v : Vtx) (x : Val) : CG :=
  { g := c.g.add v, store := mapSet c.store v x }
def valueOf (c : CG) (v : Vtx) : Option Val := mapGet c.store v

end CG

def Vtx.isValue : Vtx → Bool | .value .. => true | _ => false
def Vtx.isArg : Vtx → Bool | .arg .. => true | _ => false
def Vtx.isOut : Vtx → Bool | .out .. => true | _ => false
def Vtx.isFunc : Vtx → Bool | .func .. => true | _ => false

def Vtx.ty : Vtx → Nat
  | .value _ t _ => t | .arg t _ => t | .out t _ => t | _ => 0
def Vtx.sub : Vtx → String
  | .value _ _ s => s | .arg _ s => s | .out _ s => s | _ => ""
def Vtx.name : Vtx → String
  | .value n _ _ => n | _ => ""

/-- `Value.vertex()` -/
def Label.vertex (l : Label) : Vtx :=
  if l.name ≠ "" then .value l.name l.ty l.sub else .arg l.ty l.sub

/-- `valueConverter.value()` as a label -/
def Vtx.label : Vtx → Label
  | .value n t s => { name := n, ty := t, sub := s }
  | .arg t s => { name := "", ty := t, sub := s }
  | .out t s => { name := "", ty := t, sub := s }
  | _ => { name := "", ty := 0, sub := "" }

open Generated

/-- `Func.graph`: the function vertex, its requirement edges and (for converters) its outputs -/
def funcGraph (c : CG) (f : FuncDesc) (includeOutput : Bool) : CG :=
  let v := Vtx.func f.key
  let c := c.add v
  let c := if f.input.empty then c.edge v .root weightNormal else c
  let c := f.input.values.foldl (fun c val =>
    if val.lab.name ≠ "" then
      (c.add (.value val.lab.name val.lab.ty val.lab.sub)).edge v (.value val.lab.name val.lab.ty val.lab.sub) weightNormal
    else
      (c.add (.arg val.lab.ty val.lab.sub)).edge v (.arg val.lab.ty val.lab.sub) weightTyped) c
  if !includeOutput then c
  else
    let c := f.output.named.foldl (fun c p =>
      (c.add (.value p.1 p.2.lab.ty p.2.lab.sub)).edge (.value p.1 p.2.lab.ty p.2.lab.sub) v weightNormal) c
    f.output.typed.foldl (fun c p =>
      (c.add (.out p.2.lab.ty p.2.lab.sub)).edge (.out p.2.lab.ty p.2.lab.sub) v weightTyped) c

/-- `argBuilder.graph`: supplied values hang off the root (R1), then the converters (R0, R2) -/
def inputsGraph (c : CG) (b : Builder) : CG × List Vtx :=
  let step := fun (acc : CG × List Vtx) (v : Vtx) (x : Val) =>
    (((acc.1.addValued v x).edge v .root weightNormal), acc.2 ++ [v])
  let acc := b.named.foldl (fun acc p => step acc (.value p.1 p.2.ty "") p.2) (c, [])
  let acc := b.namedSub.foldl (fun acc p => step acc (.value p.1.1 p.2.ty p.1.2) p.2) acc
  let acc := b.typed.foldl (fun acc p => step acc (.out p.1 "") p.2) acc
  b.typedSub.foldl (fun acc p => step acc (.out p.1.1 p.1.2) p.2) acc

/-- R3: every value vertex feeds the type-only output of its type and can satisfy the type-only
arguments of its type (and of its type + subtype) -/
def phaseR3 (c : CG) : CG :=
  (c.g.verts.filter Vtx.isValue).foldl (fun c v =>
    let c := (c.add (.out v.ty "")).edge v (.out v.ty "") weightTyped
    let c := (c.add (.arg v.ty "")).edge (.arg v.ty "") v weightTyped
    if v.sub ≠ "" then (c.add (.arg v.ty v.sub)).edge (.arg v.ty v.sub) v weightTyped else c) c

/-- R4: a typed argument can depend on the typed output of the same type and subtype -/
def phaseR4 (c : CG) : CG :=
  (c.g.verts.filter Vtx.isArg).foldl (fun c v =>
    (c.add (.out v.ty v.sub)).edge v (.out v.ty v.sub) weightTyped) c

/-- R5: an interface-typed output can be satisfied by outputs of implementing types.
`skipSame` is the repaired rule (finding F6): an interface type does not relate to *itself*
across subtypes. -/
def phaseR5 (e : TypeEnv) (skipSame : Bool) (c : CG) : CG :=
  (c.g.verts.filter (fun v => v.isOut && e.isIface v.ty)).foldl (fun c v =>
    (c.g.verts.filter (fun v2 => v2.isOut && decide (v2 ≠ v) && e.impl v2.ty v.ty &&
        !(skipSame && v2.ty == v.ty))).foldl (fun c v2 => c.edge v v2 weightTyped) c) c

/-- R6: a named value without subtype and without value can take a same-typed named value that
has a subtype.  `nameTest` is the repaired rule (finding F5): only from the *same name*. -/
def phaseR6 (nameTest : Bool) (c : CG) : CG :=
  (c.g.verts.filter (fun v => v.isValue && v.sub == "" && (c.valueOf v).isNone)).foldl (fun c v =>
    (c.g.verts.filter (fun v2 => v2.isValue && v2.ty == v.ty && v2.sub != "" &&
        !(nameTest && v2.name != v.name))).foldl (fun c v2 => c.edge v v2 weightTyped) c) c

/-- R7: across "no subtype" / "some subtype" at a high cost, in both directions -/
def phaseR7 (c : CG) : CG :=
  let c := (c.g.verts.filter (fun v => v.isArg && v.sub == "")).foldl (fun c v =>
    (c.g.verts.filter (fun v2 => v2.isOut && v2.ty == v.ty && v2.sub != "")).foldl
      (fun c v2 => c.edge v v2 weightTypedOtherSubtype) c) c
  (c.g.verts.filter (fun v => v.isArg && v.sub != "")).foldl (fun c v =>
    (c.g.verts.filter (fun v2 => v2.isOut && v2.ty == v.ty && v2.sub == "")).foldl
      (fun c v2 => c.edge v v2 weightTypedOtherSubtype) c) c

/-- R8 (Redefine only): every value / typed argument that passes the input filter is a potential
input.  `skipSupplied` is the repaired rule (finding F9b): a typed argument whose type and subtype
were supplied as a typed value is not a candidate. -/
def phaseR8 (e : TypeEnv) (filter : Option Filter) (skipSupplied : Bool) (c : CG) : CG :=
  (c.g.verts.filter (fun v => v.isValue || v.isArg)).foldl (fun c v =>
    if skipSupplied && v.isArg && (c.valueOf (.out v.ty v.sub)).isSome then c
    else match filter with
      | some f => if f.eval e v.ty then c.edge v .root weightNormal else c
      | none => c.edge v .root weightNormal) c

/-- pruning: reverse DFS from the root that does not descend below the target; everything not
seen is removed -/
def prune (c : CG) (target : Vtx) : CG :=
  let seen := Traverse.DFS c.g.reverse (fun v => if v = target then .skip else .descend) .root
  let keep := Vtx.root :: seen.log
  (c.g.verts.filter (fun v => !decide (v ∈ keep))).foldl (fun c v => { c with g := c.g.remove v }) c

/-- model variant switches (each `true` is the behaviour after the corresponding repair) -/
structure Variant where
  r5SkipSame    : Bool := true
  r6NameTest    : Bool := true
  r8SkipSupplied : Bool := true
deriving Repr, DecidableEq

structure CallGraphResult where
  cg        : CG
  target    : Vtx
  /-- `vertexFreq`: the target's requirement vertices as first built -/
  reqs      : List Vtx
  inputs    : List Vtx
  unsat     : List Label

/-- `Func.callGraph` -/
def callGraph (var : Variant) (e : TypeEnv) (b : Builder) (funcs : Nat → Option FuncDesc)
    (target : FuncDesc) (redefining : Bool) (filter : Option Filter) : CallGraphResult :=
  let c := CG.empty.add .root
  let c := funcGraph c target false
  let tv := Vtx.func target.key
  let reqs := c.g.outs tv
  let ci := inputsGraph c b
  let inputs := ci.2
  let c := ci.1
  let c := b.convs.foldl (fun c fid => match funcs fid with
    | some f => funcGraph c f true
    | none => c) c
  let c := phaseR3 c
  let c := phaseR4 c
  let c := phaseR5 e var.r5SkipSame c
  let c := phaseR6 var.r6NameTest c
  let c := phaseR7 c
  let c := if redefining then phaseR8 e filter var.r8SkipSupplied c else c
  let c := prune c tv
  { cg := c, target := tv, reqs := reqs, inputs := inputs,
    unsat := (reqs.filter (fun r => !c.g.hasVertex r)).map Vtx.label }

end ArgMapper
