import ArgMapper.Model.Sig
/-!
# Layer V: `result.go`

A `reflect.Value` returned by a function is abstracted to its *static* type id (the declared result
type — what `Value.Type()` reports for the elements of `reflect.Value.Call`'s result) and a
provenance id, `none` standing for a nil interface / zero value.
-/
namespace ArgMapper

structure RVal where
  ty : Nat
  id : Option Nat
deriving Repr, DecidableEq, Inhabited

structure Result where
  out      : List RVal
  buildErr : Option Nat
deriving Repr, DecidableEq

def resultError (e : Nat) : Result := { out := [], buildErr := some e }

/-- `Result.Err` -/
def Result.err (r : Result) : Option Nat :=
  match r.buildErr with
  | some e => some e
  | none =>
    match r.out.getLast? with
    | some final => if final.ty = errorTy then final.id else none
    | none => none

def Result.hasError (r : Result) : Bool :=
  match r.out.getLast? with
  | some final => final.ty == errorTy
  | none => false

/-- `Result.Len` -/
def Result.len (r : Result) : Nat := if r.hasError then r.out.length - 1 else r.out.length

/-- `Result.Out(i)` (`none` = index out of range panic) -/
def Result.outAt (r : Result) (i : Nat) : Option RVal := r.out[i]?

end ArgMapper
