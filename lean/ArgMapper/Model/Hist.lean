import ArgMapper.Model.Redefine
/-!
# Histories: `Call` and `Redefine` on shared function objects

What survives an operation on the real `Func` objects is the state of the run-once cells (`memo`)
and, for the bookkeeping of scripted behaviours, how often each body ran (`count`).  A `Call`
threads both through `callWith`; a `Redefine` plans on copies and hands back *nothing*.
The driver's replay of `hist` blocks (and of every single call) goes through `histCall` and
`histRedefine`, so the theorems of `Props/C09b.lean` are about the code that is executed.
-/
namespace ArgMapper

/-- what the function objects carry from one operation to the next -/
structure HistState where
  memo  : List (Nat × Memo) := []
  count : List (Nat × Nat) := []
deriving Repr

/-- the call state an operation starts from -/
def HistState.start (h : HistState) (cg : CG) (orc : List OrcItem) : CallSt :=
  { initSt cg h.memo orc with count := h.count }

/-- what is left on the function objects after a call that ended in `s` -/
def HistState.after (s : CallSt) : HistState := { memo := s.memo, count := s.count }

/-- `target.Call(opts…)` on function objects in state `h` -/
def histCall (c : Ctx) (cgr : CallGraphResult) (target : FuncDesc) (fuel : Nat) (h : HistState)
    (orc : List OrcItem) : Outcome × CallSt :=
  callWith c cgr target fuel (h.start cgr.cg orc)

/-- `target.Redefine(opts…)` on function objects in state `h`: the planning run sees the memo cells,
stores into copies, and returns an outcome only -/
def histRedefine (c : Ctx) (cgr : CallGraphResult) (target : FuncDesc) (filterOut : Option Filter) (fuel : Nat)
    (h : HistState) (orc : List OrcItem) (dupIsError : Bool := true) : RedefOutcome :=
  redefine c cgr target filterOut fuel (h.start cgr.cg orc) dupIsError

/-- one operation of a history; each carries the graph the library builds for its options and the
oracle (Dijkstra choices) of that operation -/
inductive HistOp
  | call (c : Ctx) (cgr : CallGraphResult) (target : FuncDesc) (orc : List OrcItem)
  | redefine (c : Ctx) (cgr : CallGraphResult) (target : FuncDesc) (filterOut : Option Filter) (orc : List OrcItem)

def HistOp.isCall : HistOp → Bool
  | .call .. => true
  | .redefine .. => false

/-- what an operation shows to its caller -/
inductive HistObs
  | call (o : Outcome) (log : List ExecEv)
  | redef (o : RedefOutcome)

def HistObs.isCall : HistObs → Bool
  | .call .. => true
  | .redef .. => false

def histStep (fuel : Nat) (h : HistState) : HistOp → HistState × HistObs
  | .call c cgr t orc =>
    let r := histCall c cgr t fuel h orc
    (HistState.after r.2, .call r.1 r.2.log)
  | .redefine c cgr t fo orc => (h, .redef (histRedefine c cgr t fo fuel h orc))

/-- a whole history: final state and everything observed, in order -/
def runHist (fuel : Nat) : HistState → List HistOp → HistState × List HistObs
  | h, [] => (h, [])
  | h, op :: rest =>
    let (h1, o) := histStep fuel h op
    let (h2, os) := runHist fuel h1 rest
    (h2, o :: os)

end ArgMapper
