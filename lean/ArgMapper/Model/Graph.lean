/-!
# Layer G (abstract): the plain adjacency model

`AGraph α` is the *specification-level* graph used by every resolver layer: a list of vertices and
a list of weighted edges.  The list order of `verts`/`edges` stands for Go's map iteration order:
every theorem about a traversal quantifies over all `AGraph`s, i.e. over all orders.

The concrete model of `internal/graph/graph.go` (two adjacency maps + hash map, with aliasing
between a graph and its reversed view) is `Model/GraphImpl.lean`; `Props/C19.lean` proves that it
refines this one.
-/
namespace ArgMapper

structure AGraph (α : Type) where
  verts : List α
  edges : List (α × α × Int)
deriving Repr

namespace AGraph
variable {α : Type} [DecidableEq α]

def empty : AGraph α := ⟨[], []⟩

def hasVertex (g : AGraph α) (v : α) : Bool := decide (v ∈ g.verts)

/-- `Graph.Add` / `Graph.AddOverwrite` at the level of structure (payload lives elsewhere). -/
def add (g : AGraph α) (v : α) : AGraph α :=
  if v ∈ g.verts then g else { g with verts := g.verts ++ [v] }

def isEdge (u v : α) (e : α × α × Int) : Bool := decide (e.1 = u) && decide (e.2.1 = v)

/-- weight of edge `u → v`, if present -/
def weight (g : AGraph α) (u v : α) : Option Int :=
  (g.edges.find? (isEdge u v)).map (·.2.2)

def hasEdge (g : AGraph α) (u v : α) : Bool := (g.weight u v).isSome

/-- `AddEdgeWeighted` (both endpoints present): last weight wins. -/
def addEdge (g : AGraph α) (u v : α) (w : Int) : AGraph α :=
  { g with edges := g.edges.filter (fun e => !isEdge u v e) ++ [(u, v, w)] }

def removeEdge (g : AGraph α) (u v : α) : AGraph α :=
  { g with edges := g.edges.filter (fun e => !isEdge u v e) }

/-- `Remove`: the vertex and every incident edge. -/
def remove (g : AGraph α) (v : α) : AGraph α :=
  { verts := g.verts.filter (fun x => decide (x ≠ v)),
    edges := g.edges.filter (fun e => decide (e.1 ≠ v) && decide (e.2.1 ≠ v)) }

/-- out-edges of `u` with weights, in representation order -/
def outsW (g : AGraph α) (u : α) : List (α × Int) :=
  (g.edges.filter (fun e => decide (e.1 = u))).map (fun e => (e.2.1, e.2.2))

def outs (g : AGraph α) (u : α) : List α := (g.outsW u).map (·.1)

def insW (g : AGraph α) (v : α) : List (α × Int) :=
  (g.edges.filter (fun e => decide (e.2.1 = v))).map (fun e => (e.1, e.2.2))

def ins (g : AGraph α) (v : α) : List α := (g.insW v).map (·.1)

/-- `Reverse` -/
def reverse (g : AGraph α) : AGraph α :=
  { g with edges := g.edges.map (fun e => (e.2.1, e.1, e.2.2)) }

/-- representation invariant: no duplicate vertices, at most one edge per ordered pair, edges
    only between present vertices -/
def WF (g : AGraph α) : Prop :=
  g.verts.Nodup ∧
  (g.edges.map (fun e => (e.1, e.2.1))).Nodup ∧
  ∀ e ∈ g.edges, e.1 ∈ g.verts ∧ e.2.1 ∈ g.verts

/-- extensional equality: same vertex set, same weight function -/
def Equiv (g h : AGraph α) : Prop :=
  (∀ v, v ∈ g.verts ↔ v ∈ h.verts) ∧ ∀ u v, g.weight u v = h.weight u v

/-- a path is a list of vertices joined by existing edges -/
def IsPath (g : AGraph α) : List α → Prop
  | [] => True
  | [_] => True
  | u :: v :: rest => g.hasEdge u v = true ∧ IsPath g (v :: rest)

/-- executable `IsPath` -/
def isPathB (g : AGraph α) : List α → Bool
  | [] => true
  | [_] => true
  | u :: v :: rest => g.hasEdge u v && isPathB g (v :: rest)

/-- weight of a path (0 for missing edges; only used under `IsPath`) -/
def pathWeight (g : AGraph α) : List α → Int
  | [] => 0
  | [_] => 0
  | u :: v :: rest => (g.weight u v).getD 0 + pathWeight g (v :: rest)

/-- reachability by edges -/
inductive Reach (g : AGraph α) : α → α → Prop
  | refl (v) : Reach g v v
  | step {u v w} : Reach g u v → g.hasEdge v w = true → Reach g u w

end AGraph
end ArgMapper
