/-!
# Layer V: signatures and value sets (`value_set.go`, `struct.go`, `func.go:NewFunc`)

`reflect.Type` is abstracted to a type id (`Nat`) plus, for marker-struct parameters, the list of
struct fields.  `strings.ToLower` is ASCII lower-casing (`lower`); theorems use only
`lower (lower s) = lower s`.
-/
namespace ArgMapper

/-- ASCII lower-casing, the model of `strings.ToLower` on the names the properties quantify over -/
def lower (s : String) : String := s.map Char.toLower
def upper (s : String) : String := s.map Char.toUpper

/-- a struct field as `reflect.StructField` shows it -/
structure Field where
  name     : String
  /-- value of the `argmapper:"…"` tag key, `""` when absent -/
  tag      : String
  ty       : Nat
  exported : Bool := true
  /-- anonymous field of type `argmapper.Struct` -/
  marker   : Bool := false
deriving Repr, DecidableEq

/-- a parameter or result type: an ordinary type, or `depth` pointers around a struct -/
inductive Param
  | plain (ty : Nat)
  /-- `ty` is the id of the whole (pointer-to-)struct type, used when it is *not* a marker struct -/
  | struct (ty : Nat) (depth : Nat) (fields : List Field)
deriving Repr

/-- `Value` (without the `reflect.Value`) -/
structure Label where
  name : String
  ty   : Nat
  sub  : String
deriving Repr, DecidableEq, Inhabited

structure SVal where
  lab   : Label
  index : Nat
deriving Repr, DecidableEq, Inhabited

structure ValueSet where
  /-- `structType != nil` -/
  hasStruct : Bool
  ptrs      : Nat
  values    : List SVal
  /-- `namedValues` / `typedValues`: Go maps, assignment order = field order, last wins -/
  named     : List (String × SVal)
  typed     : List (Nat × SVal)
  lifted    : Bool
deriving Repr, DecidableEq

def ValueSet.nil : ValueSet :=
  { hasStruct := false, ptrs := 0, values := [], named := [], typed := [], lifted := false }

/-- Go map assignment on an association list -/
def mapSet {κ β : Type} [DecidableEq κ] (m : List (κ × β)) (k : κ) (v : β) : List (κ × β) :=
  m.filter (fun p => !decide (p.1 = k)) ++ [(k, v)]

def mapGet {κ β : Type} [DecidableEq κ] (m : List (κ × β)) (k : κ) : Option β :=
  (m.find? (fun p => decide (p.1 = k))).map (·.2)

/-! ### tag parsing (`newValueSetFromStruct`, lines 221–248) -/

/-- `strings.Index(v, "=")`-split of one option -/
def splitOpt (v : String) : String × String :=
  match v.splitOn "=" with
  | [] => (v, "")
  | [k] => (k, "")
  | k :: rest => (k, "=".intercalate rest)

structure TagInfo where
  nameOverride : String            -- `parts[0]`
  typeOnly     : Bool
  subtype      : String
deriving Repr, DecidableEq

def parseTag (tag : String) : TagInfo :=
  if tag = "" then { nameOverride := "", typeOnly := false, subtype := "" }
  else
    let parts := tag.splitOn ","
    let opts := (parts.drop 1).map splitOpt
    { nameOverride := parts.headD "",
      typeOnly := opts.any (fun o => o.1 == "typeOnly"),
      -- later assignments to the options map overwrite earlier ones
      subtype := ((opts.reverse.find? (fun o => o.1 == "subtype")).map (·.2)).getD "" }

def fieldLabel (f : Field) : Label :=
  let ti := parseTag f.tag
  let nm := lower (if ti.nameOverride ≠ "" then ti.nameOverride else f.name)
  { name := if ti.typeOnly then "" else nm, ty := f.ty, sub := ti.subtype }

structure FsAcc where
  idx    : Nat
  values : List SVal
  named  : List (String × SVal)
  typed  : List (Nat × SVal)

def fromStructStep (a : FsAcc) (f : Field) : FsAcc :=
  if !f.exported || f.marker then { a with idx := a.idx + 1 }
  else
    let v : SVal := { lab := fieldLabel f, index := a.idx }
    if v.lab.name ≠ "" then
      { idx := a.idx + 1, values := a.values ++ [v], named := mapSet a.named v.lab.name v, typed := a.typed }
    else
      { idx := a.idx + 1, values := a.values ++ [v], named := a.named, typed := mapSet a.typed v.lab.ty v }

inductive SigErr | ptrDepth | notStruct | mix | notFunc | structValue | unrepresentable
deriving Repr, DecidableEq

/-- `newValueSetFromStruct` for `depth` pointers around a struct with these fields -/
def newValueSetFromStruct (depth : Nat) (fields : List Field) : Except SigErr ValueSet :=
  if depth > 1 then .error .ptrDepth
  else
    let a := fields.foldl fromStructStep { idx := 0, values := [], named := [], typed := [] }
    .ok { hasStruct := true, ptrs := depth, values := a.values, named := a.named, typed := a.typed,
          lifted := false }

/-- `isStruct`: a struct (behind any number of pointers) with the marker embedded -/
def Param.isStruct : Param → Bool
  | .plain _ => false
  | .struct _ _ fs => fs.any (·.marker)

def Param.ty : Param → Nat
  | .plain t => t
  | .struct t _ _ => t

/-- the synthetic field of a lifted (positional) parameter -/
def liftedField (i : Nat) (ty : Nat) : Field :=
  { name := "V__Type_" ++ toString i, tag := ",typeOnly", ty := ty }

/-- the lifted form: every parameter becomes a type-only field -/
def newValueSetLifted (ps : List Param) : Except SigErr ValueSet :=
  if ps.any Param.isStruct then .error .mix
  else
    match newValueSetFromStruct 0 ((List.range ps.length).zipWith liftedField (ps.map Param.ty)) with
    | .ok vs => .ok { vs with lifted := true }
    | .error e => .error e

/-- `newValueSet(count, get)` -/
def newValueSet (ps : List Param) : Except SigErr ValueSet :=
  match ps with
  | [] => .ok ValueSet.nil
  | [.struct t d fs] =>
    if (Param.struct t d fs).isStruct then newValueSetFromStruct d fs else newValueSetLifted ps
  | _ => newValueSetLifted ps

/-- type id reserved for Go's `error` interface -/
def errorTy : Nat := 1000

structure FuncSig where
  input  : ValueSet
  output : ValueSet
  hasErr : Bool
deriving Repr, DecidableEq

/-- `NewFunc` on a function type (non-function values are rejected before this point) -/
def newFunc (ins outs : List Param) : Except SigErr FuncSig :=
  match newValueSet ins with
  | .error e => .error e
  | .ok i =>
    let hasErr := match outs.getLast? with
      | some (.plain t) => t == errorTy
      | _ => false
    match newValueSet (if hasErr then outs.dropLast else outs) with
    | .error e => .error e
    | .ok o => .ok { input := i, output := o, hasErr := hasErr }

/-! ### `NewValueSet` (dynamic struct from a value list) -/

def valueField (i : Nat) (l : Label) : Field :=
  let tags := [""] ++ (if l.name = "" then ["typeOnly"] else []) ++
              (if l.sub ≠ "" then ["subtype=" ++ l.sub] else [])
  { name := if l.name ≠ "" then upper l.name else "V__Type_" ++ toString i,
    tag := ",".intercalate tags, ty := l.ty }

def markerField : Field := { name := "Struct", tag := "", ty := 0, marker := true }

def newValueSetOfValues (vs : List Label) : Except SigErr ValueSet :=
  newValueSetFromStruct 0 (markerField :: (List.range vs.length).zipWith valueField vs)

/-- a subtype is rendered into a struct tag: a comma would end the option, a quote, backslash or newline
would end or alter the tag (`NewValueSet` rejects these after the repair of finding F19) -/
def subtypeOK (s : String) : Bool := !(s.any (fun c => c == ',' || c == '"' || c == '\\' || c == '\n'))

/-- a name becomes an exported struct field name once upper-cased: a letter first, then letters, digits,
underscores (non-ASCII characters are taken to be letters — the model's case mapping is ASCII) -/
def identChar (c : Char) : Bool := c.isAlphanum || c == '_' || decide (c.toNat ≥ 128)
def nameOK (n : String) : Bool :=
  match (upper n).toList with
  | [] => true
  | c :: cs => (c.isUpper || decide (c.toNat ≥ 128)) && cs.all identChar

def labelOK (l : Label) : Bool := subtypeOK l.sub && nameOK l.name

/-- `NewValueSet` with its validation: what cannot be represented in a struct is refused -/
def newValueSetChecked (vs : List Label) : Except SigErr ValueSet :=
  if vs.all labelOK then newValueSetOfValues vs else .error .unrepresentable

/-! ### lookups -/

def ValueSet.labels (s : ValueSet) : List Label := s.values.map (·.lab)
def ValueSet.namedLookup (s : ValueSet) (n : String) : Option SVal := mapGet s.named n
def ValueSet.typedLookup (s : ValueSet) (t : Nat) : Option SVal := mapGet s.typed t
def ValueSet.typedSubLookup (s : ValueSet) (t : Nat) (st : String) : Option SVal :=
  s.values.find? (fun v => v.lab.ty == t && v.lab.sub == st)
def ValueSet.empty (s : ValueSet) : Bool := !s.hasStruct || s.values.isEmpty

/-! ### the declarative specification of C14 -/

/-- what introspection must report for a struct-form parameter list -/
def specStructLabels (fields : List Field) : List Label :=
  (fields.filter (fun f => f.exported && !f.marker)).map fieldLabel

/-- … and for a positional one: one type-only value per position -/
def specPositionalLabels (ps : List Param) : List Label :=
  ps.map (fun p => { name := "", ty := p.ty, sub := "" })

end ArgMapper

namespace ArgMapper

/-- `ValueSet.Signature()` for a set whose (pointer-to-)struct type has id `structTy`: the lifted
branch fills one slot per value, by field position (`none` = index out of range) -/
def ValueSet.signature (s : ValueSet) (structTy : Nat) : Option (List Nat) :=
  if !s.lifted then (if s.hasStruct then some [structTy] else some [])
  else if s.values.all (fun v => decide (v.index < s.values.length)) then
    some ((List.range s.values.length).map (fun i =>
      ((s.values.find? (fun v => v.index == i)).map (fun v => v.lab.ty)).getD 0))
  else none

/-- the same function before the repair of finding F1: the slice was sized by, and filled from,
the per-*type* map, so a repeated positional type indexed out of range (`none`) -/
def ValueSet.signatureByTypeMap (s : ValueSet) (structTy : Nat) : Option (List Nat) :=
  if !s.lifted then (if s.hasStruct then some [structTy] else some [])
  else if s.typed.all (fun p => decide (p.2.index < s.typed.length)) then
    some ((List.range s.typed.length).map (fun i =>
      ((s.typed.find? (fun p => p.2.index == i)).map (fun p => p.2.lab.ty)).getD 0))
  else none

/-- `SignatureValues()` then `FromSignature()` on a struct-form set: field `index` of the rendered
struct holds the value of the set member with that index; loading reads every member's field back -/
def ValueSet.roundTrip (s : ValueSet) (vals : List (Option Nat)) : List (Option Nat) :=
  let fields : List (Nat × Option Nat) := (s.values.zip vals).map (fun p => (p.1.index, p.2))
  s.values.map (fun v => (mapGet fields v.index).getD none)

end ArgMapper
