import ArgMapper.Model.Reach
/-!
# Layer R: `redefine.go` and `convert.go`

`Redefine` is a *planning* run: the call graph is built with the filter-gated root edges (R8),
every function in it is replaced by a **copy** whose body returns zero values, `reachTarget` runs in
redefine mode and records which root-adjacent vertices were used (`inputSet`); those not supplied
by the caller become the fields of the new function's input struct.  The new function calls the
original with the original options plus its own arguments.

`Convert` is `Call` on a synthesised identity function `func(T) T`.
-/
namespace ArgMapper

/-- the zero-producing stand-in bodies installed by `redefineInputs` -/
def zeroBeh (outCount : Nat → Nat) : Nat → Nat → List PVal → BehOut :=
  fun fid _ _ => { outs := List.replicate (outCount fid) 0, err := none }

inductive RedefOutcome
  | ok (inputs : List Label)
  /-- an output was rejected by the output filter -/
  | outputFiltered
  | unsat (args : List Label) (fromGraph : Bool)
  | missingArg
  /-- the memoised error of a run-once function that failed in an earlier real call -/
  | funcErr (e : Nat)
  | panic (k : PanicKind)
  | outOfFuel
  | badOracle (why : String)
  /-- two declared inputs share a name: `reflect.StructOf` would panic with "duplicate field"
      (finding F18); after the repair `Redefine` returns an error instead -/
  | structPanic
  | dupName
deriving Repr, DecidableEq

/-- `redefineOutputs` -/
def outputsPass (e : TypeEnv) (target : FuncDesc) (filterOut : Option Filter) : Bool :=
  match filterOut with
  | none => true
  | some f => target.output.labels.all (fun l => f.eval e l.ty)

/-- the fields of the new input struct: used inputs that the caller did not supply -/
def declaredInputs (inputSet provided : List Vtx) : List Label :=
  (inputSet.filter (fun v => !decide (v ∈ provided))).filterMap (fun v =>
    match v with
    | .value n t _ => some { name := n, ty := t, sub := "" }
    | .arg t _ => some { name := "", ty := t, sub := "" }
    | _ => none)

/-- `StructOf` panics on duplicate field names -/
def fieldsOK (ls : List Label) : Bool :=
  ((ls.filter (fun l => l.name != "")).map (fun l => upper l.name)).Nodup

/-- `Func.Redefine` up to the construction of the new function's input labels.
`memo` is the state of the run-once cells before the call: the stand-ins are copies, so nothing
the planning run stores is visible afterwards — the function returns no state. -/
def redefine (c : Ctx) (cgr : CallGraphResult) (target : FuncDesc) (filterOut : Option Filter)
    (fuel : Nat) (s0 : CallSt) (dupIsError : Bool := true) : RedefOutcome :=
  if !outputsPass c.env target filterOut then .outputFiltered
  else if !cgr.unsat.isEmpty then .unsat cgr.unsat true
  else
    match reach c true fuel [] cgr.target s0 with
    | (.error (.unsat a), _) => .unsat a false
    | (.error (.funcErr e), _) => .funcErr e         -- stand-ins never fail: only a memoised error
    | (.error .missingArg, _) => .missingArg
    | (.error (.panic k), _) => .panic k
    | (.error .outOfFuel, _) => .outOfFuel
    | (.error (.badOracle w), _) => .badOracle w
    | (.ok _, s) =>
      let ls := declaredInputs s.inputSet cgr.inputs
      if fieldsOK ls then .ok ls else if dupIsError then .dupName else .structPanic

end ArgMapper
