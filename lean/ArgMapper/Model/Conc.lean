/-!
# Layer X: concurrency (the run-once protocol of `callDirect`; lock discipline)

Only *shared locations* are modelled.  `step` is one atomic action of one thread; a schedule is a
list of thread ids (a blocked thread's step is a no-op).  With `locked = true` the protocol is the
repaired `callDirect` (check, call and store under `onceMu`); with `locked = false` it is the
original unsynchronised one.
-/
namespace ArgMapper.Conc

inductive Pc
  | start
  /-- holds the lock (or, unlocked variant, is about to read the memo) -/
  | entered
  | hit (r : Nat)
  | miss
  | executed (r : Nat)
  | stored (r : Nat)
  | done (r : Nat)
deriving Repr, DecidableEq

structure OState where
  memo  : Option Nat
  lock  : Option Nat
  pcs   : List Pc
  /-- number of executions of the function body so far; the k-th execution returns k -/
  execs : Nat
deriving Repr, DecidableEq

def init (n : Nat) : OState := { memo := none, lock := none, pcs := List.replicate n .start, execs := 0 }

def setPc (st : OState) (tid : Nat) (pc : Pc) : OState := { st with pcs := st.pcs.set tid pc }

def step (locked : Bool) (st : OState) (tid : Nat) : OState :=
  match st.pcs[tid]? with
  | none => st
  | some .start =>
    if locked then
      (match st.lock with
       | none => setPc { st with lock := some tid } tid .entered
       | some _ => st)                                       -- blocked on the mutex
    else setPc st tid .entered
  | some .entered =>
    (match st.memo with
     | some r => setPc st tid (.hit r)
     | none => setPc st tid .miss)
  | some (.hit r) => setPc { st with lock := if locked then none else st.lock } tid (.done r)
  | some .miss => setPc { st with execs := st.execs + 1 } tid (.executed (st.execs + 1))
  | some (.executed r) => setPc { st with memo := some r } tid (.stored r)
  | some (.stored r) => setPc { st with lock := if locked then none else st.lock } tid (.done r)
  | some (.done _) => st

def run (locked : Bool) (n : Nat) (sched : List Nat) : OState := sched.foldl (step locked) (init n)

/-- what thread `tid` returned, if it has finished -/
def result (st : OState) (tid : Nat) : Option Nat :=
  match st.pcs[tid]? with
  | some (.done r) => some r
  | _ => none

/-! ### lock discipline -/

/-- one access of one thread to a shared location -/
structure Access where
  loc   : String
  write : Bool
  /-- the lock held while accessing, if any -/
  lock  : Option String
deriving Repr, DecidableEq

/-- two accesses of *different* threads conflict when they touch the same location, at least one
writes, and they do not hold a common lock -/
def Conflict (a b : Access) : Prop :=
  a.loc = b.loc ∧ (a.write = true ∨ b.write = true) ∧ ¬ (∃ l, a.lock = some l ∧ b.lock = some l)

/-- a data race between two threads' access lists -/
def Race (p q : List Access) : Prop := ∃ a ∈ p, ∃ b ∈ q, Conflict a b

/-- every access to a location that anybody writes holds that location's lock `guard loc` -/
def Guarded (guard : String → String) (progs : List (List Access)) : Prop :=
  ∀ p ∈ progs, ∀ a ∈ p,
    (∃ q ∈ progs, ∃ b ∈ q, b.loc = a.loc ∧ b.write = true) → a.lock = some (guard a.loc)

end ArgMapper.Conc
