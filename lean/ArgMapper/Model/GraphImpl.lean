import ArgMapper.Model.Graph
/-!
# Layer G (concrete): `internal/graph/graph.go` statement by statement

A Go `Graph` is three map *references* (each possibly nil).  `Reverse` returns a new struct that
shares all three with the original; `Copy` allocates fresh maps.  Since C19 is about exactly this
aliasing, the model has a small heap of map objects and a table of graph handles (`*Graph`).

* outer adjacency map object: `List (α × List (α × Int))` (key ↦ inner map; inner maps are never
  shared between two outer maps, so they are stored by value)
* hash map object: `List (α × Nat)` (vertex id ↦ payload tag — the payload makes `AddOverwrite`
  observable)

`delete` on a nil / missing map is a no-op, reading a nil / missing map yields the empty map,
assigning into a missing inner map is the Go runtime panic "assignment to entry in nil map"
(`Except.error .nilMap`), raised *after* the first of `AddEdgeWeighted`'s two stores.
-/
namespace ArgMapper
namespace GraphImpl
variable {α : Type} [DecidableEq α]

abbrev Inner (α : Type) := List (α × Int)
abbrev AdjObj (α : Type) := List (α × Inner α)
abbrev HashObj (α : Type) := List (α × Nat)

structure GraphVal where
  out  : Option Nat
  inn  : Option Nat
  hash : Option Nat
deriving Repr, DecidableEq

structure World (α : Type) where
  adj     : List (AdjObj α)
  hashes  : List (HashObj α)
  handles : List GraphVal

inductive Panic | nilMap | badHandle
deriving Repr, DecidableEq

def World.empty : World α := { adj := [], hashes := [], handles := [] }

/-! ### association-list helpers (Go map semantics) -/

def aget {β : Type} (m : List (α × β)) (k : α) : Option β :=
  (m.find? (fun p => decide (p.1 = k))).map (·.2)

def aset {β : Type} (m : List (α × β)) (k : α) (v : β) : List (α × β) :=
  if (aget m k).isSome then m.map (fun p => if p.1 = k then (k, v) else p) else m ++ [(k, v)]

def adel {β : Type} (m : List (α × β)) (k : α) : List (α × β) :=
  m.filter (fun p => !decide (p.1 = k))

def akeys {β : Type} (m : List (α × β)) : List α := m.map (·.1)

/-! ### heap access -/

def World.getAdj (w : World α) (r : Option Nat) : AdjObj α :=
  match r with
  | none => []
  | some i => w.adj.getD i []

def World.getHash (w : World α) (r : Option Nat) : HashObj α :=
  match r with
  | none => []
  | some i => w.hashes.getD i []

def World.setAdj (w : World α) (r : Option Nat) (o : AdjObj α) : World α :=
  match r with
  | none => w                       -- only reached through `delete` on a nil map: no-op
  | some i => { w with adj := w.adj.set i o }

def World.setHash (w : World α) (r : Option Nat) (o : HashObj α) : World α :=
  match r with
  | none => w
  | some i => { w with hashes := w.hashes.set i o }

def World.handle (w : World α) (h : Nat) : GraphVal := w.handles.getD h ⟨none, none, none⟩

/-- `var g Graph` -/
def newGraph (w : World α) : World α := { w with handles := w.handles ++ [⟨none, none, none⟩] }

/-- `g.init()`: allocate a fresh map for every nil field *of this struct* -/
def init (w : World α) (h : Nat) : World α :=
  let gv := w.handle h
  let w1 : World α := match gv.out with
    | some _ => w
    | none => { w with adj := w.adj ++ [[]],
                       handles := w.handles.set h { (w.handle h) with out := some w.adj.length } }
  let w2 : World α := match (w1.handle h).inn with
    | some _ => w1
    | none => { w1 with adj := w1.adj ++ [[]],
                        handles := w1.handles.set h { (w1.handle h) with inn := some w1.adj.length } }
  match (w2.handle h).hash with
    | some _ => w2
    | none => { w2 with hashes := w2.hashes ++ [[]],
                        handles := w2.handles.set h { (w2.handle h) with hash := some w2.hashes.length } }

/-- `Add` -/
def add (w0 : World α) (h : Nat) (v : α) (tag : Nat) : World α :=
  let w := init w0 h
  let gv := w.handle h
  if (aget (w.getAdj gv.out) v).isSome then w
  else
    let w := w.setAdj gv.out (aset (w.getAdj gv.out) v [])
    let w := w.setAdj gv.inn (aset (w.getAdj gv.inn) v [])
    w.setHash gv.hash (aset (w.getHash gv.hash) v tag)

/-- `AddOverwrite` -/
def addOverwrite (w0 : World α) (h : Nat) (v : α) (tag : Nat) : World α :=
  let w := init w0 h
  let gv := w.handle h
  let w := w.setHash gv.hash (aset (w.getHash gv.hash) v tag)
  if (aget (w.getAdj gv.out) v).isSome then w
  else
    let w := w.setAdj gv.out (aset (w.getAdj gv.out) v [])
    w.setAdj gv.inn (aset (w.getAdj gv.inn) v [])

/-- delete key `k` from the inner map stored under `outer[o]`, if that inner map exists -/
def delInner (m : AdjObj α) (o k : α) : AdjObj α :=
  match aget m o with
  | none => m
  | some inner => aset m o (adel inner k)

/-- `Remove` (no `init`: every operation is nil-safe) -/
def remove (w : World α) (h : Nat) (v : α) : World α :=
  let gv := w.handle h
  -- for out := range adjacencyOut[v] { delete(adjacencyIn[out], v) }
  let outs := akeys ((aget (w.getAdj gv.out) v).getD [])
  let w := w.setAdj gv.inn (outs.foldl (fun m o => delInner m o v) (w.getAdj gv.inn))
  let w := w.setAdj gv.out (adel (w.getAdj gv.out) v)
  -- for in := range adjacencyIn[v] { delete(adjacencyOut[in], v) }
  let ins := akeys ((aget (w.getAdj gv.inn) v).getD [])
  let w := w.setAdj gv.out (ins.foldl (fun m i => delInner m i v) (w.getAdj gv.out))
  let w := w.setAdj gv.inn (adel (w.getAdj gv.inn) v)
  w.setHash gv.hash (adel (w.getHash gv.hash) v)

/-- `AddEdgeWeighted` -/
def addEdge (w0 : World α) (h : Nat) (u v : α) (wt : Int) : Except Panic (World α) × World α :=
  let w := init w0 h
  let gv := w.handle h
  match aget (w.getAdj gv.out) u with
  | none => (.error .nilMap, w)
  | some inner =>
    let w1 := w.setAdj gv.out (aset (w.getAdj gv.out) u (aset inner v wt))
    match aget (w1.getAdj gv.inn) v with
    | none => (.error .nilMap, w1)       -- first store already happened
    | some inner2 => (.ok (w1.setAdj gv.inn (aset (w1.getAdj gv.inn) v (aset inner2 u wt))), w1)

/-- `RemoveEdge` -/
def removeEdge (w0 : World α) (h : Nat) (u v : α) : World α :=
  let w := init w0 h
  let gv := w.handle h
  let w := w.setAdj gv.out (delInner (w.getAdj gv.out) u v)
  w.setAdj gv.inn (delInner (w.getAdj gv.inn) v u)

/-- `Reverse`: a new struct sharing the three maps, the two adjacency maps swapped.
    `initFirst` is the repaired behaviour (`g.init()` before sharing, finding F11). -/
def reverse (initFirst : Bool) (w0 : World α) (h : Nat) : World α :=
  let w := if initFirst then init w0 h else w0
  let gv := w.handle h
  { w with handles := w.handles ++ [⟨gv.inn, gv.out, gv.hash⟩] }

/-- `Copy`: fresh maps, entries copied -/
def copy (w : World α) (h : Nat) : World α :=
  let gv := w.handle h
  let n := w.adj.length
  { adj := w.adj ++ [w.getAdj gv.out, w.getAdj gv.inn],
    hashes := w.hashes ++ [w.getHash gv.hash],
    handles := w.handles ++ [⟨some n, some (n + 1), some w.hashes.length⟩] }

/-! ### observers -/

/-- `Vertices()` as (id, payload) pairs -/
def vertices (w : World α) (h : Nat) : List (α × Nat) := w.getHash (w.handle h).hash

/-- `OutEdges(v)` as ids with weights (weights are what Dijkstra reads); a successor that is
    missing from `hash` is reported with payload `none` -/
def outEdges (w : World α) (h : Nat) (v : α) : List (α × Int) :=
  (aget (w.getAdj (w.handle h).out) v).getD []

def inEdges (w : World α) (h : Nat) (v : α) : List (α × Int) :=
  (aget (w.getAdj (w.handle h).inn) v).getD []

/-- keys of the adjacency maps (what `Dijkstra`/`KahnSort` iterate over) -/
def outKeys (w : World α) (h : Nat) : List α := akeys (w.getAdj (w.handle h).out)
def inKeys (w : World α) (h : Nat) : List α := akeys (w.getAdj (w.handle h).inn)

/-- abstraction to the plain adjacency model, seen through handle `h` -/
def abs (w : World α) (h : Nat) : AGraph α :=
  { verts := akeys (vertices w h),
    edges := (w.getAdj (w.handle h).out).flatMap (fun p => p.2.map (fun e => (p.1, e.1, e.2))) }

end GraphImpl
end ArgMapper
