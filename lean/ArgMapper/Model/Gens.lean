import ArgMapper.Model.CallGraph
/-!
# Layer CG (continued): converter generators (`args.go:argBuilder.graph`, the `convGens` loop)

After the supplied values and the converters are in the graph, every generator is invoked once for
every vertex that can be rendered as a `Value` (`newValueFromVertex`: named values and typed outputs)
of a **snapshot** of the vertex set taken before the loop — vertices added by generated converters are
not visited.  A generator returns nothing, a function, or an error; the first error aborts `Call` /
`Redefine` / `Convert` (after the repair of finding F10 it is returned, not raised as a panic).  A
returned function is appended to the converter list and added to the graph like any converter.

The snapshot is iterated in Go map order: `order` below is that order, supplied by the trace (any
permutation of `genVerts`); generators are user code, a parameter like function bodies.
-/
namespace ArgMapper

/-- what a generator returns for one value -/
inductive GenRes
  | nothing
  | func (fid : Nat)
  | err
deriving Repr, DecidableEq, Inhabited

/-- the graph as it stands when the generators run: target, supplied values, converters -/
def preGenGraph (b : Builder) (funcs : Nat → Option FuncDesc) (target : FuncDesc) : CG :=
  let c := CG.empty.add .root
  let c := funcGraph c target false
  let c := (inputsGraph c b).1
  b.convs.foldl (fun c fid => match funcs fid with
    | some f => funcGraph c f true
    | none => c) c

/-- `newValueFromVertex` is non-nil exactly for named values and typed outputs -/
def genVerts (c : CG) : List Vtx := c.g.verts.filter (fun v => v.isValue || v.isOut)

/-- the generator loop over the snapshot in the given order: generated function ids in order of
generation, or `none` as soon as a generator reports an error -/
def runGens (genOf : Nat → Vtx → GenRes) (gens : List Nat) : List Vtx → Option (List Nat)
  | [] => some []
  | v :: rest =>
    let step := gens.foldl (fun (acc : Option (List Nat)) g =>
      match acc with
      | none => none
      | some l =>
        match genOf g v with
        | .nothing => some l
        | .func fid => some (l ++ [fid])
        | .err => none) (some [])
    match step, runGens genOf gens rest with
    | some l, some l' => some (l ++ l')
    | _, _ => none

/-- the builder after the generator loop: generated converters are appended to the converter list -/
def expandGens (genOf : Nat → Vtx → GenRes) (b : Builder) (order : List Vtx) : Option Builder :=
  (runGens genOf b.gens order).map (fun l => { b with convs := b.convs ++ l })

/-- `Func.callGraph` with converter generators: `none` = a generator reported an error -/
def callGraphG (var : Variant) (e : TypeEnv) (b : Builder) (funcs : Nat → Option FuncDesc)
    (target : FuncDesc) (redefining : Bool) (filter : Option Filter)
    (genOf : Nat → Vtx → GenRes) (order : List Vtx) : Option CallGraphResult :=
  (expandGens genOf b order).map (fun b' => callGraph var e b' funcs target redefining filter)

end ArgMapper
