import ArgMapper.Model.CallGraph
import ArgMapper.Model.Dijkstra
/-!
# Layer W: resolution and execution (`call.go:reachTarget`, `callDirect`, `func.go:outputValues`)

`reach` is `reachTarget`: it collects the target's missing requirements, takes one path per
requirement (from the **oracle** — the real code computes it with Dijkstra on a re-weighted copy;
`Model/PathChoice.lean` is that computation and the driver checks the two agree), then walks the
paths root-first, copying values vertex to vertex through the shared store and `last`
(`callState.Value`); a function vertex on a path is resolved recursively, executed
(`callDirect`), and its outputs are written to its output vertices (`outputValues`).

Function bodies are a parameter `beh`; values are `(static type, provenance id)`.
Recursion is by fuel (`outOfFuel` is an explicit outcome).
-/
namespace ArgMapper

/-- a value in flight: what `reflect` shows (static type, provenance id) plus a *ghost* origin — the
vertex at which this value entered the graph (a supplied input vertex or a converter's output
vertex).  The origin is never read by the model; the C01 theorems are stated over it. -/
structure PVal where
  ty  : Nat
  id  : Nat
  org : Vtx
deriving Repr, DecidableEq, Inhabited

inductive PanicKind
  | finalValue          -- "didn't reach a final value for path"
  | setNotAssignable    -- reflect.Value.Set with a non-assignable value
  | elemOnStruct        -- reflect.Value.Elem on a struct Value (memoised pointer result reused)
  | emptyPath           -- paths[i][0] on an empty path
  | unknownVertex
deriving Repr, DecidableEq

inductive RErr
  | unsat (args : List Label)
  /-- a converter (or, from `call`, the target) returned this error value -/
  | funcErr (e : Nat)
  /-- `callDirect`'s last-resort guard: "argument cannot be satisfied … this is a bug" -/
  | missingArg
  | panic (k : PanicKind)
  | outOfFuel
  | badOracle (why : String)
deriving Repr, DecidableEq

/-- what a function body returns: one id per value of its output set (0 = zero value), and an
optional error; `nilStruct` = a nil pointer-to-struct result -/
structure BehOut where
  outs : List Nat
  err  : Option Nat
deriving Repr, DecidableEq, Inhabited

/-- an executed function: what it received and returned -/
structure ExecEv where
  fid  : Nat
  nth  : Nat
  args : List PVal
  /-- the labels of the function's parameters, in the order of `args` (ghost: for the statements) -/
  params : List Label := []
  res  : BehOut
deriving Repr, DecidableEq

structure OrcItem where
  target  : Vtx
  /-- the order in which `g.OutEdges(target)` yielded the missing requirements -/
  missing : List Vtx
  /-- the path chosen for each of them (root-first) -/
  paths   : List (List Vtx)
deriving Repr

/-- memo cell of a run-once function; `unwrapped` tracks the in-place `Elem()` of a memoised
pointer-struct result (finding F15) -/
structure Memo where
  res : BehOut
  unwrapped : Bool
deriving Repr, DecidableEq

structure CallSt where
  store    : List (Vtx × PVal)
  last     : Option PVal
  inputSet : List Vtx
  memo     : List (Nat × Memo)
  log      : List ExecEv
  /-- executions so far per function object (the `nth` handed to `beh`) -/
  count    : List (Nat × Nat)
  orc      : List OrcItem
deriving Repr

abbrev ArgMap := List (Vtx × PVal)

structure Ctx where
  env   : TypeEnv
  g     : AGraph Vtx
  /-- the function object held by a function vertex -/
  funcOf : Nat → Option FuncDesc
  beh   : Nat → Nat → List PVal → BehOut
  /-- `true` once the memoised slice is copied before unwrapping (repair of F15) -/
  memoCopy : Bool := true
  /-- repaired behaviours of `reachTarget` (findings F2, F3, F4) -/
  publishAfterUpdate : Bool := true
  trackReaching : Bool := true
  takeValuedNamed : Bool := true
  /-- before the repair of F9a every skipped requirement was recorded in the input set -/
  skipRecordsInput : Bool := false
  /-- a named vertex entered from another named vertex takes that vertex's value (repair of F22) -/
  hopCopies : Bool := true
  /-- when the recorded oracle is exhausted, choose paths with the greedy legal pop order
      (used to run the model on its own: enumeration, crashed scenarios) -/
  auto : Bool := false

def CallSt.get (s : CallSt) (v : Vtx) : Option PVal := mapGet s.store v

def CallSt.set (s : CallSt) (v : Vtx) (x : Option PVal) : CallSt :=
  match x with
  | some y => { s with store := mapSet s.store v y }
  | none => { s with store := s.store.filter (fun p => !decide (p.1 = v)) }

def CallSt.addInput (s : CallSt) (v : Vtx) : CallSt :=
  if v ∈ s.inputSet then s else { s with inputSet := s.inputSet ++ [v] }

def zeroVal (ty : Nat) (at_ : Vtx) : PVal := { ty := ty, id := 0, org := at_ }

/-! ### callDirect -/

/-- arguments in the order of `f.input.values`; `none` when one is missing from the map -/
def gatherArgs (e : TypeEnv) (f : FuncDesc) (am : ArgMap) : Except RErr (List PVal) :=
  f.input.values.foldl (fun acc v =>
    match acc with
    | .error x => .error x
    | .ok l =>
      match mapGet am v.lab.vertex with
      | none => .error .missingArg
      | some a =>
        if e.assignable a.ty v.lab.ty then .ok (l ++ [{ ty := v.lab.ty, id := a.id, org := a.org }])
        else .error (.panic .setNotAssignable)) (.ok [])

def countOf (s : CallSt) (fid : Nat) : Nat := (mapGet s.count fid).getD 0

/-- `callDirect`: memo check, argument struct population, call, memo store -/
def callDirect (c : Ctx) (f : FuncDesc) (am : ArgMap) (s : CallSt) : Except RErr (BehOut × Bool) × CallSt :=
  match (if f.once then mapGet s.memo f.id else none) with
  | some m => (.ok (m.res, m.unwrapped), s)
  | none =>
    match gatherArgs c.env f am with
    | .error x => (.error x, s)
    | .ok args =>
      let r := c.beh f.id (countOf s f.id) args
      let s := { s with log := s.log ++ [{ fid := f.id, nth := countOf s f.id, args := args, params := f.input.labels, res := r }],
                        count := mapSet s.count f.id (countOf s f.id + 1) }
      let s := if f.once then { s with memo := mapSet s.memo f.id { res := r, unwrapped := false } } else s
      (.ok (r, false), s)

/-- field `idx` of the result struct: the id the body returned for the output value with that
struct index (`BehOut.outs` is aligned with `f.output.values`) -/
def resultField (f : FuncDesc) (r : BehOut) (idx : Nat) (ty : Nat) (at_ : Vtx) : PVal :=
  match (f.output.values.zip r.outs).find? (fun p => p.1.index == idx) with
  | some p => { ty := ty, id := p.2, org := at_ }
  | none => zeroVal ty at_

/-- `outputValues`: write the result's fields to the function's output vertices -/
def outputValues (c : Ctx) (f : FuncDesc) (r : BehOut) (unwrapped : Bool) (s : CallSt) : Except RErr CallSt :=
  if f.output.ptrs > 0 ∧ !f.output.lifted ∧ unwrapped ∧ !c.memoCopy then .error (.panic .elemOnStruct)
  else
    let s := if f.once ∧ f.output.ptrs > 0 ∧ !f.output.lifted ∧ !c.memoCopy
      then { s with memo := s.memo.map (fun p => if p.1 = f.id then (p.1, { p.2 with unwrapped := true }) else p) }
      else s
    .ok ((c.g.ins (.func f.key)).foldl (fun s v =>
      match v with
      | .value n _ _ =>
        match mapGet f.output.named n with
        | some sv => s.set v (some (resultField f r sv.index sv.lab.ty v))
        | none => s
      | .out t _ =>
        match mapGet f.output.typed t with
        | some sv => s.set v (some (resultField f r sv.index sv.lab.ty v))
        | none => s
      | _ => s) s)

/-! ### walking one path -/

structure WalkSt where
  s     : CallSt
  final : Option PVal
  prev  : Option Vtx
  err   : Option RErr

def walkStep (c : Ctx) (rec : Vtx → CallSt → Except RErr ArgMap × CallSt) (w : WalkSt) (v : Vtx) : WalkSt :=
  match w.err with
  | some _ => w
  | none =>
    let prevOut : Option Vtx := match w.prev with
      | some (.out t st) => some (.out t st)
      | _ => none
    match v with
    | .root => { w with prev := some v }
    | .value .. =>
      let old := w.s.get v
      -- entered from the same-named value that has a subtype (the one edge between two named values), the
      -- vertex keeps that value (repair of finding F22)
      let hop : Option PVal := match w.prev with
        | some (.value n t st) => if c.hopCopies then w.s.get (.value n t st) else none
        | _ => none
      let s1 := match prevOut with
        | some p => w.s.set v (w.s.get p)
        | none => match hop with
          | some x => w.s.set v (some x)
          | none => w.s
      let s2 := { s1 with last := if c.publishAfterUpdate then s1.get v else old }
      { w with s := s2, prev := some v, final := match s2.get v with | some x => some x | none => w.final }
    | .arg t _ =>
      let s1 := match w.s.last with
        | some x => if c.env.assignable x.ty t then w.s.set v (some x) else w.s
        | none => w.s
      { w with s := s1, prev := some v, final := s1.get v }
    | .out .. =>
      let s1 := match prevOut with
        | some p => w.s.set v (w.s.get p)
        | none => w.s
      { w with s := { s1 with last := s1.get v }, prev := some v }
    | .func key =>
      match c.funcOf key with
      | none => { w with err := some (.panic .unknownVertex) }
      | some f =>
        match rec v w.s with
        | (.error e, s1) => { w with s := s1, err := some e }
        | (.ok am, s1) =>
          match callDirect c f am s1 with
          | (.error e, s2) => { w with s := s2, err := some e }
          | (.ok (r, unw), s2) =>
            match r.err with
            | some e => { w with s := s2, err := some (.funcErr e) }
            | none =>
              match outputValues c f r unw s2 with
              | .error e => { w with s := s2, err := some e }
              | .ok s3 => { w with s := s3, prev := some v }

/-- walk all chosen paths in order, filling the argument map -/
def walkPaths (c : Ctx) (rec : Vtx → CallSt → Except RErr ArgMap × CallSt) :
    List (List Vtx) → ArgMap → CallSt → Except RErr ArgMap × CallSt
  | [], am, s => (.ok am, s)
  | p :: rest, am, s =>
    let w := p.foldl (walkStep c rec) { s := s, final := none, prev := none, err := none }
    match w.err with
    | some e => (.error e, w.s)
    | none =>
      match w.final, p.getLast? with
      | some x, some lastV => walkPaths c rec rest (mapSet am lastV x) w.s
      | _, _ => (.error (.panic .finalValue), w.s)

/-! ### the path the real code chooses: Dijkstra on a re-weighted copy -/

/-- for a named requirement, every edge into a same-named value vertex is re-weighted to
`weightMatchingName` (on a copy) -/
def discount (g : AGraph Vtx) (current : Vtx) : AGraph Vtx :=
  match current with
  | .value n _ _ =>
    (g.verts.filter (fun v => v.isValue && v.name == n)).foldl (fun g raw =>
      (g.ins raw).foldl (fun g src => g.addEdge src raw Generated.weightMatchingName) g) g
  | _ => g

/-- `currentG.Reverse().Dijkstra(root)` replaying `pops`, then `EdgeToPath(current)` -/
def choosePath (g : AGraph Vtx) (current : Vtx) (pops : List Vtx) : List Vtx :=
  Dijkstra.edgeToPath (Dijkstra.run (discount g current).reverse Vtx.root pops).prev (pops.length + 1) current

def legalChoice (g : AGraph Vtx) (current : Vtx) (pops : List Vtx) : Bool :=
  Dijkstra.legalFrom (discount g current).reverse (Dijkstra.init Vtx.root) pops &&
  decide (pops.Nodup) && (discount g current).verts.all (fun v => decide (v ∈ pops))

/-- the oracle item the model produces on its own: requirements in representation order, each
path chosen by Dijkstra with the greedy (first minimum) pop order -/
def autoItem (g : AGraph Vtx) (target : Vtx) (missing : List Vtx) : OrcItem :=
  { target := target, missing := missing,
    paths := missing.map (fun cur =>
      choosePath g cur (Dijkstra.greedyPops (discount g cur).reverse (discount g cur).verts.length
        (Dijkstra.init Vtx.root))) }

/-! ### reachTarget -/

/-- requirement kept "as is": a typed argument that already holds a value (and, after the repair
of F4, a named value that already holds one) -/
def takenAsIs (c : Ctx) (s : CallSt) (v : Vtx) : Bool :=
  match v with
  | .arg .. => (s.get v).isSome
  | .value .. => c.takeValuedNamed && (s.get v).isSome
  | _ => false

/-- a usable path: starts at the root (`EdgeToPath` over Dijkstra's predecessor map on a pruned graph,
in which every vertex is reachable from the root, always does), runs along edges of the reversed
graph, ends in the requirement -/
def validPath (g : AGraph Vtx) (current : Vtx) (p : List Vtx) : Bool :=
  !p.isEmpty && p.head? == some Vtx.root && p.getLast? == some current && AGraph.isPathB g.reverse p

def pathInput (p : List Vtx) : Option Vtx :=
  match p with
  | [] => none
  | [x] => some x
  | .root :: y :: _ => some y
  | x :: _ => some x

def sameMembers (a b : List Vtx) : Bool :=
  a.all (fun x => decide (x ∈ b)) && b.all (fun x => decide (x ∈ a)) && decide (a.length = b.length)

structure PlanSt where
  s : CallSt
  unsat : List Label

/-- the per-requirement part of the planning loop (lines 378–439) -/
def planOne (target : Vtx) (reaching : List Vtx) (trackReaching redefine : Bool) (ps : PlanSt)
    (cp : Vtx × List Vtx) : PlanSt :=
  let current := cp.1
  let path := cp.2
  -- the code appends the requirement once for every vertex of the path that is being resolved
  let hits := if trackReaching then path.filter (fun v => decide (v ∈ reaching)) else path.filter (fun v => decide (v = target))
  let unsat := ps.unsat ++ hits.map (fun _ => current.label)
  match pathInput path with
  | none => { ps with unsat := unsat }
  | some input =>
    let s := ps.s.addInput input
    let s := if redefine then
        match input with
        | .value _ t _ => if (s.get input).isNone then s.set input (some (zeroVal t input)) else s
        | .arg t _ => s.set input (some (zeroVal t input))
        | _ => s
      else s
    { s := s, unsat := unsat }

def reach (c : Ctx) (redefine : Bool) : Nat → List Vtx → Vtx → CallSt → Except RErr ArgMap × CallSt
  | 0, _, _, s => (.error .outOfFuel, s)
  | n + 1, reaching, target, s =>
    let reqs := c.g.outs target
    -- requirements that are skipped: the root, and vertices taken as they are
    let skipped := reqs.filter (fun v => v == Vtx.root || takenAsIs c s v)
    let missingM := reqs.filter (fun v => !(v == Vtx.root || takenAsIs c s v))
    let am0 : ArgMap := skipped.filterMap (fun v => if v == Vtx.root then none else (s.get v).map (fun x => (v, x)))
    let s := if c.skipRecordsInput then skipped.foldl CallSt.addInput s else s
    -- every `reachTarget` invocation consumes one oracle item (it logs its target first)
    match (match s.orc with
        | item :: rest => some (item, rest)
        | [] => if c.auto then some (autoItem c.g target missingM, []) else none) with
    | none => (.error (.badOracle "exhausted"), s)
    | some (item, orcRest) =>
      let s := { s with orc := orcRest }
      if item.target ≠ target then (.error (.badOracle "target"), s)
      else if !sameMembers item.missing missingM then (.error (.badOracle "missing"), s)
      else if missingM.isEmpty then (.ok am0, s)
      else if item.paths.length ≠ item.missing.length then (.error (.badOracle "paths"), s)
      else if !(item.missing.zip item.paths).all (fun cp => validPath c.g cp.1 cp.2) then
        (.error (.badOracle "path"), s)
      else
        let reaching' := target :: reaching
        let ps := (item.missing.zip item.paths).foldl (planOne target reaching' c.trackReaching redefine)
          { s := s, unsat := [] }
        if !ps.unsat.isEmpty then (.error (.unsat ps.unsat), ps.s)
        else walkPaths c (fun v st => reach c redefine n reaching' v st) item.paths am0 ps.s

/-! ### Call -/

inductive Outcome
  | ok (res : BehOut)
  | unsat (args : List Label) (fromGraph : Bool)
  | convErr (e : Nat)
  | targetErr (e : Nat) (res : BehOut)
  | missingArg
  | panic (k : PanicKind)
  | outOfFuel
  | badOracle (why : String)
deriving Repr, DecidableEq

def initSt (cg : CG) (memo : List (Nat × Memo)) (orc : List OrcItem) : CallSt :=
  { store := cg.store.map (fun p => (p.1, { ty := p.2.ty, id := p.2.id, org := p.1 })), last := none, inputSet := [], memo := memo, log := [], count := [], orc := orc }

/-- `Func.Call` after the builder: call graph, `reachTarget`, `callDirect` -/
def callWith (c : Ctx) (cgr : CallGraphResult) (target : FuncDesc) (fuel : Nat) (s0 : CallSt) : Outcome × CallSt :=
  if !cgr.unsat.isEmpty then (.unsat cgr.unsat true, s0)
  else
    match reach c false fuel [] cgr.target s0 with
    | (.error (.unsat a), s) => (.unsat a false, s)
    | (.error (.funcErr e), s) => (.convErr e, s)
    | (.error .missingArg, s) => (.missingArg, s)
    | (.error (.panic k), s) => (.panic k, s)
    | (.error .outOfFuel, s) => (.outOfFuel, s)
    | (.error (.badOracle w), s) => (.badOracle w, s)
    | (.ok am, s) =>
      match callDirect c target am s with
      | (.error (.panic k), s2) => (.panic k, s2)
      | (.error _, s2) => (.missingArg, s2)
      | (.ok (r, _), s2) =>
        match r.err with
        | some e => (.targetErr e r, s2)
        | none => (.ok r, s2)

end ArgMapper
