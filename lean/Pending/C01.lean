import ArgMapper.Spec.Flow
/-!
# C01 — every injected value is a label- and type-correct binding, never fabricated

Property theorems only (helper lemmas in `ArgMapper/Proofs/CallGraphEdges.lean`,
`ArgMapper/Proofs/FlowCompat.lean`, `ArgMapper/Proofs/ReachSound.lean`).

Values in flight carry a ghost origin `org`: the vertex at which the value entered the graph — the
vertex of a value the caller supplied, or the output vertex a converter's result was written to.
"Supplied by the caller or returned by a supplied converter, never fabricated" is `org.isOrigin`
(an origin is set only by `initSt` from the supplied values and by `outputValues` from a
function's actual results); "label-compatible" is `compatB` between the parameter's label and the
origin vertex's label.
-/
namespace ArgMapper.C01
open ArgMapper

/-- what an executed function received -/
def ArgsOK (e : TypeEnv) (ev : ExecEv) : Prop :=
  ev.args.length = ev.params.length ∧
  ∀ (i : Nat) (p : Label) (a : PVal), ev.params[i]? = some p → ev.args[i]? = some a →
    a.org.isOrigin = true ∧ compatB e p a.org.label = true

/-- the same, in terms of flow in a concrete graph (what the dynamic part proves) -/
def ArgsFlow (g : AGraph Vtx) (ev : ExecEv) : Prop :=
  ev.args.length = ev.params.length ∧
  ∀ (i : Nat) (p : Label) (a : PVal), ev.params[i]? = some p → ev.args[i]? = some a →
    a.org.isOrigin = true ∧ Flow g a.org p.vertex

/-- every stored value entered at an origin vertex and can flow to where it is stored -/
def StoreOK (g : AGraph Vtx) (s : CallSt) : Prop :=
  ∀ x v, s.get x = some v → v.org.isOrigin = true ∧ Flow g v.org x

/-- the function object of every function vertex knows the outputs that hang off that vertex
(true of graphs built by `callGraph`: the output edges are created from that very output set) -/
def FuncsOK (c : Ctx) : Prop :=
  ∀ k f, c.funcOf k = some f →
    f.key = k ∧
    ∀ v ∈ c.g.ins (.func k),
      (∀ n t s, v = .value n t s → (mapGet f.output.named n).isSome = true) ∧
      (∀ t s, v = .out t s → (mapGet f.output.typed t).isSome = true) ∧
      (v.isValue = true ∨ v.isOut = true)

/-- **static part** — the matching table is closed under flow along the edge rules: whatever
reaches a parameter vertex by vertex-to-vertex copies has a compatible label. Needs transitivity of
`Implements` and excludes twin interfaces (`ImplAntisym`, finding F14). -/
theorem flow_compat (e : TypeEnv) (ht : ImplTrans e) (ha : ImplAntisym e) (o x : Vtx)
    (ho : o.isOrigin = true) (hx : x.isValue = true ∨ x.isArg = true) (h : RuleFlow e o x) :
    compatB e x.label o.label = true := by
  sorry

/-- **edge characterisation** — every edge of the graph `callGraph` builds (with the repaired rules)
is an instance of one of the rules R0–R8 -/
theorem callGraph_edges (e : TypeEnv) (b : Builder) (funcs : Nat → Option FuncDesc) (target : FuncDesc)
    (redefining : Bool) (filter : Option Filter) :
    EdgeOK e (callGraph {} e b funcs target redefining filter).cg.g := by
  sorry

/-- **dynamic part** — for any graph whose edges obey the rules and any legal-or-not oracle (every path
handed to `reach` is checked to be a real path ending in the requirement, nothing more), every
function executed during `Call` receives a full argument list whose members entered the graph at
an origin vertex and flowed to the parameter's vertex. -/
theorem call_args_flow (c : Ctx) (hg : EdgeOK c.env c.g) (hf : FuncsOK c) (cgr : CallGraphResult)
    (target : FuncDesc) (hcg : cgr.cg.g = c.g) (htv : cgr.target = .func target.key)
    (fuel : Nat) (s0 : CallSt) (hs : StoreOK c.g s0) (hl : s0.log = []) :
    ∀ ev ∈ (callWith c cgr target fuel s0).2.log, ArgsFlow c.g ev := by
  sorry

/-- the initial state of a call satisfies `StoreOK`: supplied values sit at their own vertices -/
theorem initSt_storeOK (cg : CG) (memo : List (Nat × Memo)) (orc : List OrcItem)
    (hcg : ∀ x v, mapGet cg.store x = some v → x.isOrigin = true) :
    StoreOK cg.g (initSt cg memo orc) := by
  sorry

/-- `Flow` in a graph whose edges obey the rules is `RuleFlow` -/
theorem flow_ruleFlow (e : TypeEnv) (g : AGraph Vtx) (hg : EdgeOK e g) (o x : Vtx) (h : Flow g o x) :
    RuleFlow e o x := by
  sorry

/-- **C01_injection_sound_partial** — `Call` on the graph built by `callGraph`: for all supplied values,
converter sets, target signatures, behaviours and oracles, every executed function (target or
converter) gets one value per declared parameter, each supplied by the caller or returned by a
converter (its origin is an origin vertex) and label-compatible with the parameter under the
matching table.

Partial with respect to the property's sentence in one hypothesis: `ImplAntisym` (no two distinct
interface types implement each other).  The full-strength statement is false without it — see
`counterexample_twin_interfaces` (finding F14). -/
theorem injection_sound_partial (e : TypeEnv) (ht : ImplTrans e) (ha : ImplAntisym e)
    (b : Builder) (funcs : Nat → Option FuncDesc) (target : FuncDesc)
    (c : Ctx) (henv : c.env = e)
    (hcg : c.g = (callGraph {} e b funcs target false none).cg.g) (hf : FuncsOK c)
    (hsup : ∀ x v, mapGet (callGraph {} e b funcs target false none).cg.store x = some v → x.isOrigin = true)
    (fuel : Nat) (memo : List (Nat × Memo)) (orc : List OrcItem) :
    ∀ ev ∈ (callWith c (callGraph {} e b funcs target false none) target fuel
              (initSt (callGraph {} e b funcs target false none).cg memo orc)).2.log,
      ArgsOK e ev := by
  sorry

/-- the rule set is *not* closed under composition when two distinct interface types implement each
other: a value labelled subtype `y` flows to a parameter requiring subtype `x` of the same
interface type through its twin (replayed on the real code, finding F14) -/
theorem counterexample_twin_interfaces :
    let e : TypeEnv := { isIface := fun t => t == 10 || t == 13,
                         impl := fun t i => (i == 10 || i == 13) && (t == 10 || t == 13 || t == 4) }
    RuleFlow e (.out 10 "y") (.arg 10 "x") ∧ compatB e (Vtx.arg 10 "x").label (Vtx.out 10 "y").label = false := by
  sorry

end ArgMapper.C01
