import ArgMapper.Props.C03
import ArgMapper.Props.C05
import ArgMapper.Props.C06
/-!
# C06 (continued) — the last modelled panic sites under a legal oracle

Property theorem only.  `C06.no_elem_or_unknown_panic` shows three of the modelled panic sites
unreachable for every oracle.  The remaining ones — "didn't reach a final value for path"
(`panic finalValue`), `reflect.Value.Set` with a non-assignable value (`panic setNotAssignable`) and the
last-resort guard of `callDirect` (`missingArg`) — depend on the paths being the ones the real algorithm
chooses: here for every **legal** oracle (each path is `choosePath` for some legal complete pop order on
the re-weighted reversed copy), the full label language (names, subtypes, interfaces), every converter
set (any arity, cycles), every behaviour.
-/
namespace ArgMapper.C06
open ArgMapper

/-- **C06_no_walk_panic** -/
theorem no_walk_panic (e : TypeEnv) (ht : ImplTrans e)
    (b : Builder) (funcs : Nat → Option FuncDesc) (target : FuncDesc)
    (hb : C03.BuilderOK b)
    (hc : C01.FuncsConsistent (C01.allFuncs b funcs target))
    (hwf : C05.SetsWF (C01.allFuncs b funcs target))
    (hsmall : C03.SmallGraph (callGraph {} e b funcs target false none).cg.g)
    (beh : Nat → Nat → List PVal → BehOut) (fuel : Nat)
    (memo : List (Nat × Memo)) (orc : List OrcItem)
    (hleg : ∀ it ∈ orc, C03.LegalItem (callGraph {} e b funcs target false none).cg.g it) :
    let r := callWith (C01.stdCtx e b funcs target beh) (callGraph {} e b funcs target false none) target fuel
              (initSt (callGraph {} e b funcs target false none).cg memo orc)
    r.1 ≠ .panic .finalValue ∧ r.1 ≠ .panic .setNotAssignable ∧ r.1 ≠ .missingArg := by
  sorry

end ArgMapper.C06
