import ArgMapper.Props.C01b
import ArgMapper.Props.C18
/-!
# C03 — exact matches win

Property theorems only (helper lemmas in `ArgMapper/Proofs/ExactWins.lean`).
-/
namespace ArgMapper.C03
open ArgMapper

/-- the value the caller supplied under exactly this parameter's key -/
def exactValue (b : Builder) (p : Label) : Option Val :=
  if p.name ≠ "" then
    (if p.sub = "" then (mapGet b.named p.name).filter (fun v => v.ty == p.ty)
     else (mapGet b.namedSub (p.name, p.sub)).filter (fun v => v.ty == p.ty))
  else if p.sub = "" then mapGet b.typed p.ty else mapGet b.typedSub (p.ty, p.sub)

/-- every parameter of the target has an exactly matching supplied value -/
def ExactAll (b : Builder) (target : FuncDesc) : Prop :=
  ∀ p ∈ target.input.labels, (exactValue b p).isSome = true

/-- the oracle is what the real code computes: each chosen path is Dijkstra's path, for some legal
pop order, on the re-weighted reversed graph -/
def LegalItem (g : AGraph Vtx) (it : OrcItem) : Prop :=
  ∀ (i : Nat) (cur : Vtx) (path : List Vtx), it.missing[i]? = some cur → it.paths[i]? = some path →
    ∃ pops, Dijkstra.LegalPops (discount g cur).reverse Vtx.root pops ∧ path = choosePath g cur pops

/-- **C03_exact_wins (named parameters)** — a target all of whose parameters are named and exactly
supplied: `Call` executes the target and nothing else, whatever else is supplied, for every oracle;
each parameter receives precisely its same-named supplied value.  (After the repair of F4 a named
requirement that already holds a value is taken as is — no search, hence no tie-breaking.) -/
theorem exact_wins_named (e : TypeEnv) (b : Builder) (funcs : Nat → Option FuncDesc) (target : FuncDesc)
    (hk : ValueSet.KeysOK target.input) (hnamed : ∀ p ∈ target.input.labels, p.name ≠ "")
    (hex : ExactAll b target)
    (beh : Nat → Nat → List PVal → BehOut) (fuel : Nat) (hfuel : 0 < fuel)
    (memo : List (Nat × Memo)) (orc : List OrcItem) (hm : mapGet memo target.id = none) :
    let r := callWith (C01.stdCtx e b funcs target beh) (callGraph {} e b funcs target false none) target fuel
              (initSt (callGraph {} e b funcs target false none).cg memo orc)
    (∃ w, r.1 = .badOracle w) ∨
    (∃ ev, r.2.log = [ev] ∧ ev.fid = target.id ∧
      ev.args.map (fun a => some a.id) = target.input.labels.map (fun p => (exactValue b p).map (·.id))) := by
  sorry

/-- the graph is small enough for Dijkstra's `int32` distances (any realistic call graph is) -/
def SmallGraph (g : AGraph Vtx) : Prop := (g.edges.map (fun e => e.2.2)).sum < maxInt32

/-- **C03_exact_wins (type-only parameters)** — for every *legal* oracle: with an exactly matching
typed value supplied for every type-only parameter (and exactly matching named values for the
named ones), no converter is executed and each type-only parameter receives a supplied value of
exactly its type.  Uses the exactness of Dijkstra (C18): the direct path costs `normal + typed`, any
path through a function vertex costs at least `normal + typed + normal`. -/
theorem exact_wins (e : TypeEnv) (b : Builder) (funcs : Nat → Option FuncDesc) (target : FuncDesc)
    (hc : C01.FuncsConsistent (C01.allFuncs b funcs target)) (hex : ExactAll b target)
    (hsmall : SmallGraph (callGraph {} e b funcs target false none).cg.g)
    (beh : Nat → Nat → List PVal → BehOut) (fuel : Nat) (hfuel : 0 < fuel)
    (memo : List (Nat × Memo)) (orc : List OrcItem) (hm : mapGet memo target.id = none)
    (hleg : ∀ it ∈ orc, LegalItem (callGraph {} e b funcs target false none).cg.g it) :
    let r := callWith (C01.stdCtx e b funcs target beh) (callGraph {} e b funcs target false none) target fuel
              (initSt (callGraph {} e b funcs target false none).cg memo orc)
    (∃ w, r.1 = .badOracle w) ∨
    (∃ ev, r.2.log = [ev] ∧ ev.fid = target.id ∧
      ∀ (i : Nat) (p : Label) (a : PVal), ev.params[i]? = some p → ev.args[i]? = some a →
        (p.name ≠ "" → some a.id = (exactValue b p).map (·.id)) ∧
        (p.name = "" → a.org.isOrigin = true ∧ a.org.ty = p.ty ∧
          ∃ v, mapGet (callGraph {} e b funcs target false none).cg.store a.org = some v ∧ v.id = a.id)) := by
  sorry

end ArgMapper.C03
