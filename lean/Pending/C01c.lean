import ArgMapper.Model.Hist
import ArgMapper.Props.C01b
/-!
# C01 (values, not only labels): nothing is fabricated — over whole histories

`C01.injection_sound` speaks about *labels*: every injected value entered the graph at a supplied
value or at a converter output whose label is compatible with the parameter.  This file is about the
*values themselves* (their provenance ids): every argument any executed function receives, in any
`Call` of a history of `Call`s and `Redefine`s on shared function objects, is a value the caller of
that very call supplied, or a value some execution of the history returned (possibly in an earlier
call and served from a run-once cell).  In particular the zero values of `Redefine`'s planning run
never reach a real function.

`BehFull` is the one assumption about function bodies: a Go function returns one value per declared
result (the model's `BehOut.outs` is a list, which could be too short).
-/
namespace ArgMapper.C01
open ArgMapper

/-- the provenance ids of the values the caller of an operation supplied -/
def suppliedIds (cg : CG) : List Nat := cg.store.map (fun p => p.2.id)

/-- every body returns one id per declared output value -/
def BehFull (c : Ctx) (target : FuncDesc) : Prop :=
  (∀ n args, (c.beh target.id n args).outs.length = target.output.values.length) ∧
  ∀ k f, c.funcOf k = some f → ∀ n args, (c.beh f.id n args).outs.length = f.output.values.length

/-- all executions of the calls of a history, in order -/
def histLog (obs : List HistObs) : List ExecEv :=
  obs.flatMap (fun o => match o with | .call _ l => l | .redef _ => [])

/-- every memo cell on the function objects holds the result of an execution of the history -/
theorem memo_from_history (fuel : Nat) (ops : List HistOp) :
    ∀ p ∈ (runHist fuel {} ops).1.memo,
      ∃ ev ∈ histLog (runHist fuel {} ops).2, ev.fid = p.1 ∧ ev.res = p.2.res := by
  sorry

/-- one call, from any state of the function objects: an argument is a supplied value, an output of an
execution of this call, or an output held in a run-once cell at the start -/
theorem no_fabrication_call (c : Ctx) (cgr : CallGraphResult) (target : FuncDesc) (fuel : Nat) (h : HistState)
    (orc : List OrcItem) (hb : BehFull c target) :
    ∀ ev ∈ (histCall c cgr target fuel h orc).2.log, ∀ a ∈ ev.args,
      a.id ∈ suppliedIds cgr.cg ∨ (∃ p ∈ h.memo, a.id ∈ p.2.res.outs) ∨
      ∃ ev' ∈ (histCall c cgr target fuel h orc).2.log, a.id ∈ ev'.res.outs := by
  sorry

/-- **C01 over histories**: after any history `pre` (calls and Redefines, from fresh function objects),
every argument of every execution of a further call was supplied to that call or returned by an
execution of the history (this call included) -/
theorem no_fabrication_hist (fuel : Nat) (pre : List HistOp) (c : Ctx) (cgr : CallGraphResult) (target : FuncDesc)
    (orc : List OrcItem) (hb : BehFull c target) :
    ∀ ev ∈ (histCall c cgr target fuel (runHist fuel {} pre).1 orc).2.log, ∀ a ∈ ev.args,
      a.id ∈ suppliedIds cgr.cg ∨
      ∃ ev' ∈ histLog (runHist fuel {} pre).2 ++ (histCall c cgr target fuel (runHist fuel {} pre).1 orc).2.log,
        a.id ∈ ev'.res.outs := by
  sorry

end ArgMapper.C01
