import ArgMapper.Props.C08b
/-!
# C08 (continued) — the redefined function is callable

Property theorems only.  Same fragment as `succeeds_when_permitted` (converters with at most one input,
no subtype labels).  When the planning run of `Redefine` succeeded with declared inputs `ls` — for any
oracle — the call the redefined function makes (the original options plus one value of exactly the
declared type for every declared input) is never refused for lack of an argument: every parameter of
the target is found reachable when the graph is built (`callable_graph`), and, by C05's completeness on
this fragment, the call then executes the target or reports the error of a function body (`callable`).
-/
namespace ArgMapper.C08
open ArgMapper

/-- the options the redefined function adds: `Named(name, v)` for a named declared input, `Typed(v)` for a
type-only one, `v` a value of exactly the declared type with provenance `idOf l` -/
def withDeclared (b : Builder) (ls : List Label) (idOf : Label → Nat) : Builder :=
  ls.foldl (fun b l => setNamed b l.name (some { ty := l.ty, id := idOf l })) b

/-- **C08_callable (graph level)** -/
theorem callable_graph (e : TypeEnv) (ht : ImplTrans e)
    (b : Builder) (funcs : Nat → Option FuncDesc) (target : FuncDesc)
    (hc : C01.FuncsConsistent (C01.allFuncs b funcs target))
    (hsf : C05.SubtypeFree b (C01.allFuncs b funcs target))
    (hsi : C05.SingleInput (b.convs.filterMap funcs))
    (hwf : C05.SetsWF (b.convs.filterMap funcs))
    (htk : C05.TypedKeysOK b)
    (hkey : ∀ f ∈ b.convs.filterMap funcs, f.key ≠ target.key)
    (fin fout : Option Filter) (outCount : Nat → Nat) (fuel : Nat) (orc : List OrcItem) (ls : List Label)
    (hok : redefine (redefCtx e b funcs target fin outCount) (callGraph {} e b funcs target true fin) target fout fuel
            (initSt (callGraph {} e b funcs target true fin).cg [] orc) = .ok ls)
    (idOf : Label → Nat) :
    (callGraph {} e (withDeclared b ls idOf) funcs target false none).unsat = [] := by
  sorry

/-- **C08_callable** — the call made by the redefined function ends in success or in the error a function
body reported, for every oracle and every behaviour -/
theorem callable (e : TypeEnv) (ht : ImplTrans e)
    (b : Builder) (funcs : Nat → Option FuncDesc) (target : FuncDesc)
    (hc : C01.FuncsConsistent (C01.allFuncs b funcs target))
    (hsf : C05.SubtypeFree b (C01.allFuncs b funcs target))
    (hsi : C05.SingleInput (b.convs.filterMap funcs))
    (hwf : C05.SetsWF (b.convs.filterMap funcs))
    (htk : C05.TypedKeysOK b)
    (hkey : ∀ f ∈ b.convs.filterMap funcs, f.key ≠ target.key)
    (fin fout : Option Filter) (outCount : Nat → Nat) (fuel : Nat) (orc : List OrcItem) (ls : List Label)
    (hok : redefine (redefCtx e b funcs target fin outCount) (callGraph {} e b funcs target true fin) target fout fuel
            (initSt (callGraph {} e b funcs target true fin).cg [] orc) = .ok ls)
    (idOf : Label → Nat)
    (beh : Nat → Nat → List PVal → BehOut) (fuel' : Nat) (hfuel : 2 ≤ fuel') (memo : List (Nat × Memo)) (orc' : List OrcItem) :
    let b' := withDeclared b ls idOf
    let r := callWith (C01.stdCtx e b' funcs target beh) (callGraph {} e b' funcs target false none) target fuel'
              (initSt (callGraph {} e b' funcs target false none).cg memo orc')
    (∃ res, r.1 = .ok res) ∨ (∃ ε, r.1 = .convErr ε) ∨ (∃ ε res, r.1 = .targetErr ε res) ∨ (∃ w, r.1 = .badOracle w) := by
  sorry

end ArgMapper.C08
