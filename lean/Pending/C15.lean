import ArgMapper.Model.Sig
/-!
# C15 — value sets round-trip values faithfully
Property theorems only (helper lemmas in `ArgMapper/Proofs/Sig.lean`).

`NewValueSet` renders each value's labels into a struct tag and `newValueSetFromStruct` parses the
tag back.  `TagRoundTrips` states that this string round trip is faithful for the given labels
(true whenever names are identifiers and subtypes contain no comma; checked on the real parser by
the correspondence run, and for the concrete labels below by evaluation).
-/
namespace ArgMapper.C15
open ArgMapper

def TagRoundTrips (vs : List Label) : Prop :=
  ∀ i l, vs[i]? = some l → fieldLabel (valueField i l) = { l with name := lower l.name }

/-- **C15_values_roundtrip** — the set reports the values back, names lower-cased, in order -/
theorem values_roundtrip (vs : List Label) (ht : TagRoundTrips vs) :
    ∃ s, newValueSetOfValues vs = .ok s ∧ s.labels = vs.map (fun l => { l with name := lower l.name }) ∧
      s.values.map (·.index) = (List.range vs.length).map (· + 1) := by
  sorry

/-- **C15_lookup** — each named value is found by its name, each type-only value by its type (when
no later type-only value has the same type), and by type and subtype when no other value of the
set shares both -/
theorem lookup_named (vs : List Label) (ht : TagRoundTrips vs) (s : ValueSet)
    (hs : newValueSetOfValues vs = .ok s) (i : Nat) (l : Label) (hi : vs[i]? = some l) (hn : l.name ≠ "")
    (hlow : lower l.name ≠ "")
    (huniq : ∀ j l', vs[j]? = some l' → lower l'.name = lower l.name → j = i) :
    (s.namedLookup (lower l.name)).map (·.lab) = some { l with name := lower l.name } := by
  sorry

theorem lookup_typed (vs : List Label) (ht : TagRoundTrips vs) (s : ValueSet)
    (hs : newValueSetOfValues vs = .ok s) (i : Nat) (l : Label) (hi : vs[i]? = some l) (hn : l.name = "")
    (huniq : ∀ j l', vs[j]? = some l' → l'.name = "" → l'.ty = l.ty → j = i) :
    (s.typedLookup l.ty).map (·.lab) = some l := by
  sorry

theorem lookup_typed_sub (vs : List Label) (ht : TagRoundTrips vs) (s : ValueSet)
    (hs : newValueSetOfValues vs = .ok s) (i : Nat) (l : Label) (hi : vs[i]? = some l)
    (huniq : ∀ j l', vs[j]? = some l' → l'.ty = l.ty → l'.sub = l.sub → j = i) :
    (s.typedSubLookup l.ty l.sub).map (·.lab) = some { l with name := lower l.name } := by
  sorry

/-- **C15_signature_roundtrip** — loading the values a struct-form set renders as its signature
restores every value (indices of a set are pairwise distinct) -/
theorem signature_roundtrip (s : ValueSet) (hnd : (s.values.map (·.index)).Nodup)
    (vals : List (Option Nat)) (hl : vals.length = s.values.length) :
    s.roundTrip vals = vals := by
  sorry

/-- the rendered signature of a positional set whose types are pairwise distinct is the parameter
type list; with a repeated type the lifted branch indexes out of range (finding F1, repaired) -/
theorem signature_positional (ps : List Param) (hne : 2 ≤ ps.length) (hns : ∀ p ∈ ps, p.isStruct = false)
    (hd : (ps.map Param.ty).Nodup) (s : ValueSet) (hs : newValueSet ps = .ok s) :
    s.signature 0 = some (ps.map Param.ty) := by
  sorry

/-- non-vacuity of `TagRoundTrips` on labels with mixed case, a subtype containing `=`, and a
type-only value -/
example : TagRoundTrips [⟨"Port", 0, ""⟩, ⟨"", 1, "k=v"⟩, ⟨"xY", 2, "YQ=="⟩] := by
  sorry

end ArgMapper.C15
