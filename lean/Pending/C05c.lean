import ArgMapper.Props.C05b
import ArgMapper.Props.C06b
/-!
# C05 (continued) — completeness with the full label language, under legal oracles

Property theorems only.  `complete_single` and `complete_acyclic` are stated for the subtype-free fragment
and every oracle.  With subtypes (rules R6/R7) the walk can end without a value on a real path that is not
a shortest one (`WalkPanicCE.finalValue_needs_legal`), so the statements below are for every **legal**
oracle (each path is `choosePath` for a legal complete pop order) — which is what the real algorithm
produces, for every map iteration order and every tie-break.  Names, subtypes and interface types are all
in scope.
-/
namespace ArgMapper.C05
open ArgMapper

/-- **C05_complete_single (full label language, legal oracles)** — clause (a): every converter takes at most
one input value, arbitrary cycles. -/
theorem complete_single_legal (e : TypeEnv) (ht : ImplTrans e)
    (b : Builder) (funcs : Nat → Option FuncDesc) (target : FuncDesc)
    (hb : C03.BuilderOK b)
    (hc : C01.FuncsConsistent (C01.allFuncs b funcs target))
    (hsi : SingleInput (b.convs.filterMap funcs))
    (hwf : SetsWF (C01.allFuncs b funcs target))
    (hkey : ∀ f ∈ b.convs.filterMap funcs, f.key ≠ target.key)
    (hsmall : C03.SmallGraph (callGraph {} e b funcs target false none).cg.g)
    (hsat : (callGraph {} e b funcs target false none).unsat = [])
    (beh : Nat → Nat → List PVal → BehOut) (fuel : Nat)
    (hfuel : (C06.funcVerts (callGraph {} e b funcs target false none).cg.g).length + 1 ≤ fuel)
    (memo : List (Nat × Memo)) (orc : List OrcItem)
    (hleg : ∀ it ∈ orc, C03.LegalItem (callGraph {} e b funcs target false none).cg.g it) :
    let r := callWith (C01.stdCtx e b funcs target beh) (callGraph {} e b funcs target false none) target fuel
              (initSt (callGraph {} e b funcs target false none).cg memo orc)
    (∃ res, r.1 = .ok res) ∨ (∃ ε, r.1 = .convErr ε) ∨ (∃ ε res, r.1 = .targetErr ε res) ∨ (∃ w, r.1 = .badOracle w) := by
  sorry

/-- **C05_complete_acyclic (full label language, legal oracles)** — clause (b): any number of inputs, the pruned
graph acyclic, every surviving converter with all its requirement vertices in the graph. -/
theorem complete_acyclic_legal (e : TypeEnv) (ht : ImplTrans e)
    (b : Builder) (funcs : Nat → Option FuncDesc) (target : FuncDesc)
    (hb : C03.BuilderOK b)
    (hc : C01.FuncsConsistent (C01.allFuncs b funcs target))
    (hwf : SetsWF (C01.allFuncs b funcs target))
    (hkey : ∀ f ∈ b.convs.filterMap funcs, f.key ≠ target.key)
    (hsmall : C03.SmallGraph (callGraph {} e b funcs target false none).cg.g)
    (hsat : (callGraph {} e b funcs target false none).unsat = [])
    (hacyc : Acyclic (callGraph {} e b funcs target false none).cg.g)
    (hall : AllConvSat (callGraph {} e b funcs target false none).cg.g (b.convs.filterMap funcs))
    (beh : Nat → Nat → List PVal → BehOut) (fuel : Nat)
    (hfuel : (C06.funcVerts (callGraph {} e b funcs target false none).cg.g).length + 1 ≤ fuel)
    (memo : List (Nat × Memo)) (orc : List OrcItem)
    (hleg : ∀ it ∈ orc, C03.LegalItem (callGraph {} e b funcs target false none).cg.g it) :
    let r := callWith (C01.stdCtx e b funcs target beh) (callGraph {} e b funcs target false none) target fuel
              (initSt (callGraph {} e b funcs target false none).cg memo orc)
    (∃ res, r.1 = .ok res) ∨ (∃ ε, r.1 = .convErr ε) ∨ (∃ ε res, r.1 = .targetErr ε res) ∨ (∃ w, r.1 = .badOracle w) := by
  sorry

end ArgMapper.C05
