import ArgMapper.Props.C01b
/-!
# C02 — unsatisfiable calls are refused: the target never runs

Property theorems only (helper lemmas in `ArgMapper/Proofs/Refused.lean`).  The graph-level half
(a hopeless parameter is reported by `callGraph` before anything runs) is `C13.hopeless_reported`;
this file is the execution-level half: whatever the oracle does, a target with an underivable
parameter is never executed, and no function is executed with a missing argument.
-/
namespace ArgMapper.C02
open ArgMapper

/-- labels of the supplied values -/
def suppliedLabels (b : Builder) : List Label :=
  b.named.map (fun p => { name := p.1, ty := p.2.ty, sub := "" }) ++
  b.namedSub.map (fun p => { name := p.1.1, ty := p.2.ty, sub := p.1.2 }) ++
  b.typed.map (fun p => { name := "", ty := p.1, sub := "" }) ++
  b.typedSub.map (fun p => { name := "", ty := p.1.1, sub := p.1.2 })

/-- a parameter no derivable label is compatible with (derivability under the matching table) -/
def Underivable (e : TypeEnv) (b : Builder) (convs : List FuncDesc) (p : Label) : Prop :=
  ∀ o, Deriv e (suppliedLabels b) convs o → compatB e p o = false

/-- **C02_refused** — if some parameter of the target is underivable, then for every behaviour, oracle
and fuel: the target is not executed and the call does not succeed; every function that *is*
executed received a full argument list (`C01.injection_sound`). -/
theorem refused (e : TypeEnv) (ht : ImplTrans e) (ha : ImplAntisym e)
    (b : Builder) (funcs : Nat → Option FuncDesc) (target : FuncDesc)
    (hc : C01.FuncsConsistent (C01.allFuncs b funcs target))
    (hid : ∀ f ∈ C01.allFuncs b funcs target, f.id = target.id → f = target)
    (p : Label) (hp : p ∈ target.input.labels)
    (hu : Underivable e b (b.convs.filterMap funcs) p)
    (beh : Nat → Nat → List PVal → BehOut) (fuel : Nat) (orc : List OrcItem) :
    -- no run-once result memoised by an earlier call (such a result is available without its inputs)
    let r := callWith (C01.stdCtx e b funcs target beh) (callGraph {} e b funcs target false none) target fuel
              (initSt (callGraph {} e b funcs target false none).cg [] orc)
    (∀ ev ∈ r.2.log, ev.fid ≠ target.id) ∧ (∀ res, r.1 ≠ .ok res) := by
  sorry

end ArgMapper.C02
