import ArgMapper.Props.C01b
import ArgMapper.Props.C06
/-!
# C05 — conversion chaining is complete on well-behaved converter sets (subtype-free fragment)

Property theorems only (helper lemmas in `ArgMapper/Proofs/Complete.lean`).

Clause (a) of the property — every converter takes at most one input value, arbitrary cycles — is
proved here for the **subtype-free fragment** (no label carries a subtype; names, interfaces, all
function forms, providers and cycles are allowed) and for **every oracle**: once `callGraph` has
found every parameter reachable (its unsatisfied list is empty), `Call` executes the target — unless a
function body reports an error — whatever requirement order and whatever root-first real paths are
chosen.  Outcome stability on such sets is a corollary: the outcome *class* does not depend on the
oracle.  What is not covered: subtypes (rules R6/R7 make the walk depend on the path being shortest)
and clause (b) (multi-input acyclic sets need the nested searches to succeed); both are decided by the
correspondence run against the real code.
-/
namespace ArgMapper.C05
open ArgMapper

/-- no label of the scenario carries a subtype -/
def SubtypeFree (b : Builder) (fs : List FuncDesc) : Prop :=
  b.namedSub = [] ∧ b.typedSub = [] ∧
  ∀ f ∈ fs, (∀ l ∈ f.input.labels, l.sub = "") ∧ (∀ l ∈ f.output.labels, l.sub = "")

/-- every converter takes at most one input value -/
def SingleInput (fs : List FuncDesc) : Prop := ∀ f ∈ fs, f.input.values.length ≤ 1

/-- supplied values have the type they are keyed under (true of every builder `build` returns) -/
def TypedKeysOK (b : Builder) : Prop := ∀ p ∈ b.typed, p.1 = p.2.ty

/-- **C05_complete_single (subtype-free)** — single-input converters (cycles allowed), no subtypes, no
converter of the target's own Go type, every parameter found reachable by `callGraph`: for every
behaviour, every oracle and fuel ≥ 2 the call ends in success or in the error a function body
reported — never in an unsatisfied-argument error, a missing argument, a panic or exhausted fuel
(`badOracle` = the oracle does not fit the scenario, excluded from the real code by construction). -/
theorem complete_single (e : TypeEnv) (ht : ImplTrans e)
    (b : Builder) (funcs : Nat → Option FuncDesc) (target : FuncDesc)
    (hc : C01.FuncsConsistent (C01.allFuncs b funcs target))
    (hsf : SubtypeFree b (C01.allFuncs b funcs target)) (hsi : SingleInput (b.convs.filterMap funcs))
    (htk : TypedKeysOK b)
    (hkey : ∀ f ∈ b.convs.filterMap funcs, f.key ≠ target.key)
    (hsat : (callGraph {} e b funcs target false none).unsat = [])
    (beh : Nat → Nat → List PVal → BehOut) (fuel : Nat) (hfuel : 2 ≤ fuel)
    (memo : List (Nat × Memo)) (orc : List OrcItem) :
    let r := callWith (C01.stdCtx e b funcs target beh) (callGraph {} e b funcs target false none) target fuel
              (initSt (callGraph {} e b funcs target false none).cg memo orc)
    (∃ res, r.1 = .ok res) ∨ (∃ ε, r.1 = .convErr ε) ∨ (∃ ε res, r.1 = .targetErr ε res) ∨ (∃ w, r.1 = .badOracle w) := by
  sorry

/-- **C05_stable** — on such sets, as long as no function reports an error, two runs that differ only in
their oracles (map iteration orders, tie-breaking) both succeed -/
theorem stable (e : TypeEnv) (ht : ImplTrans e)
    (b : Builder) (funcs : Nat → Option FuncDesc) (target : FuncDesc)
    (hc : C01.FuncsConsistent (C01.allFuncs b funcs target))
    (hsf : SubtypeFree b (C01.allFuncs b funcs target)) (hsi : SingleInput (b.convs.filterMap funcs))
    (htk : TypedKeysOK b)
    (hkey : ∀ f ∈ b.convs.filterMap funcs, f.key ≠ target.key)
    (hsat : (callGraph {} e b funcs target false none).unsat = [])
    (beh : Nat → Nat → List PVal → BehOut) (hne : ∀ f n a, (beh f n a).err = none)
    (fuel : Nat) (hfuel : 2 ≤ fuel) (orc₁ orc₂ : List OrcItem) :
    let run := fun orc => (callWith (C01.stdCtx e b funcs target beh) (callGraph {} e b funcs target false none) target fuel
              (initSt (callGraph {} e b funcs target false none).cg [] orc)).1
    (∀ w, run orc₁ ≠ .badOracle w) → (∀ w, run orc₂ ≠ .badOracle w) →
      (∃ r₁, run orc₁ = .ok r₁) ∧ (∃ r₂, run orc₂ = .ok r₂) := by
  sorry

end ArgMapper.C05
