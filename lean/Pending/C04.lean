import ArgMapper.Model.Reach
/-!
# C04 — a failing converter aborts the call and its error is returned verbatim

Property theorems only (helper lemmas in `ArgMapper/Proofs/ErrorProp.lean`).  The statements hold
for every graph, every oracle (legal or not), every behaviour and every fuel: they depend on nothing
about path choice.
-/
namespace ArgMapper.C04
open ArgMapper

/-- **C04_error_propagation (i)** — if an execution during the call returned a non-nil error `ε`,
that execution is the last one of the call (nothing — no converter, not the target — ran after
it) and `Call` returns exactly `ε`: as the converter's error, or as the target's own final error
when the failing function is the target. -/
theorem failing_execution_is_last (c : Ctx) (cgr : CallGraphResult) (target : FuncDesc) (fuel : Nat)
    (s0 : CallSt) (hl : s0.log = []) (ev : ExecEv) (ε : Nat)
    (hev : ev ∈ (callWith c cgr target fuel s0).2.log) (herr : ev.res.err = some ε) :
    (callWith c cgr target fuel s0).2.log.getLast? = some ev ∧
    ((callWith c cgr target fuel s0).1 = .convErr ε ∨
     ∃ r, (callWith c cgr target fuel s0).1 = .targetErr ε r) := by
  sorry

/-- **(ii)** — a call whose result carries no error executed no failing function -/
theorem ok_means_no_failure (c : Ctx) (cgr : CallGraphResult) (target : FuncDesc) (fuel : Nat)
    (s0 : CallSt) (hl : s0.log = []) (r : BehOut)
    (hok : (callWith c cgr target fuel s0).1 = .ok r) :
    r.err = none ∧ ∀ ev ∈ (callWith c cgr target fuel s0).2.log, ev.res.err = none := by
  sorry

/-- **(iii)** — an error returned by the target itself is what the result reports -/
theorem target_error_reported (c : Ctx) (cgr : CallGraphResult) (target : FuncDesc) (fuel : Nat)
    (s0 : CallSt) (ε : Nat) (r : BehOut)
    (h : (callWith c cgr target fuel s0).1 = .targetErr ε r) : r.err = some ε := by
  sorry

/-- a converter error is never turned into anything else: when `Call` reports a converter error,
either the last execution of this call produced it, or it is the memoised error of a run-once
function that failed in an earlier call -/
theorem conv_error_verbatim (c : Ctx) (cgr : CallGraphResult) (target : FuncDesc) (fuel : Nat)
    (s0 : CallSt) (hl : s0.log = []) (ε : Nat)
    (h : (callWith c cgr target fuel s0).1 = .convErr ε) :
    (∃ ev, (callWith c cgr target fuel s0).2.log.getLast? = some ev ∧ ev.res.err = some ε) ∨
    (∃ m ∈ s0.memo, m.2.res.err = some ε) := by
  sorry

end ArgMapper.C04
