import ArgMapper.Model.Reach
/-!
# C11 (sequential) — a run-once function executes at most once; later uses see that result

Property theorems only (helper lemmas in `ArgMapper/Proofs/Once.lean`).

A history is any sequence of calls — any targets, graphs, behaviours, oracles, fuels — on shared
function objects: the run-once memo cells and the execution counters are threaded from one call to
the next, exactly as the real `Func` objects carry them.  (`Redefine` keeps none of the state of its
planning run — `redefine` returns only an outcome — so interleaved `Redefine`s do not appear.)
-/
namespace ArgMapper.C11
open ArgMapper

structure CallOp where
  c : Ctx
  cgr : CallGraphResult
  target : FuncDesc
  fuel : Nat
  orc : List OrcItem

structure HistSt where
  memo : List (Nat × Memo)
  count : List (Nat × Nat)
  log : List ExecEv

def stepCall (h : HistSt) (op : CallOp) : HistSt :=
  { memo := (callWith op.c op.cgr op.target op.fuel { initSt op.cgr.cg h.memo op.orc with count := h.count }).2.memo,
    count := (callWith op.c op.cgr op.target op.fuel { initSt op.cgr.cg h.memo op.orc with count := h.count }).2.count,
    log := h.log ++ (callWith op.c op.cgr op.target op.fuel { initSt op.cgr.cg h.memo op.orc with count := h.count }).2.log }

def runHistory (ops : List CallOp) : HistSt := ops.foldl stepCall { memo := [], count := [], log := [] }

/-- every function object with id `fid` that some call of the history could execute is run-once -/
def OnceEverywhere (ops : List CallOp) (fid : Nat) : Prop :=
  ∀ op ∈ ops, (op.target.id = fid → op.target.once = true) ∧
    ∀ k f, op.c.funcOf k = some f → f.id = fid → f.once = true

/-- **C11_once_sequential (at most once)** — over any history, the body of a run-once function is
invoked at most once -/
theorem once_at_most_once (ops : List CallOp) (fid : Nat) (h : OnceEverywhere ops fid) :
    ((runHistory ops).log.filter (fun e => e.fid == fid)).length ≤ 1 := by
  sorry

/-- **C11_once_sequential (first result kept)** — once it has executed, its memo cell holds the result
of that execution for the rest of the history -/
theorem first_result_kept (ops : List CallOp) (fid : Nat) (h : OnceEverywhere ops fid) (ev : ExecEv)
    (hev : ev ∈ (runHistory ops).log) (hf : ev.fid = fid) :
    ∃ m, mapGet (runHistory ops).memo fid = some m ∧ m.res = ev.res := by
  sorry

/-- … and every use served from the memo returns exactly that result (outputs or error) without
executing anything -/
theorem memo_hit (c : Ctx) (f : FuncDesc) (am : ArgMap) (s : CallSt) (m : Memo) (hf : f.once = true)
    (hm : mapGet s.memo f.id = some m) :
    callDirect c f am s = (.ok (m.res, m.unwrapped), s) := by
  sorry

/-- with the memoised slice copied before unwrapping (repair of F15) a memoised pointer-struct result
can be reused: `outputValues` never panics -/
theorem reuse_never_panics (c : Ctx) (hc : c.memoCopy = true) (f : FuncDesc) (r : BehOut) (unw : Bool) (s : CallSt) :
    ∃ s', outputValues c f r unw s = .ok s' := by
  sorry

/-- before that repair it did panic on the second use (finding F15) -/
def cexFunc : FuncDesc :=
  { id := 1, key := 1, input := ValueSet.nil,
    output := { hasStruct := true, ptrs := 1, values := [⟨⟨"", 2, ""⟩, 1⟩], named := [],
                typed := [(2, ⟨⟨"", 2, ""⟩, 1⟩)], lifted := false },
    hasErr := false, once := true }

def cexCtx : Ctx :=
  { env := ⟨fun _ => false, fun _ _ => false⟩, g := AGraph.empty, funcOf := fun _ => none,
    beh := fun _ _ _ => ⟨[7], none⟩, memoCopy := false }

theorem counterexample_ptr_result :
    (match outputValues cexCtx cexFunc ⟨[7], none⟩ true
        { store := [], last := none, inputSet := [], memo := [], log := [], count := [], orc := [] } with
      | .error (.panic .elemOnStruct) => true
      | _ => false) = true := by
  sorry

end ArgMapper.C11
