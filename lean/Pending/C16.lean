import ArgMapper.Model.Args
/-!
# C16 — options: case-insensitive names, last wins, call overrides default, nil-safe
Property theorems only (helper lemmas in `ArgMapper/Proofs/Args.lean`).
-/
namespace ArgMapper.C16
open ArgMapper

/-- the key of the four option maps -/
inductive Key
  | named (n : String)
  | namedSub (n st : String)
  | typed (t : Nat)
  | typedSub (t : Nat) (st : String)
deriving DecidableEq, Repr

def Builder.get (b : Builder) : Key → Option Val
  | .named n => mapGet b.named n
  | .namedSub n st => mapGet b.namedSub (n, st)
  | .typed t => mapGet b.typed t
  | .typedSub t st => mapGet b.typedSub (t, st)

/-- what a value writes, after the `""`-name / `""`-subtype redirections of `args.go` -/
def keyOf (n st : String) (v : Val) : Key :=
  if n = "" then (if st = "" then .typed v.ty else .typedSub v.ty st)
  else if st = "" then .named (lower n) else .namedSub (lower n) st

/-- the writes an option performs, in order (nil values write nothing) -/
def writes : Opt → List (Key × Val)
  | .named n (some v) => [(keyOf n "" v, v)]
  | .namedSub n (some v) st => [(keyOf n st v, v)]
  | .typed vs => vs.filterMap (fun o => o.map (fun v => (Key.typed v.ty, v)))
  | .typedSub (some v) st => [(keyOf "" st v, v)]
  | _ => []

/-- the last write to `k` in a list of writes -/
def lastWrite (ws : List (Key × Val)) (k : Key) : Option Val :=
  (ws.reverse.find? (fun w => decide (w.1 = k))).map (·.2)

/-- **C16_last_wins** — after applying any option list to any builder, each key holds the value of
the last option that wrote it, and keys nobody wrote keep what the builder had. -/
theorem last_wins (b : Builder) (opts : List Opt) (k : Key) :
    Builder.get (opts.foldl applyOpt b) k =
      match lastWrite (opts.flatMap writes) k with
      | some v => some v
      | none => Builder.get b k := by
  sorry

/-- `build` is that fold unless a nil option is present -/
theorem build_ok (opts : List Opt) (hn : Opt.nilOpt ∉ opts) :
    build opts = (if (opts.foldl applyOpt Builder.empty).errs = 0
      then .ok (opts.foldl applyOpt Builder.empty) else .optErr (opts.foldl applyOpt Builder.empty)) := by
  sorry

/-- **C16_nil** — a nil option yields the dedicated error (no builder); nil values write nothing. -/
theorem nil_option (defaults opts : List Opt) (h : Opt.nilOpt ∈ defaults ++ opts) :
    buildFor defaults opts = .nilArg := by
  sorry

theorem nil_value_ignored (b : Builder) (n st : String) :
    applyOpt b (.named n none) = b ∧ applyOpt b (.namedSub n none st) = b ∧
    applyOpt b (.typedSub none st) = b ∧ applyOpt b (.typed [none]) = b := by
  sorry

/-- **C16_case** — names are matched through `lower`: any two spellings with the same lower-casing
are the same option. -/
theorem case_insensitive (b : Builder) (n n' : String) (v : Option Val) (st : String)
    (h : lower n = lower n') :
    applyOpt b (.named n v) = applyOpt b (.named n' v) ∧
    applyOpt b (.namedSub n v st) = applyOpt b (.namedSub n' v st) := by
  sorry

theorem lower_idem (s : String) : lower (lower s) = lower s := by
  sorry

/-- **C16_call_overrides_default** — a key written at `Call` holds the call's value; a key written
only by a default keeps the default. -/
theorem call_overrides_default (defaults opts : List Opt) (k : Key) :
    Builder.get ((defaults ++ opts).foldl applyOpt Builder.empty) k =
      match lastWrite (opts.flatMap writes) k with
      | some v => some v
      | none => lastWrite (defaults.flatMap writes) k := by
  sorry

/-- **C16_permutation** — permuting options that write pairwise distinct keys leaves all four maps
unchanged (as finite maps). -/
theorem permutation (opts opts' : List Opt) (hp : opts.Perm opts')
    (hd : ((opts.flatMap writes).map (·.1)).Nodup) (k : Key) :
    Builder.get (opts.foldl applyOpt Builder.empty) k = Builder.get (opts'.foldl applyOpt Builder.empty) k := by
  sorry

/-- non-vacuity -/
example : Builder.get ([Opt.named "Port" (some ⟨0, 1⟩), .typed [some ⟨1, 2⟩], .named "PORT" (some ⟨0, 3⟩)].foldl
    applyOpt Builder.empty) (.named "port") = some ⟨0, 3⟩ := by
  sorry

end ArgMapper.C16
