import ArgMapper.Model.Graph
import ArgMapper.Model.GraphImpl
import ArgMapper.Model.Dijkstra
import ArgMapper.Model.Traverse
import ArgMapper.Spec.GraphSpec
import ArgMapper.Generated.Consts
import ArgMapper.Driver.Util
import ArgMapper.Driver.GraphD
