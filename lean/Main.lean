import ArgMapper.Driver.GraphD
import ArgMapper.Driver.SigD
import ArgMapper.Driver.CallD
import ArgMapper.Driver.RedefD
import ArgMapper.Driver.HistD
open ArgMapper.Driver

/-- model configuration flags passed on the command line (`key=value`) -/
structure Cfg where
  fixedReverse : Bool := true
  vsetValidates : Bool := true
  fl : Flags := {}

def dispatch (cfg : Cfg) (b : Block) : String :=
  match b.kind with
  | "gops" => (runGops b cfg.fixedReverse).line b.kind b.id "C19"
  | "dij" => (runDij b).line b.kind b.id "C18"
  | "dijconc" => (runDijConc b).line b.kind b.id "C18"
  | "dfs" => (runDfs b).line b.kind b.id "C20"
  | "kahn" => (runKahn b).line b.kind b.id "C20"
  | "scc" => (runScc b).line b.kind b.id "C20"
  | "topo" => (runTopo b).line b.kind b.id "C20"
  | "call" => (runCall cfg.fl b).line b.kind b.id ""
  | "conv" => (runCall cfg.fl b true).line b.kind b.id ""
  | "race" => (runRace b).line b.kind b.id ""
  | "redefgen" => (runRedefGen b).line b.kind b.id "C09"
  | "convseq" => (runConvSeq b).line b.kind b.id "C10"
  | "hist" => (runHist cfg.fl b).line b.kind b.id ""
  | "alias" => (runAlias b).line b.kind b.id "C08"
  | "probe" => (runProbe b).line b.kind b.id ""
  | "redef" => (runRedef cfg.fl b).line b.kind b.id ""
  | "sig" => (runSig b).line b.kind b.id "C14"
  | "vset" => (runVset b cfg.vsetValidates).line b.kind b.id "C15"
  | "opts" => (runOpts b).line b.kind b.id "C16"
  | "result" => (runResult b).line b.kind b.id "C17"
  | k => s!"res {k} {b.id} conform=DIVERGE:unknown_kind prop=na"

def mkCfg (args : List String) : Cfg :=
  let off (k : String) : Bool := args.contains (k ++ "=false")
  let on (k : String) : Bool := args.contains (k ++ "=true")
  let v : ArgMapper.Variant := ⟨!(off "r5SkipSame"), !(off "r6NameTest"), !(off "r8SkipSupplied")⟩
  let fl : Flags := ⟨v, !(off "memoCopy"), !(off "publishAfterUpdate"), !(off "trackReaching"),
    !(off "takeValuedNamed"), on "skipRecordsInput", !(off "dupIsError"), !(off "hopCopies")⟩
  ⟨!(off "fixedReverse"), !(off "vsetValidates"), fl⟩

partial def readAll (h : IO.FS.Stream) (acc : Array String) : IO (Array String) := do
  let line ← h.getLine
  if line.isEmpty then return acc
  readAll h (acc.push ((line.dropEndWhile (fun c => c == (Char.ofNat 10) || c == (Char.ofNat 13))).toString))

def main (args : List String) : IO Unit := do
  let cfg := mkCfg args
  let stdin ← IO.getStdin
  let lines ← readAll stdin #[]
  let out ← IO.getStdout
  for b in parseBlocks lines.toList do
    out.putStrLn (dispatch cfg b)
