module verifharness

go 1.14

require github.com/hashicorp/go-argmapper v0.0.0

replace github.com/hashicorp/go-argmapper => /repo
