module verifharness

go 1.14

require (
	github.com/hashicorp/go-argmapper v0.0.0
	github.com/hashicorp/go-hclog v0.14.0
	github.com/hashicorp/go-multierror v1.1.0
)

replace github.com/hashicorp/go-argmapper => /repo
