package main

// Families for Redefine (C08, C09), Convert (C10) and call histories on shared functions (C09, C11).

import (
	"bufio"
	"fmt"
	"reflect"
	"strings"

	am "github.com/hashicorp/go-argmapper"
)

// filterSpec is a set of accepted types, rendered with FilterType / FilterOr / FilterAnd.
type filterSpec struct {
	tys  []int
	nest int // 0: FilterOr(types…), 1: FilterAnd(FilterOr(types…), FilterOr(types…)), 2: FilterOr(FilterAnd(t), …), 3: FilterOr(types…, FilterAnd()), 4: FilterAnd(FilterOr(types…), FilterOr())
}

func (f *filterSpec) mk() am.FilterFunc {
	var fs []am.FilterFunc
	for _, t := range f.tys {
		fs = append(fs, am.FilterType(tyOf(t)))
	}
	switch f.nest {
	case 1:
		return am.FilterAnd(am.FilterOr(fs...), am.FilterOr(fs...))
	case 2:
		var gs []am.FilterFunc
		for _, x := range fs {
			gs = append(gs, am.FilterAnd(x))
		}
		return am.FilterOr(gs...)
	case 3: // an empty conjunction among the alternatives: admits everything
		return am.FilterOr(append(fs, am.FilterAnd())...)
	case 4: // an empty disjunction as a conjunct: admits nothing
		return am.FilterAnd(am.FilterOr(fs...), am.FilterOr())
	}
	return am.FilterOr(fs...)
}

func (f *filterSpec) String() string {
	if f == nil {
		return "none"
	}
	var s []string
	for _, t := range f.tys {
		s = append(s, fmt.Sprint(t))
	}
	if len(s) == 0 {
		return "empty"
	}
	return strings.Join(s, ",")
}

// genRedefScenario: single-input converters, no subtypes, each name bound to one type.
func genRedefScenario(r *rng) (*scenario, *filterSpec, *filterSpec) {
	sc := &scenario{errOwner: map[int]int{}}
	// K0–K5, and a defined slice type next to its unnamed underlying type (distinct, but assignable to one another:
	// a filter admitting one must not admit the other)
	types := []int{0, 1, 2, 3, 4, 5, tyL0, tyLU}
	nameTy := map[string]int{"a": types[r.intn(len(types))], "b": types[r.intn(len(types))], "c": types[r.intn(len(types))]}
	// one scenario in four carries subtype labels (outside C08's premise; Redefine must still return)
	sc.Subs = r.chance(1, 4)
	sub := func() string {
		if sc.Subs && r.chance(1, 2) {
			return []string{"x", "y"}[r.intn(2)]
		}
		return ""
	}
	mkLab := func() lab {
		if r.chance(1, 2) {
			n := []string{"a", "b", "c"}[r.intn(3)]
			return lab{Name: n, Ty: nameTy[n], Sub: sub()}
		}
		return lab{Ty: types[r.intn(len(types))], Sub: sub()}
	}
	distinct := func(n int) []lab {
		var out []lab
		seenN, seenT := map[string]bool{}, map[int]bool{}
		for tries := 0; len(out) < n && tries < 20; tries++ {
			l := mkLab()
			if l.Name != "" {
				if seenN[l.Name] {
					continue
				}
				seenN[l.Name] = true
			} else {
				if seenT[l.Ty] {
					continue
				}
				seenT[l.Ty] = true
			}
			out = append(out, l)
		}
		return out
	}
	c := cfgGeneral
	tIns := distinct(1 + r.intn(3))
	target := &fnSpec{ID: 0, Ins: tIns, Script: "ok", OForm: "pos", HasErr: r.chance(1, 2)}
	target.Form = formFor(r, c, tIns)
	nOut := r.intn(3)
	// one scenario in ten: a target without any result, reached only through converters (the input filter admits the
	// far ends of the chains only), the converter next to the target failing when the redefined function is called
	forced := !sc.Subs && r.chance(1, 10)
	noFin := false
	var farEnds []int
	if forced {
		nOut, target.HasErr = 0, false
	}
	for i := 0; i < nOut; i++ {
		target.Outs = append(target.Outs, lab{Ty: (i*2 + r.intn(2)) % 6})
		target.Dyn = append(target.Dyn, -1)
	}
	if nOut > 0 && r.chance(1, 3) {
		// results as a struct, by value or through a pointer: the redefined function has the same result types
		target.OForm = []string{"struct", "ptr"}[r.intn(2)]
	}
	sc.Funcs = append(sc.Funcs, target)
	// chains of single-input converters leading to the target's requirements
	var convIDs []int
	vid := 0
	for _, l := range tIns {
		cur := l
		depth := r.intn(5)
		if forced && depth == 0 {
			depth = 1
		}
		first := true
		for d := 0; d < depth && len(sc.Funcs) < 9; d++ {
			src := mkLab()
			if src == cur {
				continue
			}
			f := c.newConv(r, sc, []lab{cur}, []lab{src})
			f.Script, f.Once = "ok", r.chance(1, 8)
			pf := 6
			if nOut == 0 && !target.HasErr {
				pf = 2 // a target without results: the redefined function has an error result of its own to report this through
			}
			if forced && first {
				pf = 1
			}
			first = false
			if r.chance(1, pf) {
				// fails the first time its body runs: the planning run never runs it, the call of the redefined
				// function does and must report exactly this error
				f.Script, f.HasErr = "fail@0", true
			}
			convIDs = append(convIDs, f.ID)
			if r.chance(1, 4) && len(sc.Funcs) < 9 { // bidirectional pair
				g := c.newConv(r, sc, []lab{src}, []lab{cur})
				g.Script, g.Once = "ok", false
				convIDs = append(convIDs, g.ID)
			}
			cur = src
		}
		if cur != l {
			farEnds = append(farEnds, cur.Ty)
		}
		if !forced && r.chance(1, 3) {
			sc.Opts = append(sc.Opts, sc.supplyFor(r, c, cur, &vid, true))
			sc.Opts[len(sc.Opts)-1].Ty = cur.Ty
			if cur.Ty <= 5 && r.chance(1, 4) {
				sc.Opts[len(sc.Opts)-1].Vid = 0 // the zero value of its type: supplied all the same
			}
		}
	}
	if r.chance(1, 3) {
		d := mkLab()
		sc.Opts = append(sc.Opts, sc.supplyFor(r, c, d, &vid, true))
		sc.Opts[len(sc.Opts)-1].Ty = d.Ty
	}
	// one scenario in eight: a value is supplied under the name of a parameter but with another type, next to a
	// converter from that type. The parameter stays an input of the redefined function (outside C08's premise of one
	// type per name), and the value it is then called with must win over the option given to Redefine.
	if !sc.Subs && !forced && r.chance(1, 6) {
		for _, l := range tIns {
			if l.Name == "" || l.Ty >= tyL0 {
				continue
			}
			t2 := (l.Ty + 1 + r.intn(5)) % 6
			vid++
			sc.Opts = append(sc.Opts, optSpecC{Kind: "named", Name: l.Name, Ty: t2, Vid: vid})
			src := lab{Ty: t2}
			if r.chance(1, 2) {
				// the value carries a subtype and the converter takes it by name: with the name discount the way through
				// the converter is the cheapest one even when planning (no user body may run for that)
				sc.Opts[len(sc.Opts)-1].Kind, sc.Opts[len(sc.Opts)-1].Sub = "namedsub", "x"
				src = lab{Name: l.Name, Ty: t2}
				noFin = r.chance(2, 3)
			}
			f := c.newConv(r, sc, []lab{{Ty: l.Ty}}, []lab{src})
			if src.Name != "" && r.chance(1, 2) {
				f.Outs = []lab{{Name: l.Name, Ty: l.Ty}}
				f.OForm = []string{"struct", "ptr"}[r.intn(2)]
			}
			f.Script, f.Once = "ok", r.chance(1, 3)
			convIDs = append(convIDs, f.ID)
			sc.Collide = true
			break
		}
	}
	for _, id := range convIDs {
		kind := "conv"
		if sc.Funcs[id].Once || sc.Funcs[id].Form == "built" || r.chance(1, 2) {
			kind = "convfunc"
		}
		sc.Opts = append(sc.Opts, optSpecC{Kind: kind, Fids: []int{id}})
	}
	p := r.perm(len(sc.Opts))
	shuf := make([]optSpecC, len(sc.Opts))
	for i, j := range p {
		shuf[i] = sc.Opts[j]
	}
	sc.Opts = shuf
	// now and then a prefix of the options is given to NewFunc as defaults: Redefine must take them into account
	if r.chance(1, 3) && len(sc.Opts) > 0 {
		sc.Defaults = r.intn(len(sc.Opts) + 1)
	}
	var fin, fout *filterSpec
	if r.chance(5, 6) {
		fin = &filterSpec{nest: []int{0, 1, 2, 0, 1, 2, 0, 1, 2, 3, 4}[r.intn(11)]}
		for _, t := range types {
			if r.chance(1, 2) {
				fin.tys = append(fin.tys, t)
			}
		}
		if r.chance(1, 12) {
			fin.tys = nil // FilterOr(): admits nothing
		}
		if r.chance(1, 3) { // make sure the parameters themselves are permitted
			for _, l := range tIns {
				fin.tys = append(fin.tys, l.Ty)
			}
		}
	}
	if forced && len(farEnds) > 0 {
		fin = &filterSpec{nest: r.intn(3), tys: farEnds}
	}
	if noFin {
		fin = nil
	}
	if r.chance(1, 3) {
		fout = &filterSpec{nest: []int{0, 0, 0, 1, 2, 3, 4}[r.intn(7)]}
		for _, t := range types {
			if r.chance(2, 3) {
				fout.tys = append(fout.tys, t)
			}
		}
		if r.chance(1, 12) {
			fout.tys = nil
		}
	}
	return sc, fin, fout
}

// callArgs renders the scenario's call options (with the capturing logger).
func (sc *scenario) callArgs(withLogger bool) []am.Arg {
	var args []am.Arg
	if withLogger {
		args = append(args, am.Logger(capLogger{sc}))
	}
	var idx []int
	for i := sc.Defaults; i < len(sc.Opts); i++ {
		idx = append(idx, i)
	}
	return append(args, sc.argsOf(idx)...)
}

// redefineOnce runs Funcs[0].Redefine and returns the protocol lines plus the new function.
func (sc *scenario) redefineOnce(fin, fout *filterSpec) ([]string, *am.Func) {
	sc.events, sc.pops = nil, nil
	args := sc.callArgs(true)
	// a filter option replaces any filter set before it, also when it is nil ("no filter"): one Redefine in four first sets
	// filters that admit nothing and then the scenario's own (or nil)
	junk := (len(sc.Opts)+len(sc.Funcs))%4 == 0
	if junk {
		args = append(args, am.FilterInput(am.FilterOr()), am.FilterOutput(am.FilterOr()))
	}
	if fin != nil {
		args = append(args, am.FilterInput(fin.mk()))
	} else if junk {
		args = append(args, am.FilterInput(nil))
	}
	if fout != nil {
		args = append(args, am.FilterOutput(fout.mk()))
	} else if junk {
		args = append(args, am.FilterOutput(nil))
	}
	am.VerifSetPopHook(func(h interface{}) { sc.pops = append(sc.pops, sc.hashName(h)) })
	defer am.VerifSetPopHook(nil)
	var nf *am.Func
	var err error
	var pan interface{}
	setsBefore := sc.vsetsSnapshot()
	func() {
		defer func() { pan = recover() }()
		nf, err = sc.Funcs[0].fn.Redefine(args...)
	}()
	lines := append([]string(nil), sc.events...)
	// the value sets of the target and of every converter object must be what they were: Redefine plans with copies
	sets := "intact"
	for i, a := range sc.vsetsSnapshot() {
		if i < len(setsBefore) && a != setsBefore[i] {
			sets = fmt.Sprintf("changed_f%d", i)
			break
		}
	}
	lines = append(lines, "rdsets "+sets)
	switch {
	case pan != nil:
		lines = append(lines, "rdres panic "+classifyPanic(pan))
		return lines, nil
	case err != nil:
		cls := sc.classifyErr(err)
		if strings.Contains(err.Error(), "does not satisfy output filter") {
			cls = "outfilter"
		}
		lines = append(lines, "rdres err "+cls)
		return lines, nil
	}
	var ls []string
	for _, v := range nf.Input().Values() {
		ls = append(ls, labelStr(v))
	}
	sortStrings(ls)
	lines = append(lines, "rdres ok inputs="+strings.Join(ls, ","))
	return lines, nf
}

// plainFuncs: no run-once function and no scripted failure: a call leaves nothing behind on the function objects
func plainFuncs(sc *scenario) bool {
	for _, f := range sc.Funcs {
		if f.Once || (f.Script != "ok" && f.Script != "") {
			return false
		}
	}
	return true
}

// vsetsSnapshot renders, per function object, the values its input and output sets currently hold.
func (sc *scenario) vsetsSnapshot() []string {
	var out []string
	for _, f := range sc.Funcs {
		var b strings.Builder
		func() {
			defer func() {
				if recover() != nil {
					b.WriteString("!")
				}
			}()
			if f.fn == nil {
				return
			}
			for _, vs := range []*am.ValueSet{f.fn.Input(), f.fn.Output()} {
				if vs == nil {
					b.WriteString("nil;")
					continue
				}
				for _, v := range vs.Values() {
					if v.Value.IsValid() {
						fmt.Fprintf(&b, "%d,", vidOf(v.Value))
					} else {
						b.WriteString("-,")
					}
				}
				b.WriteString(";")
			}
		}()
		out = append(out, b.String())
	}
	return out
}

func genRedef(w *bufio.Writer, r *rng, id int) {
	sc, fin, fout := genRedefScenario(r)
	if r.chance(1, 3) && sc.buildAll() == nil {
		sc.gensify(r) // some converters come from converter generators
	}
	if err := sc.buildAll(); err != nil {
		fmt.Fprintf(w, "scn redef %d builderr\nbuilderr %s\nend\n", id, strings.ReplaceAll(err.Error(), "\n", " "))
		return
	}
	sc.header(w, "redef", id, fmt.Sprintf("fin=%s finnest=%d fout=%s foutnest=%d subs=%v", fin.String(), nestOf(fin), fout.String(), nestOf(fout), sc.Subs || sc.Collide))
	var extraFilters []am.Arg
	if fin != nil {
		extraFilters = append(extraFilters, am.FilterInput(fin.mk()))
	}
	fmt.Fprintln(w, sc.dumpGraph(true, extraFilters...))
	var newFn *am.Func
	for rep := 0; rep < 3; rep++ {
		fmt.Fprintf(w, "run %d\n", rep)
		w.Flush()
		before := 0
		for _, f := range sc.Funcs {
			before += f.execs
		}
		lines, nf := sc.redefineOnce(fin, fout)
		for _, l := range lines {
			fmt.Fprintln(w, l)
		}
		after := 0
		for _, f := range sc.Funcs {
			after += f.execs
		}
		fmt.Fprintf(w, "rdexecs %d\n", after-before)
		if nf != nil {
			newFn = nf
		}
	}
	fmt.Fprintf(w, "end\n")
	if id%3 == 0 {
		// after everything else of this scenario (the probes rebuild the function objects)
		defer func() {
			fmt.Fprintf(w, "scn probe %d\nsibling %s\nbare %s\npassthru %s\ntwinsets %s\nreuse %s\nend\n", id, siblingProbe(sc, sc.callArgs(false)), bareProbe(sc), passthruProbe(), twinSetsProbe(), reuseProbe())
		}()
	}
	if newFn == nil || sc.Subs {
		return
	}
	// second block: call the redefined function with one value per declared input; the inner Call
	// (original target, original options + these values) is traced through the logger given to Redefine
	var extra []optSpecC
	var outer []am.Arg
	vid := 5000
	for _, v := range newFn.Input().Values() {
		vid++
		ty := concreteFor(r, tyID(v.Type))
		val, id := mkValue(ty, vid, -1).Interface(), vid
		if ty <= 9 && vid%3 == 0 {
			// the zero value of its type is a value like any other (provenance id 0)
			val, id = mkValue(ty, 0, -1).Interface(), 0
		}
		if (ty == tyL0 || ty == tyLU) && vid%2 == 0 {
			// a nil slice is a value like any other (provenance id 0): the redefined function must pass it on
			val, id = reflect.Zero(tyOf(ty)).Interface(), 0
		}
		if v.Name != "" {
			extra = append(extra, optSpecC{Kind: "named", Name: v.Name, Ty: ty, Vid: id})
			outer = append(outer, am.Named(v.Name, val))
		} else {
			extra = append(extra, optSpecC{Kind: "typed", Ty: ty, Vid: id})
			outer = append(outer, am.Typed(val))
		}
	}
	// the redefined function passes named values first, then typed ones (map iteration inside each group)
	var named, typed []optSpecC
	for _, o := range extra {
		if o.Kind == "named" {
			named = append(named, o)
		} else {
			typed = append(typed, o)
		}
	}
	// a named and a type-only declared input of the same type make the *outer* call ambiguous
	// (either value may be injected into the type-only field): the inner call is then not determined
	for _, a := range named {
		for _, b := range typed {
			if a.Ty == b.Ty {
				return
			}
		}
	}
	sc2 := *sc
	sc2.Opts = append(append(append([]optSpecC(nil), sc.Opts...), named...), typed...)
	burn := false
	for _, f := range sc.Funcs[1:] {
		if f.Script == "fail@0" && !f.Once && r.chance(1, 2) {
			burn = true
		}
	}
	for _, f := range sc.Funcs {
		if f.Once {
			burn = false // a memoised result of the untraced call would be invisible to the replay
		}
	}
	sc2.header(w, "call", id*10+7, fmt.Sprintf("fam=redefcall burn=%v collide=%v", burn, sc.Collide))
	fmt.Fprintln(w, "dump skip")
	for rep := 0; rep < 1; rep++ {
		fmt.Fprintf(w, "run %d\n", rep)
		w.Flush()
		for _, f := range sc.Funcs {
			f.execs = 0
		}
		if burn {
			// a first, untraced call in which the failing converter fails; the traced one below must then succeed
			// on the same redefined function and report no error
			func() {
				defer func() { recover() }()
				newFn.Call(outer...)
			}()
		}
		if !burn && plainFuncs(sc) {
			// an earlier, untraced call of the same redefined function with other values (for an interface-typed input:
			// of another dynamic type): nothing of it may be left in the call that follows
			var other []am.Arg
			for i, v := range newFn.Input().Values() {
				ty := tyID(v.Type)
				if isIface(ty) {
					impl := implementers(ty)
					if len(impl) == 0 {
						continue
					}
					ty = impl[(i+id)%len(impl)]
				}
				val := mkValue(ty, 6500+i, -1).Interface()
				if v.Name != "" {
					other = append(other, am.Named(v.Name, val))
				} else {
					other = append(other, am.Typed(val))
				}
			}
			func() {
				defer func() { recover() }()
				newFn.Call(other...)
			}()
			for _, f := range sc.Funcs {
				f.execs = 0
			}
		}
		sc.events, sc.pops = nil, nil
		am.VerifSetPopHook(func(h interface{}) { sc.pops = append(sc.pops, sc.hashName(h)) })
		var res am.Result
		var pan interface{}
		func() {
			defer func() { pan = recover() }()
			res = newFn.Call(outer...)
		}()
		am.VerifSetPopHook(nil)
		for _, l := range sc.events {
			fmt.Fprintln(w, l)
		}
		switch {
		case pan != nil:
			fmt.Fprintln(w, "res panic "+classifyPanic(pan))
		case res.Err() != nil:
			fmt.Fprintln(w, "res err "+sc.classifyErr(res.Err()))
		default:
			os := renderOuts(sc.Funcs[0], res)
			fmt.Fprintln(w, "res ok "+strings.Join(os, ","))
		}
	}
	fmt.Fprintf(w, "end\n")
	// the option slice handed to Redefine belongs to the caller: calling the redefined function must
	// not write into its spare capacity (a second option list sharing the array would change)
	if newFn != nil && len(newFn.Input().Values()) > 0 {
		base := sc.callArgs(false)
		if fin != nil {
			base = append(base, am.FilterInput(fin.mk()))
		}
		withCap := make([]am.Arg, len(base), len(base)+4)
		copy(withCap, base)
		var verdict string
		if recovered(func() {
			rA, err := sc.Funcs[0].fn.Redefine(withCap...)
			if err != nil || rA == nil {
				verdict = "skip"
				return
			}
			full := append(withCap, am.Named("zzsentinel", K9{ID: 4242}))
			var outer []am.Arg
			for i, v := range rA.Input().Values() {
				ty := concreteFor(r, tyID(v.Type))
				if v.Name != "" {
					outer = append(outer, am.Named(v.Name, mkValue(ty, 6000+i, -1).Interface()))
				} else {
					outer = append(outer, am.Typed(mkValue(ty, 6000+i, -1).Interface()))
				}
			}
			rA.Call(outer...)
			d := am.VerifBuilder(nil, full[len(withCap)])
			if v, ok := d.Named["zzsentinel"]; ok && vidOf(v) == 4242 {
				verdict = "intact"
			} else {
				verdict = "modified"
			}
		}) {
			verdict = "panic"
		}
		// a sibling function built on a longer view of the very array that holds the target's default options:
		// neither Redefine nor Call on the target may write into the spare capacity behind its defaults
		sibling := siblingProbe(sc, base)
		fmt.Fprintf(w, "scn alias %d\nalias %s\nsibling %s\nend\n", id, verdict, sibling)
	}
}

func nestOf(f *filterSpec) int {
	if f == nil {
		return 0
	}
	return f.nest
}

// ---------------------------------------------------------------- C10: Convert vs Call on an identity function

var convTargets = []int{0, 1, 2, 3, 4, 5, tyI0, tyI1, tyI3, tyError, tyE0, tyPI0}

func genConv(w *bufio.Writer, r *rng, id int) {
	sc := genScenario(r, cfgGeneral)
	T := convTargets[r.intn(len(convTargets))]
	if len(sc.Funcs[0].Ins) > 0 && r.chance(3, 4) {
		T = sc.Funcs[0].Ins[0].Ty // keep the chains generated for the first requirement relevant
	}
	// now and then: the target is the error interface itself and a non-nil error value is available (supplied, or
	// returned by a converter as an ordinary output): the identity call then *fails* with that value as its error
	errTarget := r.chance(1, 8)
	if errTarget {
		T = tyError
	}
	sc.Funcs[0] = &fnSpec{ID: 0, Form: "pos", OForm: "pos", Ins: []lab{{Ty: T}}, Outs: []lab{{Ty: T}}, Script: "identity"}
	sc.Defaults = 0
	if T == tyPI0 {
		// the target is a pointer to an interface: a value of exactly that type is supplied, next to a value that
		// merely implements the interface
		sc.Opts = append(sc.Opts, optSpecC{Kind: "typed", Ty: tyPI0, Vid: 950}, optSpecC{Kind: "typed", Ty: 4, Vid: 951})
		if r.chance(1, 3) {
			sc.Opts = sc.Opts[len(sc.Opts)-1:] // only the implementer: the conversion is impossible
		}
	}
	if errTarget {
		if r.chance(1, 2) {
			sc.Opts = append(sc.Opts, optSpecC{Kind: "typed", Ty: tyE0, Vid: 900})
		} else {
			src := lab{Ty: r.intn(4)}
			f := cfgGeneral.newConv(r, sc, []lab{{Ty: tyE0}}, []lab{src})
			f.Script, f.Once, f.HasErr = "ok", false, false
			sc.Opts = append(sc.Opts, optSpecC{Kind: "convfunc", Fids: []int{f.ID}}, optSpecC{Kind: "typed", Ty: src.Ty, Vid: 901})
		}
	}
	if r.chance(1, 6) { // a user converter of the identity's own Go type collides with the target vertex
		f := cfgGeneral.newConv(r, sc, []lab{{Ty: T}}, []lab{{Ty: T}})
		f.Form, f.OForm, f.HasErr, f.Script, f.Once = "pos", "pos", false, "ok", false
		sc.Opts = append(sc.Opts, optSpecC{Kind: "conv", Fids: []int{f.ID}})
	}
	if r.chance(1, 4) && sc.buildAll() == nil {
		sc.gensify(r) // some converters come from converter generators
	}
	if r.chance(1, 8) {
		// a filter among the options: no effect on Call or Convert
		sc.Opts = append(sc.Opts, optSpecC{Kind: "filterjunk", Vid: r.intn(2)})
	}
	if r.chance(1, 10) {
		// a malformed option (a nil Arg, a nil or non-function converter, …): Convert must end as the identity call does
		kinds := []string{"nil", "nil", "convnil", "convbad", "namednil", "gennil"}
		o := optSpecC{Kind: kinds[r.intn(len(kinds))], Name: "a"}
		pos := r.intn(len(sc.Opts) + 1)
		sc.Opts = append(sc.Opts[:pos], append([]optSpecC{o}, sc.Opts[pos:]...)...)
	}
	if err := sc.buildAll(); err != nil {
		fmt.Fprintf(w, "scn conv %d builderr\nbuilderr %s\nend\n", id, strings.ReplaceAll(err.Error(), "\n", " "))
		return
	}
	if id%4 == 0 {
		// the option slice handed to Convert belongs to the caller: a longer list sharing its array must not change
		defer func() {
			verdict := "skip"
			if recovered(func() {
				base := sc.callArgs(false)
				withCap := make([]am.Arg, len(base), len(base)+4)
				copy(withCap, base)
				full := append(withCap, am.Named("zzsentinel", K9{ID: 4242}))
				am.Convert(tyOf(T), withCap...)
				d := am.VerifBuilder(nil, full[len(withCap)])
				if v, ok := d.Named["zzsentinel"]; ok && vidOf(v) == 4242 {
					verdict = "intact"
				} else {
					verdict = "modified"
				}
			}) {
				verdict = "panic"
			}
			fmt.Fprintf(w, "scn alias %d\ncvalias %s\nend\n", id, verdict)
		}()
	}
	sc.header(w, "conv", id, fmt.Sprintf("T=%d", T))
	fmt.Fprintln(w, sc.dumpGraph(false))
	for rep := 0; rep < 4; rep++ {
		fmt.Fprintf(w, "run %d\n", rep)
		w.Flush()
		if err := sc.buildAll(); err != nil {
			fmt.Fprintf(w, "res builderr\n")
			continue
		}
		if rep%2 == 0 {
			for _, l := range sc.callOnce() {
				fmt.Fprintln(w, l)
			}
			continue
		}
		// Convert with the same options
		sc.events, sc.pops = nil, nil
		am.VerifSetPopHook(func(h interface{}) { sc.pops = append(sc.pops, sc.hashName(h)) })
		var out interface{}
		var err error
		var pan interface{}
		func() {
			defer func() { pan = recover() }()
			out, err = am.Convert(tyOf(T), sc.callArgs(true)...)
		}()
		am.VerifSetPopHook(nil)
		for _, l := range sc.events {
			fmt.Fprintln(w, l)
		}
		switch {
		case pan != nil:
			fmt.Fprintf(w, "cv panic\nres panic %s\n", classifyPanic(pan))
		case err != nil:
			fmt.Fprintf(w, "cv nilvalue=%v\nres err %s\n", out == nil, sc.classifyErr(err))
		default:
			ov := reflect.ValueOf(out)
			asg := ov.IsValid() && ov.Type().AssignableTo(tyOf(T))
			if !ov.IsValid() {
				asg = tyOf(T).Kind() == reflect.Interface || tyOf(T).Kind() == reflect.Ptr
			}
			fmt.Fprintf(w, "cv assignable=%v\nres ok %d\n", asg, vidOf(ov))
		}
	}
	fmt.Fprintf(w, "end\n")
}

// ---------------------------------------------------------------- histories on shared function objects (C09, C11)

var cfgOnce = func() genCfg { c := cfgGeneral; c.pOnce = 55; c.pFail = 12; c.pLeave = 2; return c }()

func genHist(w *bufio.Writer, r *rng, id int) {
	sc := genScenario(r, cfgOnce)
	sc.Funcs[0].Once = r.chance(1, 4)
	sc.multiTyped(r)
	// a function assembled with BuildFunc that fails the first time it runs and works afterwards
	for _, f := range sc.Funcs[1:] {
		if f.Form == "built" && !f.Once && r.chance(1, 2) {
			f.Script = "fail@0"
			break
		}
	}
	if sc.Funcs[0].Once && r.chance(1, 2) {
		// a run-once target whose later calls meet a converter that fails from its second execution on: the error of
		// that call must be reported, however long the target has had a result
		for _, f := range sc.Funcs[1:] {
			if !f.Once && f.Script == "ok" && f.Form != "built" {
				f.Script, f.HasErr = "fail@1", true
				break
			}
		}
	}
	if r.chance(1, 4) && sc.buildAll() == nil {
		sc.gensify(r) // some converters come from converter generators
	}
	if err := sc.buildAll(); err != nil {
		fmt.Fprintf(w, "scn hist %d builderr\nbuilderr %s\nend\n", id, strings.ReplaceAll(err.Error(), "\n", " "))
		return
	}
	sc.header(w, "hist", id, "")
	fmt.Fprintln(w, sc.dumpGraph(false))
	// now and then a wrapper is assembled over the target's own value sets (BuildFunc(f.Input(), f.Output(), cb))
	// and called once: that must neither panic nor leave anything behind that a later use of the target can see
	if r.chance(1, 4) {
		fmt.Fprintf(w, "wrap %s\n", wrapProbe(sc))
	}
	// converters whose Go type is unique in the scenario can also be called directly
	var direct []int
	for _, f := range sc.Funcs[1:] {
		uniq := true
		for _, g := range sc.Funcs {
			if g != f && g.rtype == f.rtype {
				uniq = false
			}
		}
		if uniq && len(f.Ins) > 0 {
			direct = append(direct, f.ID)
		}
	}
	var valueOpts []int
	for i, o := range sc.Opts {
		if i >= sc.Defaults && o.Kind != "conv" && o.Kind != "convfunc" {
			valueOpts = append(valueOpts, i)
		}
	}
	n := 2 + r.intn(5)
	var lastNF *am.Func
	// a run-once target, every other time: redefined before its first use, then used through the redefined function and
	// through the original (two handles on one function: its body runs once)
	twoHandles := sc.Funcs[0].Once && r.chance(1, 2)
	if twoHandles && n < 3 {
		n = 3
	}
	for k := 0; k < n; k++ {
		x := r.intn(12)
		forced := twoHandles && k < 3
		if forced {
			x = []int{0, 11, 11}[k]
		}
		switch {
		case x < 3:
			// half of the Redefine operations carry an input filter, so that planning runs through the converters
			var fin *filterSpec
			if !forced && r.chance(1, 2) {
				fin = &filterSpec{nest: r.intn(3)}
				for _, i := range valueOpts {
					if r.chance(2, 3) {
						fin.tys = append(fin.tys, sc.Opts[i].Ty)
					}
				}
				for j := 0; j < 2; j++ {
					fin.tys = append(fin.tys, r.intn(10))
				}
			}
			fmt.Fprintf(w, "run %d redefine\nrdfin %s %d\n", k, fin.String(), nestOf(fin))
			w.Flush()
			before := 0
			for _, f := range sc.Funcs {
				before += f.execs
			}
			lines, nf := sc.redefineOnce(fin, nil)
			for _, l := range lines {
				fmt.Fprintln(w, l)
			}
			after := 0
			for _, f := range sc.Funcs {
				after += f.execs
			}
			fmt.Fprintf(w, "rdexecs %d\n", after-before)
			if nf != nil && fin == nil && nf.Input() != nil && len(nf.Input().Values()) == 0 {
				lastNF = nf // a second handle on the target: calling it is calling the target with these options
			}
		case x < 5 && len(direct) > 0:
			fid := direct[r.intn(len(direct))]
			fmt.Fprintf(w, "run %d direct\nhop target=%d omit=\n", k, fid)
			w.Flush()
			for _, l := range sc.callWith(fid, nil) {
				fmt.Fprintln(w, l)
			}
		case x < 8 && len(valueOpts) > 0:
			i := valueOpts[r.intn(len(valueOpts))]
			fmt.Fprintf(w, "run %d call\nhop target=0 omit=%d\n", k, i)
			w.Flush()
			for _, l := range sc.callWith(0, map[int]bool{i: true}) {
				fmt.Fprintln(w, l)
			}
		default:
			fmt.Fprintf(w, "run %d call\nhop target=0 omit=\n", k)
			w.Flush()
			if lastNF != nil && ((forced && k == 1) || (!forced && r.chance(1, 2))) {
				// the same call made through the redefined function (run-once state is shared between the handles)
				for _, l := range sc.callThrough(lastNF) {
					fmt.Fprintln(w, l)
				}
				break
			}
			for _, l := range sc.callOnce() {
				fmt.Fprintln(w, l)
			}
		}
	}
	fmt.Fprintf(w, "end\n")
}

// callThrough calls a redefined function that declares no inputs: its inner call of the target is traced through
// the logger given to Redefine and rendered like a call of the target.
func (sc *scenario) callThrough(nf *am.Func) []string {
	sc.events, sc.pops = nil, nil
	am.VerifSetPopHook(func(h interface{}) { sc.pops = append(sc.pops, sc.hashName(h)) })
	defer am.VerifSetPopHook(nil)
	var res am.Result
	var pan interface{}
	func() {
		defer func() { pan = recover() }()
		res = nf.Call()
	}()
	lines := append([]string(nil), sc.events...)
	switch {
	case pan != nil:
		lines = append(lines, "res panic "+classifyPanic(pan))
	case res.Err() != nil:
		lines = append(lines, "res err "+sc.classifyErr(res.Err()))
	default:
		lines = append(lines, "res ok "+strings.Join(renderOuts(sc.Funcs[0], res), ","))
	}
	return lines
}

// ---------------------------------------------------------------- C10: targets outside the scenario type universe

func localTypeA() reflect.Type { type T struct{ ID int }; return reflect.TypeOf(T{}) }
func localTypeB() reflect.Type { type T struct{ ID int }; return reflect.TypeOf(T{}) }

type markerTarget struct {
	am.Struct
	A K0
}

// genConvSeq: sequences of Convert on targets that print alike, and Convert to a marker struct;
// each Convert is compared with Call on an identity function of the same type.
func genConvSeq(w *bufio.Writer, r *rng, id int) {
	fmt.Fprintf(w, "scn convseq %d\n", id)
	mk := func(t reflect.Type, vid int) reflect.Value {
		v := reflect.New(t).Elem()
		v.Field(0).SetInt(int64(vid))
		return v
	}
	one := func(name string, t reflect.Type, args func() []am.Arg, idOf func(reflect.Value) int) {
		cv, cerr := "", ""
		func() {
			defer func() {
				if p := recover(); p != nil {
					cerr = "panic"
				}
			}()
			out, err := am.Convert(t, args()...)
			if err != nil {
				cerr = "err"
				return
			}
			ov := reflect.ValueOf(out)
			cv = fmt.Sprintf("ok:%d:%v", idOf(ov), ov.IsValid() && ov.Type() == t)
		}()
		if cerr != "" {
			cv = cerr
		}
		call := ""
		func() {
			defer func() {
				if p := recover(); p != nil {
					call = "panic"
				}
			}()
			ft := reflect.FuncOf([]reflect.Type{t}, []reflect.Type{t}, false)
			f, err := am.NewFunc(reflect.MakeFunc(ft, func(a []reflect.Value) []reflect.Value { return a }).Interface())
			if err != nil {
				call = "err"
				return
			}
			res := f.Call(args()...)
			if res.Err() != nil || res.Len() != 1 {
				call = "err"
				return
			}
			ov := reflect.ValueOf(res.Out(0))
			call = fmt.Sprintf("ok:%d:%v", idOf(ov), ov.IsValid() && ov.Type() == t)
		}()
		fmt.Fprintf(w, "cs %s convert=%s call=%s\n", name, cv, call)
	}
	plainID := func(v reflect.Value) int { return vidOf(v) }
	ta, tb := localTypeA(), localTypeB()
	steps := []int{0, 1, 2}
	if r.chance(1, 2) {
		steps = []int{1, 0, 2}
	}
	if r.chance(1, 3) {
		steps = append(steps, 0, 1)
	}
	for k, s := range steps {
		vid := 10*(k+1) + r.intn(9)
		switch s {
		case 0:
			one("localA", ta, func() []am.Arg { return []am.Arg{am.Typed(mk(ta, vid).Interface())} }, plainID)
		case 1:
			one("localB", tb, func() []am.Arg { return []am.Arg{am.Typed(mk(tb, vid).Interface())} }, plainID)
		case 2:
			mt := reflect.TypeOf(markerTarget{})
			one("marker", mt, func() []am.Arg { return []am.Arg{am.Named("a", K0{ID: vid})} }, func(v reflect.Value) int {
				if v.IsValid() && v.Kind() == reflect.Struct && v.NumField() == 2 {
					return int(v.Field(1).Field(0).Int())
				}
				return -1
			})
		}
	}
	fmt.Fprintf(w, "end\n")
}

// ---------------------------------------------------------------- C09: Redefine with generated converters

// genRedefGen: the converter on the planned path is produced by a ConverterGen during graph
// construction; Redefine must not run its body either.
func genRedefGen(w *bufio.Writer, r *rng, id int) {
	T := r.intn(4)
	U := 4 + r.intn(3)
	sc := &scenario{errOwner: map[int]int{}}
	tl := lab{Ty: U}
	if r.chance(1, 2) {
		tl.Name = "a"
	}
	target := &fnSpec{ID: 0, Ins: []lab{tl}, Script: "ok", OForm: "pos", Form: []string{"struct", "ptr", "pos"}[r.intn(3)]}
	if tl.Name != "" && target.Form == "pos" {
		target.Form = "struct"
	}
	conv := &fnSpec{ID: 1, Ins: []lab{{Ty: T}}, Outs: []lab{{Ty: U}}, Script: "ok", Form: "pos", OForm: "pos", Dyn: []int{-1}}
	sc.Funcs = []*fnSpec{target, conv}
	if err := sc.buildAll(); err != nil {
		fmt.Fprintf(w, "scn redefgen %d builderr\nend\n", id)
		return
	}
	gen := am.ConverterGen(func(v am.Value) (*am.Func, error) {
		if v.Type != tyOf(T) {
			return nil, nil
		}
		return conv.fn, nil
	})
	fmt.Fprintf(w, "scn redefgen %d T=%d U=%d\n", id, T, U)
	w.Flush()
	supplied := r.chance(1, 2)
	var opts []am.Arg
	opts = append(opts, gen)
	if supplied {
		opts = append(opts, am.Typed(mkValue(T, 1, -1).Interface()))
	} else {
		// nothing supplied: the type-T requirement of the generated converter becomes an input of the
		// redefined function; a named T value makes the generator fire
		opts = append(opts, am.FilterInput(am.FilterType(tyOf(T))), am.Named("seed", mkValue(T, 2, -1).Interface()))
	}
	for k := 0; k < 2; k++ {
		before := conv.execs + target.execs
		var err error
		pan := recovered(func() { _, err = target.fn.Redefine(opts...) })
		fmt.Fprintf(w, "rd %d execs=%d err=%v panic=%v\n", k, conv.execs+target.execs-before, err != nil, pan)
	}
	// afterwards a real call runs the generated converter exactly once
	before := conv.execs
	var res am.Result
	pan := recovered(func() { res = target.fn.Call(gen, am.Typed(mkValue(T, 3, -1).Interface())) })
	fmt.Fprintf(w, "call execs=%d ok=%v panic=%v\nend\n", conv.execs-before, !pan && res.Err() == nil, pan)
}

// siblingProbe: a sibling function built on a longer view of the very array that holds the target's default
// options; neither Redefine nor Call on the target may write into the spare capacity behind its defaults.
func siblingProbe(sc *scenario, base []am.Arg) string {
	sibling := "skip"
	if recovered(func() {
		common := make([]am.Arg, 0, 8)
		common = append(common, am.Named("zzcommon", K9{ID: 1}))
		raw0 := sc.Funcs[0].raw
		f0, err := am.NewFunc(raw0, common...)
		if err != nil {
			return
		}
		g, err := am.NewFunc(func(in struct {
			am.Struct
			Zzsibling K9
		}) int {
			return in.Zzsibling.ID
		}, append(common, am.Named("zzsibling", K9{ID: 77}))...)
		if err != nil {
			return
		}
		before := g.Call()
		f0.Redefine(base...)
		f0.Call(base...)
		after := g.Call()
		if before.Err() == nil && after.Err() == nil && before.Out(0) == after.Out(0) {
			sibling = "intact"
		} else {
			sibling = "disturbed"
		}
	}) {
		sibling = "panic"
	}
	return sibling
}

// bareProbe: calls without a single option. The outcome class of Call() must be the same before and after a
// Redefine() without options on the same function object (fresh objects, so that nothing is memoised).
func bareProbe(sc *scenario) string {
	verdict := "skip"
	if recovered(func() {
		if sc.buildAll() != nil {
			return
		}
		f := sc.Funcs[0].fn
		class := func() string {
			var res am.Result
			var pan interface{}
			func() {
				defer func() { pan = recover() }()
				res = f.Call()
			}()
			return outcomeOf(sc, res, pan)
		}
		// (which error a failing call reports may depend on the order in which the requirements are resolved: the
		// comparison is between success, error and panic)
		coarse := func(s string) string {
			if i := strings.Index(s, ":"); i > 0 {
				return s[:i]
			}
			return s
		}
		// outcomes may depend on how ties between paths are broken: the verdict needs four equal outcomes on fresh objects
		// without Redefine, four equal outcomes on fresh objects after Redefine, and the two to differ; scenarios with
		// scripted failures or run-once functions are left to the histories
		if !plainFuncs(sc) {
			return
		}
		before := coarse(class())
		for k := 0; k < 3; k++ {
			if sc.buildAll() != nil {
				return
			}
			f = sc.Funcs[0].fn
			if again := coarse(class()); again != before {
				return // not determined without Redefine either
			}
		}
		after := ""
		for k := 0; k < 4; k++ {
			if sc.buildAll() != nil {
				return
			}
			f = sc.Funcs[0].fn
			f.Redefine()
			a := coarse(class())
			if k > 0 && a != after {
				verdict = "intact" // not determined after Redefine: nothing to conclude
				return
			}
			after = a
		}
		if before == after {
			verdict = "intact"
		} else {
			verdict = "changed:" + before + "/" + after
		}
	}) {
		verdict = "panic"
	}
	return verdict
}

// wrapProbe builds a function over the target's own input and output sets and calls it with one fresh value per
// input.
func wrapProbe(sc *scenario) string {
	verdict := "skip"
	if recovered(func() {
		f := sc.Funcs[0].fn
		w, err := am.BuildFunc(f.Input(), f.Output(), func(in, out *am.ValueSet) error { return nil })
		if err != nil || w == nil {
			verdict = "builderr"
			return
		}
		var args []am.Arg
		if in := f.Input(); in != nil {
			for i, v := range in.Values() {
				ty := tyID(v.Type)
				if isIface(ty) {
					impl := implementers(ty)
					if len(impl) == 0 {
						return
					}
					ty = impl[0]
				}
				val := mkValue(ty, 7700+i, -1).Interface()
				if v.Name != "" {
					args = append(args, am.NamedSubtype(v.Name, val, v.Subtype))
				} else {
					args = append(args, am.TypedSubtype(val, v.Subtype))
				}
			}
		}
		res := w.Call(args...)
		if res.Err() != nil {
			verdict = "err"
		} else {
			verdict = "ok"
		}
	}) {
		verdict = "panic"
	}
	return verdict
}

// reuseProbe: one redefined function with an interface-typed input called several times with values of different
// dynamic types: every call passes on the value it was given, nothing of an earlier call.
func reuseProbe() string {
	verdict := "skip"
	if recovered(func() {
		target, err := am.NewFunc(func(s I0) int { return vidOf(reflect.ValueOf(s)) })
		if err != nil {
			return
		}
		rf, err := target.Redefine()
		if err != nil || rf == nil {
			return
		}
		verdict = "intact"
		vals := []interface{}{K4{ID: 1}, K5{ID: 2}, K6{ID: 3}, K4{ID: 4}, K8{ID: 5}}
		for round := 0; round < 6 && verdict == "intact"; round++ {
			for i, v := range vals {
				res := rf.Call(am.Typed(v))
				if res.Err() != nil {
					verdict = "err"
					return
				}
				if got, _ := res.Out(0).(int); got != i+1 {
					verdict = fmt.Sprintf("stale:call_with_%d_passed_on_%d", i+1, got)
					return
				}
			}
		}
	}) {
		verdict = "panic"
	}
	return verdict
}

// twinSetsProbe: two value sets built from the same list of values, and the output sets of two functions with the same
// result types, are separate objects: what is loaded into one is not seen through the other.
func twinSetsProbe() string {
	verdict := "skip"
	if recovered(func() {
		spec := []am.Value{{Name: "zzq", Type: tyOf(0)}, {Type: tyOf(1)}}
		a, err1 := am.NewValueSet(spec)
		b, err2 := am.NewValueSet(spec)
		if err1 != nil || err2 != nil || a == nil || b == nil {
			return
		}
		verdict = "intact"
		a.Named("zzq").Value = reflect.ValueOf(K0{ID: 11})
		b.Named("zzq").Value = reflect.ValueOf(K0{ID: 22})
		if vidOf(a.Named("zzq").Value) != 11 || vidOf(b.Named("zzq").Value) != 22 {
			verdict = "aliased"
			return
		}
		f1, e1 := am.NewFunc(func() (K0, K1) { return K0{ID: 31}, K1{ID: 32} })
		f2, e2 := am.NewFunc(func() (K0, K1) { return K0{ID: 41}, K1{ID: 42} })
		if e1 != nil || e2 != nil {
			return
		}
		if f1.Output().FromResult(f1.Call()) != nil || f2.Output().FromResult(f2.Call()) != nil {
			verdict = "err"
			return
		}
		v1, v2 := f1.Output().Typed(tyOf(0)), f2.Output().Typed(tyOf(0))
		if v1 == nil || v2 == nil || vidOf(v1.Value) != 31 || vidOf(v2.Value) != 41 {
			verdict = "aliased"
		}
	}) {
		verdict = "panic"
	}
	return verdict
}

// passthruProbe: one value set used as both the input and the output of a built function — what goes in comes out.
func passthruProbe() string {
	verdict := "skip"
	if recovered(func() {
		vs, err := am.NewValueSet([]am.Value{{Name: "zzp", Type: tyOf(0)}, {Type: tyOf(1)}})
		if err != nil {
			return
		}
		var seenA, seenT int
		f, err := am.BuildFunc(vs, vs, func(in, out *am.ValueSet) error {
			seenA, seenT = -1, -1
			if v := in.Named("zzp"); v != nil {
				seenA = vidOf(v.Value)
			}
			if v := in.Typed(tyOf(1)); v != nil {
				seenT = vidOf(v.Value)
			}
			return nil
		})
		if err != nil || f == nil {
			return
		}
		verdict = "intact"
		for k := 0; k < 2; k++ {
			res := f.Call(am.Named("zzp", mkValue(0, 31+k, -1).Interface()), am.Typed(mkValue(1, 41+k, -1).Interface()))
			back, err2 := am.NewValueSet(vs.Values())
			if res.Err() != nil || err2 != nil || back.FromResult(res) != nil ||
				seenA != 31+k || seenT != 41+k ||
				vidOf(back.Named("zzp").Value) != 31+k || vidOf(back.Typed(tyOf(1)).Value) != 41+k {
				verdict = "changed"
			}
		}
	}) {
		verdict = "panic"
	}
	return verdict
}
