package main

// Concurrency family (C11 concurrent clause, C12): many goroutines Call / Convert / Redefine with the
// same target, the same converter objects and one shared option slice. Built with -race by bin/check
// (binary harness-race); the race detector's report file is read back after every scenario.

import (
	"bufio"
	"fmt"
	"os"
	"path/filepath"
	"reflect"
	"sort"
	"strings"
	"sync"

	am "github.com/hashicorp/go-argmapper"
)

// raceMode widens the window between a run-once function's memo check and its store
var raceMode bool

// raceFailOnce: most converters are run-once and fail the first time their body runs
var raceFailOnce bool

// raceMixed counts executions that received values tagged by two different goroutines (ids 8000+g*100+i)
var raceMixed int

var raceMu sync.Mutex // protects the harness's own bookkeeping inside function bodies

// raceLogSize sums the sizes of the race detector's log files (GORACE=log_path=<prefix>).
func raceLogSize() (int64, string) {
	prefix := ""
	for _, kv := range strings.Fields(os.Getenv("GORACE")) {
		if strings.HasPrefix(kv, "log_path=") {
			prefix = kv[len("log_path="):]
		}
	}
	if prefix == "" {
		return 0, ""
	}
	files, _ := filepath.Glob(prefix + ".*")
	var n int64
	last := ""
	for _, f := range files {
		if st, err := os.Stat(f); err == nil {
			n += st.Size()
			last = f
		}
	}
	return n, last
}

// raceSummary extracts the function names of the first report added after offset.
func raceSummary(file string, offset int64) string {
	b, err := os.ReadFile(file)
	if err != nil || int64(len(b)) <= offset {
		return ""
	}
	var fns []string
	for _, line := range strings.Split(string(b[offset:]), "\n") {
		line = strings.TrimSpace(line)
		if strings.HasPrefix(line, "github.com/hashicorp/go-argmapper.") {
			fn := strings.TrimPrefix(line, "github.com/hashicorp/go-argmapper.")
			if i := strings.Index(fn, "("); i > 0 && !strings.HasPrefix(fn, "(") {
				fn = fn[:i]
			}
			fns = append(fns, strings.ReplaceAll(fn, " ", ""))
			if len(fns) >= 4 {
				break
			}
		}
	}
	return strings.Join(fns, ";")
}

func outcomeOf(sc *scenario, res am.Result, pan interface{}) string {
	switch {
	case pan != nil:
		return "panic:" + classifyPanic(pan)
	case res.Err() != nil:
		c := sc.classifyErr(res.Err())
		if i := strings.Index(c, " "); i > 0 {
			c = c[:i]
		}
		return "err:" + c
	}
	return fmt.Sprintf("ok:%d", res.Len())
}

// convertOutcome: cv:ok, cv:err:<class> or cv:panic:<class> for one Convert to t with the shared options.
func convertOutcome(sc *scenario, t reflect.Type, shared []am.Arg) (out string) {
	defer func() {
		if p := recover(); p != nil {
			out = "cv:panic:" + classifyPanic(p)
		}
	}()
	v, err := am.Convert(t, shared...)
	if err != nil {
		c := sc.classifyErr(err)
		if i := strings.Index(c, " "); i > 0 {
			c = c[:i]
		}
		return "cv:err:" + c
	}
	if v == nil {
		return "cv:nil"
	}
	return "cv:ok"
}

// redefineOutcome: rd:ok:<declared inputs> or rd:err:<class> for one Redefine of the target with the given options.
func redefineOutcome(sc *scenario, opts []am.Arg) (out string) {
	defer func() {
		if p := recover(); p != nil {
			out = "rd:panic:" + classifyPanic(p)
		}
	}()
	nf, err := sc.Funcs[0].fn.Redefine(opts...)
	if err != nil {
		c := sc.classifyErr(err)
		if i := strings.Index(c, " "); i > 0 {
			c = c[:i]
		}
		return "rd:err:" + c
	}
	var ls []string
	for _, v := range nf.Input().Values() {
		ls = append(ls, strings.ReplaceAll(labelStr(v), ":", "/"))
	}
	sortStrings(ls)
	return "rd:ok:" + strings.Join(ls, "+")
}

func genRace(w *bufio.Writer, r *rng, id int, goroutines, rounds int) {
	c := cfgGeneral
	c.pOnce = 35
	if raceFailOnce {
		c.pOnce = 75
	}
	c.pFail = 0
	c.forms = []string{"pos", "struct", "ptr"} // functions built with BuildFunc share their value sets by design
	sc := genScenario(r, c)
	for _, f := range sc.Funcs {
		if f.Form == "built" {
			f.Form = "struct"
		}
	}
	// now and then a run-once converter fails the first time its body runs (and would succeed the second time):
	// its error is memoised, so every call that needs it must report that error
	for _, f := range sc.Funcs[1:] {
		if f.Once && (raceFailOnce || r.chance(1, 3)) {
			f.HasErr, f.Script = true, "fail@0"
		}
	}
	if r.chance(1, 2) {
		sc.Defaults = 0
	}
	raceMode = true
	if err := sc.buildAll(); err != nil {
		fmt.Fprintf(w, "scn race %d builderr\nend\n", id)
		return
	}
	sc.header(w, "race", id, fmt.Sprintf("g=%d rounds=%d", goroutines, rounds))
	w.Flush()
	// ONE shared option slice, built once (no logger: hclog's default is used by every goroutine)
	var shared []am.Arg
	for _, o := range sc.Opts[sc.Defaults:] {
		shared = append(shared, sc.mkArg(o))
	}
	// sequential reference outcomes: a few calls in a row on the same function objects (memo cells fill up),
	// then fresh objects (and fresh map orders) again
	seq := map[string]bool{}
	// Redefine gets the shared options plus ONE shared input filter built from an interface type and a struct type
	sharedFilter := am.FilterInput(am.FilterOr(am.FilterType(tyOf(10)), am.FilterType(tyOf(0)), am.FilterType(tyOf(11))))
	rdShared := func() []am.Arg { return append(append([]am.Arg(nil), shared...), sharedFilter) }
	seqRound := func() {
		for j := 0; j < 3; j++ {
			var res am.Result
			var pan interface{}
			func() {
				defer func() { pan = recover() }()
				res = sc.Funcs[0].fn.Call(shared...)
			}()
			seq[outcomeOf(sc, res, pan)] = true
		}
		if tT := sc.Funcs[0].Ins; len(tT) > 0 {
			seq[convertOutcome(sc, tyOf(tT[0].Ty), shared)] = true
		}
		seq[redefineOutcome(sc, rdShared())] = true
		sc.buildAll()
		for _, f := range sc.Funcs {
			f.execs = 0 // fresh objects: "first execution" scripts start over
		}
		shared = shared[:0]
		for _, o := range sc.Opts[sc.Defaults:] {
			shared = append(shared, sc.mkArg(o))
		}
	}
	for i := 0; i < 6; i++ {
		seqRound()
	}
	before, _ := raceLogSize()
	for _, f := range sc.Funcs {
		f.execs = 0
	}
	// a redefined function shared by all goroutines (when Redefine succeeds)
	var rf *am.Func
	var rfIns []am.Value
	func() {
		defer func() { recover() }()
		if f, err := sc.Funcs[0].fn.Redefine(shared...); err == nil && f != nil && f.Input() != nil {
			rf, rfIns = f, f.Input().Values()
		}
	}()
	raceMixed = 0
	rdOpts := rdShared()
	got := map[string]int{}
	var mu sync.Mutex
	var wg sync.WaitGroup
	tT := sc.Funcs[0].Ins
	for g := 0; g < goroutines; g++ {
		wg.Add(1)
		go func(g int) {
			defer wg.Done()
			for k := 0; k < rounds; k++ {
				var out string
				func() {
					defer func() {
						if p := recover(); p != nil {
							out = "panic:" + classifyPanic(p)
						}
					}()
					switch (g + k) % 4 {
					case 0, 1:
						res := sc.Funcs[0].fn.Call(shared...)
						out = outcomeOf(sc, res, nil)
					case 2:
						if len(tT) > 0 {
							// Convert is a call of the identity function on that type: it must end as it does sequentially
							out = convertOutcome(sc, tyOf(tT[0].Ty), shared)
						}
					case 3:
						if rf != nil && k%2 == 0 {
							// the redefined function, shared by all goroutines, called with values tagged by goroutine
							var outer []am.Arg
							for i, v := range rfIns {
								ty := tyID(v.Type)
								if isIface(ty) {
									if impl := implementers(ty); len(impl) > 0 {
										ty = impl[0]
									}
								}
								val := mkValue(ty, 8000+g*100+i, -1).Interface()
								if v.Name != "" {
									outer = append(outer, am.Named(v.Name, val))
								} else {
									outer = append(outer, am.Typed(val))
								}
							}
							rf.Call(outer...)
							out = "redefined-call"
						} else {
							out = redefineOutcome(sc, rdOpts)
						}
					}
				}()
				mu.Lock()
				got[out]++
				mu.Unlock()
			}
		}(g)
	}
	wg.Wait()
	after, file := raceLogSize()
	var outs, seqs []string
	for k, n := range got {
		outs = append(outs, fmt.Sprintf("%s*%d", k, n))
	}
	var once []string
	for _, f := range sc.Funcs {
		if f.Once {
			once = append(once, fmt.Sprintf("%d:%d", f.ID, f.execs))
		}
	}
	// an outcome seen concurrently but not in the small sequential sample may simply be rare (it depends on map
	// order and tie-breaking): before it is reported, sample sequential executions much harder
	unseen := func() bool {
		for k := range got {
			if (strings.HasPrefix(k, "ok:") || strings.HasPrefix(k, "err:") || strings.HasPrefix(k, "panic:") || strings.HasPrefix(k, "cv:") || strings.HasPrefix(k, "rd:")) && !seq[k] {
				return true
			}
		}
		return false
	}
	if after <= before {
		raceMode = false
		// fresh objects first: the ones used concurrently carry whatever the concurrent phase memoised
		sc.buildAll()
		for _, f := range sc.Funcs {
			f.execs = 0
		}
		shared = shared[:0]
		for _, o := range sc.Opts[sc.Defaults:] {
			shared = append(shared, sc.mkArg(o))
		}
		for i := 0; i < 1500 && unseen(); i++ {
			seqRound()
		}
		raceMode = true
	}
	for k := range seq {
		seqs = append(seqs, k)
	}
	sort.Strings(outs)
	sort.Strings(seqs)
	fmt.Fprintf(w, "seq %s\ngot %s\nonce %s\nmixed %d\n", strings.Join(seqs, ","), strings.Join(outs, ","), strings.Join(once, ","), raceMixed)
	if after > before {
		fmt.Fprintf(w, "race yes %s\n", tildeOnly(raceSummary(file, before)))
	} else {
		fmt.Fprintf(w, "race no\n")
	}
	fmt.Fprintf(w, "end\n")
}
