package main

// verifharness: generates scenarios, runs them against the real go-argmapper
// (built from /repo's working tree with -tags verif) and prints, per scenario,
// a block of protocol lines that the Lean driver replays and judges.
//
// usage: harness <family> [-n N] [-seed S] [-size K] [-opt X]

import (
	"bufio"
	"flag"
	"fmt"
	"os"
	"runtime"
	"runtime/debug"
	"sync/atomic"
	"time"
)

// scnCounter counts scenarios started; the watchdog ends the process when one scenario runs for too long or
// the heap explodes (a library call that does not return): the orchestrator then records the unfinished
// scenario as crashed and restarts after it.
var scnCounter int64

func watchdog() {
	limit := 30 * time.Second
	if v := os.Getenv("VERIF_SCN_TIMEOUT"); v != "" {
		if d, err := time.ParseDuration(v); err == nil {
			limit = d
		}
	}
	last, since := int64(-1), time.Now()
	var ms runtime.MemStats
	for {
		time.Sleep(50 * time.Millisecond)
		if c := atomic.LoadInt64(&scnCounter); c != last {
			last, since = c, time.Now()
		}
		runtime.ReadMemStats(&ms)
		if time.Since(since) > limit || ms.HeapAlloc > 3<<30 {
			fmt.Fprintf(os.Stderr, "watchdog: scenario did not return (%.0fs, heap %d MB)\n", time.Since(since).Seconds(), ms.HeapAlloc>>20)
			os.Exit(3)
		}
	}
}

func main() {
	if len(os.Args) < 2 {
		fmt.Fprintln(os.Stderr, "usage: harness <family> [flags]")
		os.Exit(2)
	}
	fam := os.Args[1]
	fs := flag.NewFlagSet(fam, flag.ExitOnError)
	n := fs.Int("n", 100, "number of scenarios")
	seed := fs.Uint64("seed", 1, "PRNG seed")
	size := fs.Int("size", 8, "size parameter (vertices / ops / values)")
	opt := fs.String("opt", "", "family-specific option")
	start := fs.Int("start", 0, "first scenario index (scenario i always uses the i-th forked generator)")
	fs.Parse(os.Args[2:])

	// unbounded recursion in the library must kill this process quickly, not after 1 GB of stack;
	// the orchestrator records the scenario as crashed and restarts after it
	debug.SetMaxStack(48 << 20)
	w := bufio.NewWriterSize(os.Stdout, 1<<20)
	defer w.Flush()
	master := newRng(*seed)
	go watchdog()
	for i := 0; i < *start+*n; i++ {
		r := master.fork()
		if i < *start {
			continue
		}
		atomic.AddInt64(&scnCounter, 1)
		if *opt == "exhaustive" {
			exhIdx = i
		}
		switch fam {
		case "gops":
			genGops(w, r, i, *size*5, *size, *opt != "invalid")
		case "dij":
			genDij(w, r, i, *size, *opt)
		case "dfs":
			genDfs(w, r, i, *size)
		case "kahn":
			genKahn(w, r, i, *size)
		case "scc":
			genScc(w, r, i, *size)
		case "topo":
			genTopo(w, r, i, *size)
		default:
			if !runFamily(fam, w, r, i, *size, *opt) {
				fmt.Fprintln(os.Stderr, "unknown family", fam)
				os.Exit(2)
			}
		}
	}
}
