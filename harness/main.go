package main

// verifharness: generates scenarios, runs them against the real go-argmapper
// (built from /repo's working tree with -tags verif) and prints, per scenario,
// a block of protocol lines that the Lean driver replays and judges.
//
// usage: harness <family> [-n N] [-seed S] [-size K] [-opt X]

import (
	"bufio"
	"flag"
	"fmt"
	"os"
	"runtime/debug"
)

func main() {
	if len(os.Args) < 2 {
		fmt.Fprintln(os.Stderr, "usage: harness <family> [flags]")
		os.Exit(2)
	}
	fam := os.Args[1]
	fs := flag.NewFlagSet(fam, flag.ExitOnError)
	n := fs.Int("n", 100, "number of scenarios")
	seed := fs.Uint64("seed", 1, "PRNG seed")
	size := fs.Int("size", 8, "size parameter (vertices / ops / values)")
	opt := fs.String("opt", "", "family-specific option")
	start := fs.Int("start", 0, "first scenario index (scenario i always uses the i-th forked generator)")
	fs.Parse(os.Args[2:])

	// unbounded recursion in the library must kill this process quickly, not after 1 GB of stack;
	// the orchestrator records the scenario as crashed and restarts after it
	debug.SetMaxStack(48 << 20)
	w := bufio.NewWriterSize(os.Stdout, 1<<20)
	defer w.Flush()
	master := newRng(*seed)
	for i := 0; i < *start+*n; i++ {
		r := master.fork()
		if i < *start {
			continue
		}
		switch fam {
		case "gops":
			genGops(w, r, i, *size*5, *size, *opt != "invalid")
		case "dij":
			genDij(w, r, i, *size, *opt)
		case "dfs":
			genDfs(w, r, i, *size)
		case "kahn":
			genKahn(w, r, i, *size)
		case "scc":
			genScc(w, r, i, *size)
		case "topo":
			genTopo(w, r, i, *size)
		default:
			if !runFamily(fam, w, r, i, *size, *opt) {
				fmt.Fprintln(os.Stderr, "unknown family", fam)
				os.Exit(2)
			}
		}
	}
}
