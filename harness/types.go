package main

// The type universe shared by all resolver-level families: ten provenance-carrying
// concrete struct types, four interface types (an inclusion chain I1 ⊂ I0, an unrelated
// I2 and a twin I3 of I0 with the same method set), a concrete error type and `error`.
// Every value carries an ID so that harness bodies can tell where an argument came from.

import (
	"fmt"
	"reflect"
	"strings"
	"sync"
)

type K0 struct{ ID int }
type K1 struct{ ID int }
type K2 struct{ ID int }
type K3 struct{ ID int }
type K4 struct{ ID int }
type K5 struct{ ID int }
type K6 struct{ ID int }
type K7 struct{ ID int }
type K8 struct{ ID int }
type K9 struct{ ID int }

func (K4) M0() {}
func (K5) M0() {}
func (K6) M0() {}
func (K6) M1() {}
func (K7) M2() {}
func (K8) M0() {}
func (K8) M2() {}

type I0 interface{ M0() }
type I1 interface {
	M0()
	M1()
}
type I2 interface{ M2() }
type I3 interface{ M0() } // twin of I0

// E0 is a concrete error type (pointer receiver, nil-safe).
type E0 struct{ ID int }

func (e *E0) Error() string {
	if e == nil {
		return "E0(nil)"
	}
	return fmt.Sprintf("E0(%d)", e.ID)
}

// L0 and the unnamed []int are distinct types that Go lets be assigned to one another (same underlying type,
// one of them unnamed): the library must not treat one as the other
type L0 []int

const (
	tyL0    = 21
	tyLU    = 22
	tyPI0   = 23 // *I0: a pointer to an interface — a concrete type of its own
	tyI0    = 10
	tyI1    = 11
	tyI2    = 12
	tyI3    = 13
	tyE0    = 20
	tyError = 1000
)

var errType = reflect.TypeOf((*error)(nil)).Elem()

var poolTypes = map[int]reflect.Type{
	0: reflect.TypeOf(K0{}), 1: reflect.TypeOf(K1{}), 2: reflect.TypeOf(K2{}), 3: reflect.TypeOf(K3{}),
	4: reflect.TypeOf(K4{}), 5: reflect.TypeOf(K5{}), 6: reflect.TypeOf(K6{}), 7: reflect.TypeOf(K7{}),
	8: reflect.TypeOf(K8{}), 9: reflect.TypeOf(K9{}),
	tyI0:    reflect.TypeOf((*I0)(nil)).Elem(),
	tyI1:    reflect.TypeOf((*I1)(nil)).Elem(),
	tyI2:    reflect.TypeOf((*I2)(nil)).Elem(),
	tyI3:    reflect.TypeOf((*I3)(nil)).Elem(),
	tyE0:    reflect.TypeOf((*E0)(nil)),
	tyError: errType,
	tyL0:    reflect.TypeOf(L0{}),
	tyLU:    reflect.TypeOf([]int{}),
	tyPI0:   reflect.TypeOf((*I0)(nil)),
}

var (
	regMu   sync.Mutex
	typeIDs = map[reflect.Type]int{}
	idTypes = map[int]reflect.Type{}
	nextDyn = 2000
)

func init() {
	for id, t := range poolTypes {
		typeIDs[t] = id
		idTypes[id] = t
	}
	// the driver renders type names by this convention (ErrArgumentUnsatisfied's message is compared line by line)
	for id, t := range poolTypes {
		want := ""
		switch {
		case id <= 9:
			want = fmt.Sprintf("main.K%d", id)
		case id >= tyI0 && id <= tyI3:
			want = fmt.Sprintf("main.I%d", id-tyI0)
		case id == tyE0:
			want = "*main.E0"
		case id == tyError:
			want = "error"
		case id == tyL0:
			want = "main.L0"
		case id == tyLU:
			want = "[]int"
		case id == tyPI0:
			want = "*main.I0"
		}
		if t.String() != want {
			panic(fmt.Sprintf("type %d prints as %s, the driver expects %s", id, t.String(), want))
		}
	}
}

// tyID returns the id of a type, registering unknown types with fresh ids >= 2000.
func tyID(t reflect.Type) int {
	regMu.Lock()
	defer regMu.Unlock()
	if id, ok := typeIDs[t]; ok {
		return id
	}
	id := nextDyn
	nextDyn++
	typeIDs[t] = id
	idTypes[id] = t
	return id
}

func tyOf(id int) reflect.Type {
	regMu.Lock()
	defer regMu.Unlock()
	return idTypes[id]
}

func isIface(id int) bool { return tyOf(id).Kind() == reflect.Interface }

// implementers lists the concrete pool types implementing interface id.
func implementers(id int) []int {
	var out []int
	it := tyOf(id)
	for c := 0; c <= 9; c++ {
		if tyOf(c).Implements(it) {
			out = append(out, c)
		}
	}
	if tyOf(tyE0).Implements(it) {
		out = append(out, tyE0)
	}
	return out
}

// mkValue builds a value of (static) type id carrying provenance vid. For an
// interface type the dynamic type is its first implementer unless dyn >= 0.
func mkValue(id, vid, dyn int) reflect.Value {
	t := tyOf(id)
	switch {
	case id <= 9:
		v := reflect.New(t).Elem()
		v.Field(0).SetInt(int64(vid))
		return v
	case id == tyE0:
		if vid == 0 {
			return reflect.ValueOf((*E0)(nil)) // provenance id 0: the nil pointer
		}
		return reflect.ValueOf(&E0{ID: vid})
	case id == tyL0:
		return reflect.ValueOf(L0{vid})
	case id == tyLU:
		return reflect.ValueOf([]int{vid})
	case id == tyPI0:
		var i I0 = K4{ID: vid}
		return reflect.ValueOf(&i)
	case t.Kind() == reflect.Interface:
		impl := implementers(id)
		if len(impl) == 0 {
			return reflect.Zero(t)
		}
		d := impl[0]
		if dyn >= 0 {
			d = dyn
		}
		v := reflect.New(t).Elem()
		v.Set(mkValue(d, vid, -1))
		return v
	}
	return reflect.Zero(t)
}

// vidOf extracts the provenance id of a value (0 for nil / zero / unknown).
func vidOf(v reflect.Value) int {
	for v.IsValid() && (v.Kind() == reflect.Interface || v.Kind() == reflect.Ptr) {
		if v.IsNil() {
			return 0
		}
		v = v.Elem()
	}
	if v.IsValid() && v.Kind() == reflect.Slice && v.Type().Elem().Kind() == reflect.Int {
		if v.Len() == 0 {
			return 0
		}
		return int(v.Index(0).Int())
	}
	if !v.IsValid() || v.Kind() != reflect.Struct || v.NumField() == 0 || v.Field(0).Kind() != reflect.Int {
		return 0
	}
	return int(v.Field(0).Int())
}

// tildeOnly renders "" as "~" and leaves everything else alone (composite protocol fields).
func tildeOnly(s string) string {
	if s == "" {
		return "~"
	}
	return s
}

// e2s renders a name / subtype for the line protocol: "" is "~", and every byte outside
// [A-Za-z0-9_=.+/-] is percent-encoded (the protocol separates with spaces, commas, colons, bars).
func e2s(s string) string {
	if s == "" {
		return "~"
	}
	var b strings.Builder
	for i := 0; i < len(s); i++ {
		c := s[i]
		switch {
		case c >= 'a' && c <= 'z', c >= 'A' && c <= 'Z', c >= '0' && c <= '9', c == '_', c == '=', c == '.', c == '+', c == '/', c == '-':
			b.WriteByte(c)
		default:
			fmt.Fprintf(&b, "%%%02X", c)
		}
	}
	return b.String()
}
