package main

// Scenario generators and emitters for the resolver families.

import (
	"bufio"
	"fmt"
	"os"
	"strings"

	am "github.com/hashicorp/go-argmapper"
)

type genCfg struct {
	names     []string
	subs      []string // drawn uniformly; "" several times to bias
	types     []int
	maxConvs  int
	maxDepth  int
	pFail     int // percent of converters with a failing script
	pOnce     int
	pLeave    int // percent of requirements left unsatisfied
	pDistract int // percent chance per slot of adding a distractor input/converter
	forms     []string
	multiIn   int // percent of converters with two inputs
}

var cfgGeneral = genCfg{
	names: []string{"a", "b", "c"}, subs: []string{"", "", "", "", "x", "x", "y", "y", "k=v"},
	types:    []int{0, 1, 2, 3, 4, 5, tyI0, tyI3, tyI1, 6, tyL0, tyLU},
	maxConvs: 6, maxDepth: 3, pFail: 4, pOnce: 10, pLeave: 8, pDistract: 40,
	forms: []string{"pos", "pos", "struct", "ptr", "built"}, multiIn: 25,
}

func (c genCfg) randLabel(r *rng, typeOnly bool) lab {
	l := lab{Ty: c.types[r.intn(len(c.types))], Sub: c.subs[r.intn(len(c.subs))]}
	if !typeOnly && r.chance(1, 2) {
		l.Name = c.names[r.intn(len(c.names))]
	}
	return l
}

// distinctLabels draws n labels repeating no name and no type-only type.
func (c genCfg) distinctLabels(r *rng, n int, typeOnly bool) []lab {
	var out []lab
	names, tys := map[string]bool{}, map[int]bool{}
	for tries := 0; len(out) < n && tries < 20; tries++ {
		l := c.randLabel(r, typeOnly)
		if l.Name != "" {
			if names[l.Name] {
				continue
			}
			names[l.Name] = true
		} else {
			if tys[l.Ty] {
				continue
			}
			tys[l.Ty] = true
		}
		out = append(out, l)
	}
	return out
}

func formFor(r *rng, c genCfg, ls []lab) string {
	f := c.forms[r.intn(len(c.forms))]
	if f == "pos" {
		for _, l := range ls {
			if l.Name != "" || l.Sub != "" {
				return []string{"struct", "ptr", "built"}[r.intn(3)]
			}
		}
	}
	return f
}

func oformFor(r *rng, ls []lab) string {
	for _, l := range ls {
		if l.Name != "" || l.Sub != "" {
			return []string{"struct", "ptr"}[r.intn(2)]
		}
	}
	return []string{"pos", "pos", "struct", "ptr"}[r.intn(4)]
}

func concreteFor(r *rng, ty int) int {
	if isIface(ty) {
		impl := implementers(ty)
		if len(impl) > 0 {
			return impl[r.intn(len(impl))]
		}
	}
	return ty
}

// supplyFor returns an option that (more or less exactly) satisfies requirement l.
func (sc *scenario) supplyFor(r *rng, c genCfg, l lab, vid *int, exact bool) optSpecC {
	*vid++
	ty := concreteFor(r, l.Ty)
	o := optSpecC{Ty: ty, Vid: *vid, Name: l.Name, Sub: l.Sub}
	if !exact {
		switch r.intn(4) {
		case 0:
			o.Name = "" // type-only input for a named requirement
		case 1:
			o.Sub = "" // requirement has a subtype, input does not (or the other way round below)
		case 2:
			if o.Sub == "" {
				o.Sub = "x"
			}
		}
	}
	switch {
	case o.Name != "" && o.Sub != "":
		o.Kind = "namedsub"
	case o.Name != "":
		o.Kind = "named"
		if r.chance(1, 3) {
			o.Name = strings.ToUpper(o.Name)
		}
	case o.Sub != "":
		o.Kind = "typedsub"
	default:
		o.Kind = "typed"
	}
	return o
}

func (c genCfg) newConv(r *rng, sc *scenario, outs []lab, ins []lab) *fnSpec {
	f := &fnSpec{ID: len(sc.Funcs), Ins: ins, Outs: outs, Script: "ok"}
	f.Form = formFor(r, c, ins)
	f.OForm = oformFor(r, outs)
	f.HasErr = r.chance(1, 2)
	if r.intn(100) < c.pFail {
		f.HasErr = true
		f.Script = fmt.Sprintf("fail@%d", r.intn(2))
		if r.chance(1, 5) {
			f.Script = "typednil" // a non-nil error interface holding a nil pointer is still an error
		}
	}
	if f.OForm == "ptr" && r.chance(1, 10) {
		f.Script = "nilptr"
	}
	f.Once = r.intn(100) < c.pOnce
	for _, l := range outs {
		f.Dyn = append(f.Dyn, concreteFor(r, l.Ty))
	}
	sc.Funcs = append(sc.Funcs, f)
	return f
}

// genScenario builds a mostly satisfiable scenario backwards from the target's requirements.
func genScenario(r *rng, c genCfg) *scenario {
	sc := &scenario{errOwner: map[int]int{}}
	nIn := 1 + r.intn(3)
	typeOnlyTarget := r.chance(1, 3)
	tIns := c.distinctLabels(r, nIn, typeOnlyTarget)
	target := &fnSpec{ID: 0, Ins: tIns, Script: "ok"}
	target.Form = formFor(r, c, tIns)
	if target.Form == "pos" && r.chance(1, 5) && len(tIns) > 0 {
		target.Ins = append(target.Ins, tIns[0]) // positional parameters may repeat a type
	}
	target.Outs = c.distinctLabels(r, r.intn(3), true)
	for i := range target.Outs {
		target.Outs[i].Sub = ""
	}
	target.OForm = "pos"
	target.HasErr = r.chance(1, 2)
	for _, l := range target.Outs {
		target.Dyn = append(target.Dyn, concreteFor(r, l.Ty))
	}
	sc.Funcs = append(sc.Funcs, target)

	vid := 0
	type need struct {
		l     lab
		depth int
	}
	queue := []need{}
	for _, l := range tIns {
		queue = append(queue, need{l, 0})
	}
	var convIDs []int
	for len(queue) > 0 {
		n := queue[0]
		queue = queue[1:]
		k := r.intn(100)
		switch {
		case k < c.pLeave:
			// leave it
		case k < c.pLeave+35 || n.depth >= c.maxDepth || len(sc.Funcs) > c.maxConvs:
			sc.Opts = append(sc.Opts, sc.supplyFor(r, c, n.l, &vid, r.chance(3, 5)))
		default:
			// a converter producing something compatible with the requirement
			out := n.l
			switch r.intn(5) {
			case 0:
				out.Name = ""
			case 1:
				out.Sub = ""
			case 2:
				out.Ty = concreteFor(r, out.Ty)
			}
			outs := []lab{out}
			if r.chance(1, 6) {
				// a second output of the same type and subtype with the other "namedness", declared first
				twin := out
				if out.Name == "" {
					twin.Name = c.names[r.intn(len(c.names))]
				} else {
					twin.Name = ""
				}
				outs = []lab{twin, out}
			} else if r.chance(1, 4) {
				extra := c.randLabel(r, false)
				// a second type-only output of the same type is kept only now and then, under another subtype:
				// the two collide on the per-type key of the output set and only the later one is usable
				collide := extra.Name == "" && out.Name == "" && extra.Ty == out.Ty
				if collide && extra.Sub != out.Sub && r.chance(1, 2) {
					if r.chance(1, 2) {
						outs = []lab{extra, out}
					} else {
						outs = append(outs, extra)
					}
				} else if collide || (extra.Name != "" && extra.Name == out.Name) {
					extra = lab{}
				} else {
					outs = append(outs, extra)
				}
			}
			nins := 1
			if r.intn(100) < c.multiIn {
				nins = 2
			}
			if r.chance(1, 10) {
				nins = 0 // provider
			}
			ins := c.distinctLabels(r, nins, false)
			f := c.newConv(r, sc, outs, ins)
			convIDs = append(convIDs, f.ID)
			for _, l := range ins {
				queue = append(queue, need{l, n.depth + 1})
			}
		}
	}
	// distractors
	for i := 0; i < 3; i++ {
		if r.intn(100) < c.pDistract {
			sc.Opts = append(sc.Opts, sc.supplyFor(r, c, c.randLabel(r, false), &vid, true))
		}
		if r.intn(100) < c.pDistract/2 && len(sc.Funcs) <= c.maxConvs {
			f := c.newConv(r, sc, c.distinctLabels(r, 1+r.intn(2), false), c.distinctLabels(r, r.intn(3), false))
			convIDs = append(convIDs, f.ID)
		}
	}
	// a back edge now and then: reverse an existing single-input converter
	if len(convIDs) > 0 && r.chance(1, 4) && len(sc.Funcs) <= c.maxConvs+1 {
		g := sc.Funcs[convIDs[r.intn(len(convIDs))]]
		if len(g.Ins) >= 1 && len(g.Outs) >= 1 {
			f := c.newConv(r, sc, []lab{g.Ins[0]}, []lab{g.Outs[0]})
			convIDs = append(convIDs, f.ID)
		}
	}
	// register converters: shuffled, partly as raw functions, partly as *Func
	order := r.perm(len(convIDs))
	for _, i := range order {
		id := convIDs[i]
		kind := "conv"
		if sc.Funcs[id].Once || sc.Funcs[id].Form == "built" || r.chance(1, 2) {
			kind = "convfunc"
		}
		sc.Opts = append(sc.Opts, optSpecC{Kind: kind, Fids: []int{id}})
	}
	// shuffle all options; a prefix becomes defaults on the target
	p := r.perm(len(sc.Opts))
	shuf := make([]optSpecC, len(sc.Opts))
	for i, j := range p {
		shuf[i] = sc.Opts[j]
	}
	sc.Opts = shuf
	if r.chance(1, 4) && len(sc.Opts) > 0 {
		sc.Defaults = r.intn(len(sc.Opts) + 1)
	}
	return sc
}

// buildAll constructs every function (converters first so that default options can refer to them).
func (sc *scenario) buildAll() error {
	for _, f := range sc.Funcs[1:] {
		if err := f.build(sc); err != nil {
			return fmt.Errorf("conv %d: %v", f.ID, err)
		}
	}
	// spare capacity on purpose: whatever a Call appends must not land in the defaults' backing array
	defs := make([]am.Arg, 0, sc.Defaults+3)
	for _, o := range sc.Opts[:sc.Defaults] {
		defs = append(defs, sc.mkArg(o))
	}
	if err := sc.Funcs[0].build(sc, defs...); err != nil {
		return fmt.Errorf("target: %v", err)
	}
	return nil
}

// header emits the scenario definition lines.
func (sc *scenario) header(w *bufio.Writer, kind string, id int, extra string) {
	fmt.Fprintf(w, "scn %s %d %s\n", kind, id, extra)
	w.Flush()
	// types used
	fmt.Fprintf(w, "types")
	for _, t := range []int{0, 1, 2, 3, 4, 5, 6, 7, 8, 9, tyI0, tyI1, tyI2, tyI3, tyE0, tyError} {
		if !isIface(t) {
			continue
		}
		var im []string
		for _, c := range append(implementers(t), tyI0, tyI1, tyI2, tyI3, tyError) {
			if tyOf(c).Implements(tyOf(t)) {
				im = append(im, fmt.Sprint(c))
			}
		}
		fmt.Fprintf(w, " %d<%s", t, strings.Join(im, ","))
	}
	fmt.Fprintf(w, "\n")
	order := sc.convOrder()
	for _, f := range sc.Funcs {
		for _, l := range f.describe(sc.keyOfType(f.rtype, order)) {
			fmt.Fprintln(w, l)
		}
	}
	fmt.Fprintf(w, "defaults %d\n", sc.Defaults)
	for _, o := range sc.Opts {
		fmt.Fprintln(w, o.line())
	}
}

func setMaxStack() {}

// genCall: one scenario, executed `reps` times on the real library (fresh map orders each time).
func genCall(w *bufio.Writer, r *rng, id int, c genCfg, reps int, kind string) {
	sc := genScenario(r, c)
	sc.multiConv(r)
	if r.chance(1, 8) {
		// the target itself among the converters (a list of all known functions handed to every call)
		sc.Opts = append(sc.Opts, optSpecC{Kind: "convfunc", Fids: []int{0}})
	}
	emitCall(w, sc, id, reps, kind, "")
}

// genSubChain: one name under two subtypes within one call. The caller supplies name/have only; a two-input converter
// needs X and name/want; X is one conversion away from name/have, name/want only a longer chain away
// (name/have -> Z -> name/want). Whatever was learnt about the name under one subtype while X was resolved must not
// be handed over under the other.
func genSubChain(r *rng, c genCfg) *scenario {
	sc := &scenario{errOwner: map[int]int{}}
	p := r.perm(7)
	tA, tX, tZ, tY := p[0], p[1], p[2], p[3]
	name := c.names[r.intn(len(c.names))]
	subs := []string{"foo", "bar", "x"}
	i := r.intn(3)
	have, want := subs[i], subs[(i+1+r.intn(2))%3]
	if r.chance(1, 4) {
		have = "" // the supplied value carries no subtype at all
	}
	y := lab{Ty: tY}
	if r.chance(1, 2) {
		y.Name = "res"
	}
	target := &fnSpec{ID: 0, Ins: []lab{y}, Script: "ok", OForm: "pos", Outs: []lab{{Ty: r.intn(4)}}, Dyn: []int{-1}}
	target.Form = formFor(r, c, target.Ins)
	sc.Funcs = append(sc.Funcs, target)
	a := lab{Name: name, Ty: tA, Sub: have}
	kind := "namedsub"
	if have == "" {
		kind = "named"
	}
	sc.Opts = append(sc.Opts, optSpecC{Kind: kind, Name: name, Ty: tA, Sub: have, Vid: 1})
	x, z := lab{Ty: tX}, lab{Ty: tZ}
	if r.chance(1, 2) {
		x.Name, z.Name = "px", "pz"
	}
	fs := []*fnSpec{
		c.newConv(r, sc, []lab{x}, []lab{a}),
		c.newConv(r, sc, []lab{z}, []lab{a}),
		c.newConv(r, sc, []lab{{Name: name, Ty: tA, Sub: want}}, []lab{z}),
	}
	ins := []lab{x, {Name: name, Ty: tA, Sub: want}}
	if r.chance(1, 2) {
		ins[0], ins[1] = ins[1], ins[0]
	}
	fs = append(fs, c.newConv(r, sc, []lab{y}, ins))
	for _, j := range r.perm(len(fs)) {
		f := fs[j]
		f.Script, f.Once = "ok", false
		k := "convfunc"
		if f.Form != "built" && f.OForm != "built" && r.chance(1, 2) {
			k = "conv"
		}
		sc.Opts = append(sc.Opts, optSpecC{Kind: k, Fids: []int{f.ID}})
	}
	return sc
}

func emitCall(w *bufio.Writer, sc *scenario, id, reps int, kind, extra string) {
	if err := sc.buildAll(); err != nil {
		fmt.Fprintf(w, "scn %s %d builderr\nbuilderr %s\nend\n", kind, id, strings.ReplaceAll(err.Error(), "\n", " "))
		return
	}
	sc.header(w, kind, id, strings.TrimSpace(extra+" argform="+sc.argForm()))
	fmt.Fprintln(w, sc.dumpGraph(false))
	for rep := 0; rep < reps; rep++ {
		fmt.Fprintf(w, "run %d\n", rep)
		w.Flush()
		if rep > 0 {
			// fresh function objects for every run: memo cells and execution counters start empty — except that every
			// other run of a scenario without run-once functions is made on the objects of the run before (a plain
			// function object carries nothing from one call to the next), with the counters reset
			reuse := rep%2 == 1
			for _, f := range sc.Funcs {
				if f.Once {
					reuse = false
				}
			}
			if reuse {
				for _, f := range sc.Funcs {
					f.execs = 0
				}
			} else if err := sc.buildAll(); err != nil {
				fmt.Fprintf(w, "res builderr\n")
				continue
			}
		}
		for _, l := range sc.callOnce() {
			fmt.Fprintln(w, l)
		}
	}
	fmt.Fprintf(w, "end\n")
	// every third scenario: probes that involve a second function object or option-less calls
	if id%3 == 0 && kind == "call" {
		fmt.Fprintf(w, "scn probe %d\nsibling %s\nbare %s\npassthru %s\ntwinsets %s\nreuse %s\nend\n", id, siblingProbe(sc, sc.callArgs(false)), bareProbe(sc), passthruProbe(), twinSetsProbe(), reuseProbe())
	}
	w.Flush()
}

func init() {
	_ = os.Stderr
}

// ---------------------------------------------------------------- specialised families

var cfgFail = func() genCfg {
	c := cfgGeneral
	c.pFail = 45
	c.pLeave = 2
	c.maxDepth = 5
	c.maxConvs = 7
	return c
}()
var cfgSingle = func() genCfg {
	c := cfgGeneral
	c.multiIn = 0
	c.pFail = 0
	c.pLeave = 0
	c.maxDepth = 4
	return c
}()
var cfgAcyclic = func() genCfg { c := cfgGeneral; c.pFail = 0; c.pLeave = 0; return c }()
var concreteTypes = []int{0, 1, 2, 3, 4, 5, 6}

// genExact (C03): every target parameter has an exactly matching supplied value; everything else
// is a distractor (extra inputs of the same type under other names/subtypes, converters and
// providers producing the very same labels, same-named chains).
func genExact(r *rng, c genCfg) *scenario {
	c.types = concreteTypes
	sc := &scenario{errOwner: map[int]int{}}
	tIns := c.distinctLabels(r, 1+r.intn(3), r.chance(1, 3))
	if r.chance(1, 4) {
		// one named parameter named after its own type: declared as an embedded field of the parameter struct
		for i, l := range tIns {
			if l.Name != "" && l.Ty <= 3 {
				tIns[i].Name = fmt.Sprintf("k%d", l.Ty)
				break
			}
		}
	}
	target := &fnSpec{ID: 0, Ins: tIns, Script: "ok", OForm: "pos", HasErr: r.chance(1, 2)}
	target.Form = formFor(r, c, tIns)
	target.Outs = []lab{{Ty: r.intn(4)}}
	target.Dyn = []int{-1}
	sc.Funcs = append(sc.Funcs, target)
	vid := 0
	for _, l := range tIns {
		sc.Opts = append(sc.Opts, sc.supplyFor(r, c, l, &vid, true))
		sc.Opts[len(sc.Opts)-1].Ty = l.Ty
	}
	var convIDs []int
	for _, l := range tIns {
		for k := 0; k < 3; k++ {
			switch r.intn(6) {
			case 0: // same type under another name / subtype
				d := l
				if r.chance(1, 2) {
					d.Name = c.names[r.intn(len(c.names))]
				}
				d.Sub = []string{"", "x", "y", "s"}[r.intn(4)]
				if d != l {
					sc.Opts = append(sc.Opts, sc.supplyFor(r, c, d, &vid, true))
					sc.Opts[len(sc.Opts)-1].Ty = d.Ty
				}
			case 1: // converter producing exactly this label from something available
				src := c.randLabel(r, false)
				f := c.newConv(r, sc, []lab{l}, []lab{src})
				f.Script = "ok"
				convIDs = append(convIDs, f.ID)
				sc.Opts = append(sc.Opts, sc.supplyFor(r, c, src, &vid, true))
			case 2: // provider of this label
				f := c.newConv(r, sc, []lab{l}, nil)
				f.Script = "ok"
				convIDs = append(convIDs, f.ID)
			case 3: // same-named value of another type with a subtype + named converter to this label
				if l.Name != "" {
					other := lab{Name: l.Name, Ty: (l.Ty + 1) % 7, Sub: "s"}
					sc.Opts = append(sc.Opts, sc.supplyFor(r, c, other, &vid, true))
					sc.Opts[len(sc.Opts)-1].Ty = other.Ty
					f := c.newConv(r, sc, []lab{l}, []lab{{Name: l.Name, Ty: other.Ty}})
					f.Script = "ok"
					convIDs = append(convIDs, f.ID)
				}
			}
		}
	}
	if target.Form != "built" && r.chance(1, 6) {
		// a converter with the very Go signature of the target (function vertices are keyed by their type): the exact
		// values still go to the target, and nothing else runs
		twin := *target
		twin.ID = len(sc.Funcs)
		twin.Once = false
		sc.Funcs = append(sc.Funcs, &twin)
		convIDs = append(convIDs, twin.ID)
	}
	for _, id := range convIDs {
		kind := "conv"
		if sc.Funcs[id].Once || sc.Funcs[id].Form == "built" || r.chance(1, 2) {
			kind = "convfunc"
		}
		sc.Opts = append(sc.Opts, optSpecC{Kind: kind, Fids: []int{id}})
	}
	p := r.perm(len(sc.Opts))
	shuf := make([]optSpecC, len(sc.Opts))
	for i, j := range p {
		shuf[i] = sc.Opts[j]
	}
	sc.Opts = shuf
	return sc
}

// genHopCycle (C05, clause a): single-input *named* converters forming a cycle over one name, the caller's
// values carrying subtypes the parameters do not have (so that the values enter through the "no subtype
// takes some subtype" edges), and a target that needs something only the cycle produces.
func genHopCycle(r *rng, c genCfg) *scenario {
	sc := &scenario{errOwner: map[int]int{}}
	n := c.names[r.intn(len(c.names))]
	k := 2 + r.intn(2) // cycle length
	tys := r.perm(7)[:k+1]
	z := tys[k]
	tl := lab{Ty: z}
	if r.chance(1, 3) {
		tl.Name = c.names[r.intn(len(c.names))]
		if tl.Name == n {
			tl.Name = ""
		}
	}
	target := &fnSpec{ID: 0, Ins: []lab{tl}, Script: "ok", OForm: "pos", Outs: []lab{{Ty: r.intn(4)}}, Dyn: []int{-1}}
	target.Form = formFor(r, c, target.Ins)
	sc.Funcs = append(sc.Funcs, target)
	at := r.intn(k) // the converter that also yields what the target needs
	var ids []int
	for i := 0; i < k; i++ {
		outs := []lab{{Name: n, Ty: tys[(i+1)%k]}}
		if i == at {
			outs = append(outs, tl)
		}
		f := c.newConv(r, sc, outs, []lab{{Name: n, Ty: tys[i]}})
		f.Script, f.Once, f.HasErr = "ok", false, r.chance(1, 2)
		ids = append(ids, f.ID)
	}
	vid := 0
	subs := []string{"s", "y", "x"}
	for i := 0; i < k; i++ {
		if i < 2 || r.chance(1, 2) {
			vid++
			o := optSpecC{Kind: "namedsub", Name: n, Ty: tys[i], Vid: vid, Sub: subs[r.intn(3)]}
			if r.chance(1, 6) {
				o.Kind, o.Sub = "named", ""
			}
			sc.Opts = append(sc.Opts, o)
		}
	}
	for _, id := range r.perm(len(ids)) {
		kind := "conv"
		if sc.Funcs[ids[id]].Form == "built" || r.chance(1, 2) {
			kind = "convfunc"
		}
		sc.Opts = append(sc.Opts, optSpecC{Kind: kind, Fids: []int{ids[id]}})
	}
	p := r.perm(len(sc.Opts))
	shuf := make([]optSpecC, len(sc.Opts))
	for i, j := range p {
		shuf[i] = sc.Opts[j]
	}
	sc.Opts = shuf
	return sc
}

// genHopeless (C02 / C13): a general scenario in which one target parameter is made hopeless
// (type 9 is never supplied nor produced) or merely underivable (a converter produces it but needs
// something unavailable, possibly through a cycle).
func genHopeless(r *rng, c genCfg) *scenario {
	sc := genScenario(r, c)
	t := sc.Funcs[0]
	dead := lab{Ty: 9}
	if r.chance(1, 2) {
		dead.Name = c.names[r.intn(len(c.names))]
		for _, l := range t.Ins {
			if l.Name == dead.Name {
				dead.Name = "zz"
			}
		}
	}
	if t.Form == "pos" {
		dead.Name = ""
	} else if r.chance(1, 5) {
		dead.Name = "k9" // declared as an embedded field of the parameter struct
	} else if r.chance(1, 5) {
		// a subtype with characters that mean something to a formatter: the message must still mention the argument
		dead.Sub = []string{"pkg%2FMessage", "100%d", "%s"}[r.intn(3)]
	}
	t.Ins = append(t.Ins, dead)
	if dead.Name == "" && t.Form != "pos" && r.chance(1, 3) {
		// a second underivable type-only parameter of the same type that differs in its subtype only: both are missing,
		// both must be listed
		sub2 := []string{"foo", "bar", dead.Sub + "x"}[r.intn(3)]
		if sub2 == dead.Sub {
			sub2 += "x"
		}
		t.Ins = append(t.Ins, lab{Ty: 9, Sub: sub2})
	}
	if (t.Form == "struct" || t.Form == "ptr") && r.chance(1, 5) {
		// a further parameter with an exactly matching value whose name is not ASCII: it must never be listed
		// (declared through a struct tag: the model's case folding is ASCII only, so no form that upper-cases names)
		x := lab{Name: "äpfel", Ty: r.intn(4)}
		t.Ins = append(t.Ins, x)
		sc.Opts = append(sc.Opts, optSpecC{Kind: "named", Name: x.Name, Ty: x.Ty, Vid: 4003 + 4*r.intn(3)})
	}
	switch r.intn(4) {
	case 3: // mutual multi-input cycle: f(X, 8) -> 9, g(9, X) -> 8, X supplied
		x := lab{Ty: r.intn(4)}
		vid := 7000
		sc.Opts = append(sc.Opts, sc.supplyFor(r, c, x, &vid, true))
		f := c.newConv(r, sc, []lab{dead}, []lab{x, {Ty: 8}})
		g := c.newConv(r, sc, []lab{{Ty: 8}}, []lab{{Ty: 9}, x})
		f.Script, g.Script = "ok", "ok"
		sc.Opts = append(sc.Opts, optSpecC{Kind: "convfunc", Fids: []int{f.ID}}, optSpecC{Kind: "convfunc", Fids: []int{g.ID}})
	case 0: // hopeless: nothing produces type 9
	case 1: // a converter produces it but needs type 8, which nothing provides
		f := c.newConv(r, sc, []lab{dead}, []lab{{Ty: 8}, c.randLabel(r, false)})
		f.Script = "ok"
		sc.Opts = append(sc.Opts, optSpecC{Kind: "convfunc", Fids: []int{f.ID}})
	case 2: // a two-converter cycle 9 <- 8 <- 9
		f := c.newConv(r, sc, []lab{dead}, []lab{{Ty: 8}})
		g := c.newConv(r, sc, []lab{{Ty: 8}}, []lab{{Ty: 9}})
		f.Script, g.Script = "ok", "ok"
		gk := "conv" // as a raw function, unless that would drop its run-once option
		if g.Once || g.Form == "built" {
			gk = "convfunc"
		}
		sc.Opts = append(sc.Opts, optSpecC{Kind: "convfunc", Fids: []int{f.ID}}, optSpecC{Kind: gk, Fids: []int{g.ID}})
	}
	// a second converter with the very Go signature of an existing one (both must be reported), supplied
	// as a built function so that its identity is observable
	if len(sc.Funcs) > 1 && r.chance(1, 3) {
		g := sc.Funcs[1+r.intn(len(sc.Funcs)-1)]
		if g.Form != "built" && g.OForm != "built" {
			twin := *g
			twin.ID = len(sc.Funcs)
			twin.Once = false
			sc.Funcs = append(sc.Funcs, &twin)
			sc.Opts = append(sc.Opts, optSpecC{Kind: "convfunc", Fids: []int{twin.ID}})
		}
	}
	// converter generators next to the supplied converters: idle ones, or some converters generated
	switch r.intn(5) {
	case 0:
		sc.Opts = append(sc.Opts, optSpecC{Kind: "gen", Vid: 90, Ty: r.intn(10), Name: "*", Fids: []int{0}, Sub: "nil"})
	case 1:
		if sc.buildAll() == nil {
			sc.gensify(r)
		}
	}
	return sc
}

// genLayered: an acyclic scenario in which intermediate results are shared — supplied values of distinct concrete
// types, then converters each taking one or two of the types available so far and producing a new one, the target
// taking the last ones. Multi-input converters are resolved by nested searches whose paths run through converters
// reached before (clause (b) of C05: every converter satisfiable, the graph acyclic).
func genLayered(r *rng, c genCfg) *scenario {
	sc := &scenario{errOwner: map[int]int{}}
	perm := r.perm(10)
	nIn := 1 + r.intn(3)
	var avail []int
	target := &fnSpec{ID: 0, Script: "ok", OForm: "pos", Outs: []lab{{Ty: r.intn(4)}}, Dyn: []int{-1}}
	sc.Funcs = append(sc.Funcs, target)
	for i := 0; i < nIn; i++ {
		avail = append(avail, perm[i])
		sc.Opts = append(sc.Opts, optSpecC{Kind: "typed", Ty: perm[i], Vid: i + 1})
	}
	nConv := 2 + r.intn(5)
	if nIn+nConv > 10 {
		nConv = 10 - nIn
	}
	for j := 0; j < nConv; j++ {
		k := 1 + r.intn(2)
		if k > len(avail) {
			k = len(avail)
		}
		var ins []lab
		for _, i := range r.perm(len(avail))[:k] {
			ins = append(ins, lab{Ty: avail[i]})
		}
		// prefer recent results as inputs: chains with shared ancestors
		if len(avail) > nIn && r.chance(2, 3) {
			ins[0] = lab{Ty: avail[len(avail)-1]}
			if len(ins) == 2 && ins[1] == ins[0] {
				ins = ins[:1]
			}
		}
		out := perm[nIn+j]
		f := c.newConv(r, sc, []lab{{Ty: out}}, ins)
		f.Script, f.Once, f.HasErr = "ok", false, r.chance(1, 3)
		avail = append(avail, out)
		kind := "conv"
		if f.Form == "built" || r.chance(1, 2) {
			kind = "convfunc"
		}
		sc.Opts = append(sc.Opts, optSpecC{Kind: kind, Fids: []int{f.ID}})
	}
	target.Ins = []lab{{Ty: avail[len(avail)-1]}}
	if len(avail) > nIn+1 && r.chance(1, 2) {
		target.Ins = append(target.Ins, lab{Ty: avail[len(avail)-2]})
	}
	target.Form = formFor(r, c, target.Ins)
	p := r.perm(len(sc.Opts))
	shuf := make([]optSpecC, len(sc.Opts))
	for i, j := range p {
		shuf[i] = sc.Opts[j]
	}
	sc.Opts = shuf
	return sc
}

// genTwin: the documented finding F14 made on purpose — two distinct interface types with equal method sets (types 10
// and 13): a converter's typed output of type 10 under subtype y reaches a parameter of type 10 under another subtype
// through the subtype-less twin vertex of type 13, which exists as soon as something mentions type 13.
func genTwin(r *rng, c genCfg) *scenario {
	sc := &scenario{errOwner: map[int]int{}}
	subs := []string{"x", "y", "k=v"}
	want := subs[r.intn(3)]
	have := subs[(indexOf(subs, want)+1+r.intn(2))%3]
	p := lab{Ty: 10, Sub: want}
	if r.chance(1, 2) {
		p.Name = c.names[r.intn(len(c.names))]
	}
	target := &fnSpec{ID: 0, Ins: []lab{p}, Script: "ok", OForm: "pos", Form: []string{"struct", "ptr", "built"}[r.intn(3)]}
	sc.Funcs = append(sc.Funcs, target)
	src := r.intn(4)
	sc.Opts = append(sc.Opts, optSpecC{Kind: "typed", Ty: src, Vid: 1})
	f := c.newConv(r, sc, []lab{{Ty: 10, Sub: have}}, []lab{{Ty: src}})
	f.Script, f.Once = "ok", false
	// something that mentions the twin type without a subtype
	g := c.newConv(r, sc, []lab{{Ty: 5 + r.intn(2)}}, []lab{{Ty: 13}})
	g.Script, g.Once = "ok", false
	for _, x := range []*fnSpec{f, g} {
		k := "convfunc"
		if x.Form != "built" && r.chance(1, 2) {
			k = "conv"
		}
		sc.Opts = append(sc.Opts, optSpecC{Kind: k, Fids: []int{x.ID}})
	}
	if r.chance(1, 2) {
		sc.Opts[0], sc.Opts[len(sc.Opts)-1] = sc.Opts[len(sc.Opts)-1], sc.Opts[0]
	}
	return sc
}

func indexOf(l []string, s string) int {
	for i, x := range l {
		if x == s {
			return i
		}
	}
	return 0
}

// genAffinity (C07): the two documented priority families.
func genAffinity(r *rng, c genCfg) (*scenario, string) {
	sc := &scenario{errOwner: map[int]int{}}
	T := r.intn(7)
	S := (T + 1 + r.intn(5)) % 7
	nilNamed := r.chance(1, 6)
	if nilNamed {
		T = tyE0 // a pointer type: the value under the parameter's own name is a nil pointer (a value like any other)
	}
	n := c.names[r.intn(len(c.names))]
	target := &fnSpec{ID: 0, Ins: []lab{{Name: n, Ty: S}}, Script: "ok", OForm: "pos", Form: []string{"struct", "ptr", "built"}[r.intn(3)]}
	sc.Funcs = append(sc.Funcs, target)
	vid := 1
	sc.Opts = append(sc.Opts, optSpecC{Kind: "named", Name: n, Ty: T, Vid: vid})
	if nilNamed {
		sc.Opts[0].Vid = 0
	}
	if r.chance(1, 3) {
		// family B with the same-named value supplied under a subtype (the name-using converter takes it without)
		sc.Opts[len(sc.Opts)-1] = optSpecC{Kind: "namedsub", Name: n, Ty: T, Vid: sc.Opts[0].Vid, Sub: []string{"foo", "bar"}[r.intn(2)]}
	}
	var extra string
	if r.chance(1, 2) {
		// family A: one converter with a type-only input, several same-typed named inputs; one to three
		// named parameters each to be converted from the input of its own name
		pnames := []string{n}
		for _, x := range c.names {
			if x != n && r.chance(1, 3) {
				pnames = append(pnames, x)
			}
		}
		target.Ins = nil
		sc.Opts = nil
		vid = 0
		var wants []string
		psub := ""
		if r.chance(1, 4) && target.Form != "pos" {
			psub = []string{"x", "y"}[r.intn(2)] // the named parameters themselves carry a subtype
		}
		for _, pn := range pnames {
			target.Ins = append(target.Ins, lab{Name: pn, Ty: S, Sub: psub})
			vid++
			o := optSpecC{Kind: "named", Name: pn, Ty: T, Vid: vid}
			if nilNamed && pn == n {
				o.Vid = 0
			}
			if r.chance(1, 4) { // the matching input carries a subtype, the parameter does not
				o.Kind, o.Sub = "namedsub", []string{"foo", "bar"}[r.intn(2)]
			}
			sc.Opts = append(sc.Opts, o)
			wants = append(wants, fmt.Sprintf("%s:%d", pn, o.Vid))
		}
		others := []string{"m1", "m2", "m3", "m4", "m5", "m6"}
		k := 1 + r.intn(6)
		for i := 0; i < k; i++ {
			vid++
			o := optSpecC{Kind: "named", Name: others[i], Ty: T, Vid: vid}
			if r.chance(1, 4) {
				o.Kind, o.Sub = "namedsub", []string{"foo", "bar"}[r.intn(2)]
			}
			sc.Opts = append(sc.Opts, o)
		}
		outs := []lab{{Ty: S}}
		if len(pnames) >= 2 && r.chance(1, 3) {
			// one converter run yields every named parameter at once: each parameter must still come from the run on
			// the input of its own name, not from whatever an earlier run left in its vertex
			outs = append([]lab(nil), target.Ins...)
		}
		f := c.newConv(r, sc, outs, []lab{{Ty: T}})
		f.Script, f.Once = "ok", false
		sc.Opts = append(sc.Opts, optSpecC{Kind: []string{"conv", "convfunc"}[r.intn(2)], Fids: []int{f.ID}})
		if f.Form == "built" {
			sc.Opts[len(sc.Opts)-1].Kind = "convfunc"
		}
		extra = fmt.Sprintf("fam=affA conv=%d want=%s", f.ID, strings.Join(wants, ","))
	} else {
		// family B: a type-only converter and one that uses the name
		out1 := lab{Ty: S}
		f1 := c.newConv(r, sc, []lab{out1}, []lab{{Ty: T}})
		out2 := lab{Ty: S}
		if r.chance(1, 2) {
			out2.Name = n
		}
		f2 := c.newConv(r, sc, []lab{out2}, []lab{{Name: n, Ty: T}})
		f1.Script, f2.Script, f1.Once, f2.Once = "ok", "ok", false, false
		ids := []int{f1.ID, f2.ID}
		if r.chance(1, 2) {
			ids[0], ids[1] = ids[1], ids[0]
		}
		for _, id := range ids {
			sc.Opts = append(sc.Opts, optSpecC{Kind: "convfunc", Fids: []int{id}})
		}
		extra = fmt.Sprintf("fam=affB want=%d not=%d", f2.ID, f1.ID)
	}
	p := r.perm(len(sc.Opts))
	shuf := make([]optSpecC, len(sc.Opts))
	for i, j := range p {
		shuf[i] = sc.Opts[j]
	}
	sc.Opts = shuf
	return sc, extra
}

// genGens: a general scenario in which some converters are not registered directly but returned by
// converter generators (user code the library runs, for every named value and typed output present,
// while it builds the graph); plus generators that return nothing or report an error.
func genGens(r *rng, c genCfg) *scenario {
	sc := genScenario(r, c)
	if err := sc.buildAll(); err != nil {
		return sc
	}
	sc.gensify(r)
	return sc
}

// gensify replaces some directly registered converters by generators that return them (the functions must
// have been built: a generated function needs a Go type of its own), and sometimes adds an idle or
// failing generator.
func (sc *scenario) gensify(r *rng) {
	unique := func(id int) bool {
		for _, f := range sc.Funcs {
			if f.ID != id && f.rtype == sc.Funcs[id].rtype {
				return false
			}
		}
		return true
	}
	// labels of vertices likely to be present when the generators run
	var pool []lab
	for _, l := range sc.Funcs[0].Ins {
		if l.Name != "" {
			pool = append(pool, l)
		}
	}
	for _, o := range sc.Opts {
		switch o.Kind {
		case "named", "namedsub":
			pool = append(pool, lab{Name: o.Name, Ty: o.Ty, Sub: o.Sub})
		case "typed", "typedsub":
			pool = append(pool, lab{Ty: o.Ty, Sub: o.Sub})
		}
	}
	for _, f := range sc.Funcs[1:] {
		pool = append(pool, f.Outs...)
	}
	trigger := func() (int, string) {
		if len(pool) == 0 || r.chance(1, 8) {
			return r.intn(10), "*"
		}
		l := pool[r.intn(len(pool))]
		if r.chance(1, 3) {
			return l.Ty, l.Name
		}
		return l.Ty, "*"
	}
	gid := 0
	for i, o := range sc.Opts {
		if (o.Kind == "conv" || o.Kind == "convfunc") && len(o.Fids) == 1 && unique(o.Fids[0]) && r.chance(3, 5) {
			ty, name := trigger()
			mode := "ok"
			if r.chance(1, 12) {
				mode = "fail"
			} else if r.chance(1, 12) {
				mode = "nil"
			}
			sc.Opts[i] = optSpecC{Kind: "gen", Vid: gid, Ty: ty, Name: name, Fids: o.Fids, Sub: mode}
			gid++
		}
	}
	if r.chance(1, 5) {
		ty, name := trigger()
		o := optSpecC{Kind: "gen", Vid: gid, Ty: ty, Name: name, Fids: []int{0}, Sub: []string{"nil", "nil", "fail"}[r.intn(3)]}
		pos := r.intn(len(sc.Opts) + 1)
		sc.Opts = append(sc.Opts[:pos], append([]optSpecC{o}, sc.Opts[pos:]...)...)
		if pos < sc.Defaults {
			sc.Defaults++
		}
	}
}

// genMalformed: a general scenario with one malformed element among the call options.
func genMalformed(r *rng, c genCfg) *scenario {
	sc := genScenario(r, c)
	sc.Defaults = 0
	if r.chance(1, 4) {
		// a target that needs nothing: the options are examined (and generators consulted) all the same
		sc.Funcs[0].Ins = nil
		if sc.Funcs[0].Form == "built" {
			sc.Funcs[0].Form = "pos"
		}
	}
	kinds := []string{"nil", "convnil", "convnil", "convbad", "convbad", "genfail", "genfail", "genfail", "gennil", "gennil", "namednil", "gennilfunc", "gennilfunc", "loggernil"}
	o := optSpecC{Kind: kinds[r.intn(len(kinds))], Name: "a"}
	pos := r.intn(len(sc.Opts) + 1)
	sc.Opts = append(sc.Opts[:pos], append([]optSpecC{o}, sc.Opts[pos:]...)...)
	return sc
}
