package main

// rng is a splitmix64 generator; every random choice in the harness derives
// from one of these, seeded from VERIF_SEED, so that any scenario replays.
type rng struct{ s uint64 }

func newRng(seed uint64) *rng { return &rng{s: seed*0x9E3779B97F4A7C15 + 0x1234567} }

func (r *rng) u64() uint64 {
	r.s += 0x9E3779B97F4A7C15
	z := r.s
	z = (z ^ (z >> 30)) * 0xBF58476D1CE4E5B9
	z = (z ^ (z >> 27)) * 0x94D049BB133111EB
	return z ^ (z >> 31)
}

// intn returns a value in [0,n).
func (r *rng) intn(n int) int {
	if n <= 0 {
		return 0
	}
	return int(r.u64() % uint64(n))
}

func (r *rng) chance(num, den int) bool { return r.intn(den) < num }

func (r *rng) perm(n int) []int {
	p := make([]int, n)
	for i := range p {
		p[i] = i
	}
	for i := n - 1; i > 0; i-- {
		j := r.intn(i + 1)
		p[i], p[j] = p[j], p[i]
	}
	return p
}

// fork derives an independent generator (for per-scenario seeds).
func (r *rng) fork() *rng { return newRng(r.u64()) }
