package main

import "bufio"

// runFamily dispatches the non-graph families; returns false if unknown.
func runFamily(fam string, w *bufio.Writer, r *rng, id, size int, opt string) bool {
	return false
}
