package main

import (
	"bufio"
	"fmt"
	"strings"
)

// runFamily dispatches the non-graph families; returns false if unknown.
func runFamily(fam string, w *bufio.Writer, r *rng, id, size int, opt string) bool {
	switch fam {
	case "sig":
		genSig(w, r, id, size)
	case "vset":
		genVset(w, r, id, size)
	case "opts":
		genOpts(w, r, id, size)
	case "result":
		genResult(w, r, id, size)
	case "redef":
		genRedef(w, r, id)
	case "redefgen":
		genRedefGen(w, r, id)
	case "conv":
		genConv(w, r, id)
	case "hist":
		genHist(w, r, id)
	case "race":
		g, rounds := 4, 25
		if size > 0 {
			g = size
		}
		if opt != "" {
			fmt.Sscanf(opt, "%d", &rounds)
		}
		raceFailOnce = strings.HasSuffix(opt, "f") // "25f": run-once converters abound and fail the first time
		genRace(w, r, id, g, rounds)
	case "convseq":
		genConvSeq(w, r, id)
	case "call":
		switch opt {
		case "", "general":
			sc, extra := genScenario(r, cfgGeneral), ""
			if r.chance(1, 10) {
				sc, extra = genSubChain(r, cfgGeneral), "shape=subchain"
			}
			sc.multiTyped(r)
			sc.multiConv(r)
			emitCall(w, sc, id, 3, "call", extra)
		case "fail":
			genCall(w, r, id, cfgFail, 2, "call")
		case "single":
			if r.chance(1, 4) {
				emitCall(w, genHopCycle(r, cfgSingle), id, 12, "call", "")
			} else {
				genCall(w, r, id, cfgSingle, 8, "call")
			}
		case "acyclic":
			if r.chance(1, 3) {
				emitCall(w, genLayered(r, cfgAcyclic), id, 6, "call", "fam=layered")
			} else {
				genCall(w, r, id, cfgAcyclic, 8, "call")
			}
		case "exact":
			sc := genExact(r, cfgGeneral)
			sc.multiTyped(r)
			emitCall(w, sc, id, 5, "call", "fam=exact")
		case "gens":
			emitCall(w, genGens(r, cfgGeneral), id, 3, "call", "fam=gens")
		case "malformed":
			emitCall(w, genMalformed(r, cfgGeneral), id, 2, "call", "fam=malformed")
		case "hopeless":
			sc := genHopeless(r, cfgGeneral)
			sc.multiConv(r)
			emitCall(w, sc, id, 2, "call", "fam=hopeless")
		case "twin":
			emitCall(w, genTwin(r, cfgGeneral), id, 3, "call", "fam=twin")
		case "affinity":
			sc, extra := genAffinity(r, cfgGeneral)
			emitCall(w, sc, id, 10, "call", extra)
		default:
			return false
		}
	default:
		return false
	}
	return true
}
