package main

import "bufio"

// runFamily dispatches the non-graph families; returns false if unknown.
func runFamily(fam string, w *bufio.Writer, r *rng, id, size int, opt string) bool {
	switch fam {
	case "sig":
		genSig(w, r, id, size)
	case "vset":
		genVset(w, r, id, size)
	case "opts":
		genOpts(w, r, id, size)
	case "result":
		genResult(w, r, id, size)
	case "call":
		genCall(w, r, id, cfgGeneral, 3, "call")
	default:
		return false
	}
	return true
}
