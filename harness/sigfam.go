package main

// Families for the signature / value-set / option / result layers (C14–C17).

import (
	"bufio"
	"errors"
	"fmt"
	"reflect"
	"sort"
	"strings"

	am "github.com/hashicorp/go-argmapper"
)

var markerType = reflect.TypeOf(am.Struct{})

// a few statically declared marker structs: unexported fields cannot be made with reflect.StructOf
type staticA struct {
	am.Struct
	A K0
	b K1
	C K2 `argmapper:",typeOnly"`
	d K3 `argmapper:"x"`
	E K4 `argmapper:"Renamed,subtype=s1"`
}
type staticB struct {
	am.Struct
	hidden K5
	Only   K6 `argmapper:",typeOnly,subtype=zz"`
	Plain  K7
}
type staticC struct {
	A K0
	am.Struct
	B K1 `argmapper:"bee"`
	c K2
}
type staticNoMarker struct {
	A K0
	B K1
}

// marker structs that embed further exported types besides the marker: those are ordinary fields
type EmbInner struct{ X int }
type staticD struct {
	am.Struct
	EmbInner
	B   K1
	*K2 `argmapper:"ptr"`
}
type staticE struct {
	am.Struct
	I0 `argmapper:",typeOnly,subtype=x"`
	A  K0
}

// the marker reachable only through a nested embedded struct: this struct does not embed the marker itself, so it is an
// ordinary type (its embedded carrier being a value named after its type if the struct were a marker struct)
type EmbCarrier struct{ am.Struct }
type staticF struct {
	EmbCarrier
	A K0
	B K1 `argmapper:"bee"`
}

var staticStructs = []reflect.Type{reflect.TypeOf(staticA{}), reflect.TypeOf(staticB{}), reflect.TypeOf(staticC{}),
	reflect.TypeOf(staticD{}), reflect.TypeOf(staticE{})}

var fieldNames = []string{"A", "B", "Cc", "Dx", "Name", "VALUE", "Xy", "Zed"}
var tagNames = []string{"", "", "x", "Foo", "bAr", "a", "Äpfel", "École"}
var tagOpts = []string{"typeOnly", "subtype=a", "subtype=b=c", "subtype=", "subType=z", "typeonly", "junk", "subtype=Q", "typeOnly=1"}

func randTag(r *rng) string {
	if r.chance(2, 5) {
		return ""
	}
	parts := []string{tagNames[r.intn(len(tagNames))]}
	for n := r.intn(4); n > 0; n-- {
		parts = append(parts, tagOpts[r.intn(len(tagOpts))])
	}
	return strings.Join(parts, ",")
}

var fieldTypePool = []int{0, 1, 2, 3, 4, 5, 6, tyI0, tyI1, tyE0, tyError}

// randMarkerStruct builds struct{Struct; fields…}; the marker is not always first.
func randMarkerStruct(r *rng, maxFields int, withMarker bool) reflect.Type {
	if withMarker && r.chance(1, 6) {
		return staticStructs[r.intn(len(staticStructs))]
	}
	n := r.intn(maxFields + 1)
	var sf []reflect.StructField
	names := r.perm(len(fieldNames))
	for i := 0; i < n && i < len(names); i++ {
		f := reflect.StructField{Name: fieldNames[names[i]], Type: tyOf(fieldTypePool[r.intn(len(fieldTypePool))])}
		if t := randTag(r); t != "" {
			f.Tag = reflect.StructTag(fmt.Sprintf(`argmapper:"%s"`, t))
		}
		sf = append(sf, f)
	}
	if r.chance(1, 8) {
		// an ordinary (named, not embedded) field that happens to have the marker's type: a value like any other
		f := reflect.StructField{Name: "Marker", Type: markerType}
		if t := randTag(r); t != "" && r.chance(1, 2) {
			f.Tag = reflect.StructTag(fmt.Sprintf(`argmapper:"%s"`, t))
		}
		at := r.intn(len(sf) + 1)
		sf = append(sf[:at], append([]reflect.StructField{f}, sf[at:]...)...)
	}
	if withMarker {
		m := reflect.StructField{Name: "Struct", Type: markerType, Anonymous: true}
		// reflect.StructOf only supports an embedded type with methods as the first field;
		// markers in other positions come from the static struct types
		sf = append([]reflect.StructField{m}, sf...)
	}
	return reflect.StructOf(sf)
}

// describeParam renders a parameter type for the model.
func describeParam(t reflect.Type) string {
	base, depth := t, 0
	for base.Kind() == reflect.Ptr && base != tyOf(tyE0) {
		base = base.Elem()
		depth++
	}
	if base.Kind() != reflect.Struct || isPool(t) {
		return fmt.Sprintf("P:%d", tyID(t))
	}
	var fs []string
	for i := 0; i < base.NumField(); i++ {
		f := base.Field(i)
		x, m := 1, 0
		if f.PkgPath != "" {
			x = 0
		}
		if f.Anonymous && f.Type == markerType {
			m = 1
		}
		tag := f.Tag.Get("argmapper")
		if i := strings.Index(tag+",", ","); i > 0 && !isASCII(tag[:i]) {
			// the model folds case for ASCII letters only: a name with other letters is handed over already folded
			tag = strings.ToLower(tag[:i]) + tag[i:]
		}
		fs = append(fs, fmt.Sprintf("%s|%s|%d|%d|%d", f.Name, e2s(tag), tyID(f.Type), x, m))
	}
	return fmt.Sprintf("S:%d:%d:[%s]", tyID(t), depth, strings.Join(fs, ";"))
}

func isASCII(s string) bool {
	for i := 0; i < len(s); i++ {
		if s[i] >= 0x80 {
			return false
		}
	}
	return true
}

func isPool(t reflect.Type) bool {
	id, ok := typeIDs[t]
	return ok && id < 2000
}

func labelStr(v am.Value) string {
	return fmt.Sprintf("%s:%d:%s", e2s(v.Name), tyID(v.Type), e2s(v.Subtype))
}

func valuesStr(vs []am.Value) string {
	var s []string
	for _, v := range vs {
		s = append(s, labelStr(v))
	}
	return strings.Join(s, " ")
}

func lookupsStr(set *am.ValueSet) string {
	var out []string
	seenN, seenT := map[string]bool{}, map[reflect.Type]bool{}
	for _, v := range set.Values() {
		if v.Name != "" && !seenN[v.Name] {
			seenN[v.Name] = true
			if p := set.Named(v.Name); p != nil {
				out = append(out, fmt.Sprintf("named:%s@%s", e2s(v.Name), labelStr(*p)))
			} else {
				out = append(out, fmt.Sprintf("named:%s@-", e2s(v.Name)))
			}
		}
		if !seenT[v.Type] {
			seenT[v.Type] = true
			if p := set.Typed(v.Type); p != nil {
				out = append(out, fmt.Sprintf("typed:%d@%s", tyID(v.Type), labelStr(*p)))
			} else {
				out = append(out, fmt.Sprintf("typed:%d@-", tyID(v.Type)))
			}
		}
		if p := set.TypedSubtype(v.Type, v.Subtype); p != nil {
			out = append(out, fmt.Sprintf("tsub:%d:%s@%s", tyID(v.Type), e2s(v.Subtype), labelStr(*p)))
		} else {
			out = append(out, fmt.Sprintf("tsub:%d:%s@-", tyID(v.Type), e2s(v.Subtype)))
		}
	}
	return strings.Join(out, " ")
}

// ---------------------------------------------------------------- C14: sig

func randParamList(r *rng, size int) []reflect.Type {
	switch k := r.intn(20); {
	case k < 2:
		return nil
	case k < 8: // positional
		n := 1 + r.intn(4)
		var ts []reflect.Type
		for i := 0; i < n; i++ {
			if r.chance(1, 8) {
				ts = append(ts, reflect.TypeOf(staticNoMarker{}))
			} else {
				ts = append(ts, tyOf(fieldTypePool[r.intn(len(fieldTypePool))]))
			}
		}
		return ts
	case k < 13: // struct form
		return []reflect.Type{randMarkerStruct(r, size, true)}
	case k < 16: // pointer form
		return []reflect.Type{reflect.PtrTo(randMarkerStruct(r, size, true))}
	case k < 17: // double pointer: must be rejected
		return []reflect.Type{reflect.PtrTo(reflect.PtrTo(randMarkerStruct(r, size, true)))}
	case k < 19: // marker struct mixed with other parameters: must be rejected
		ts := []reflect.Type{tyOf(r.intn(4)), randMarkerStruct(r, size, true)}
		if r.chance(1, 2) {
			ts[0], ts[1] = ts[1], ts[0]
		}
		if r.chance(1, 3) {
			ts[len(ts)-1] = reflect.PtrTo(ts[len(ts)-1])
		}
		return ts
	default: // single struct without marker: an ordinary type
		if r.chance(1, 6) {
			return []reflect.Type{reflect.TypeOf(staticF{})}
		}
		return []reflect.Type{randMarkerStruct(r, size, false)}
	}
}

func genSig(w *bufio.Writer, r *rng, id, size int) {
	ins := randParamList(r, size)
	outs := randParamList(r, size)
	switch r.intn(6) {
	case 0, 1, 2:
		outs = append(outs, errType)
	case 3:
		if len(outs) > 0 { // error in the middle
			outs = append([]reflect.Type{errType}, outs...)
		}
	case 4:
		outs = append(outs, tyOf(tyE0)) // concrete error type in final position
	}
	fmt.Fprintf(w, "scn sig %d\n", id)
	var f interface{}
	switch k := r.intn(30); {
	case k == 0:
		f = 42
		fmt.Fprintf(w, "nonfunc int\n")
	case k == 1:
		f = nil
		fmt.Fprintf(w, "nonfunc nil\n")
	case k == 2:
		// other non-function values: a pointer to a function variable (nil or not), a struct, a pointer to one
		fv := func(a int) int { return a }
		var nilfn func(int) int
		switch r.intn(5) {
		case 0:
			f = &fv
			fmt.Fprintf(w, "nonfunc funcptr\n")
		case 1:
			f = &nilfn
			fmt.Fprintf(w, "nonfunc nilfuncptr\n")
		case 2:
			f = staticNoMarker{}
			fmt.Fprintf(w, "nonfunc struct\n")
		case 3:
			f = &staticA{}
			fmt.Fprintf(w, "nonfunc structptr\n")
		default:
			f = []interface{}{fv}
			fmt.Fprintf(w, "nonfunc slice\n")
		}
	default:
		ft := reflect.FuncOf(ins, outs, false)
		f = reflect.MakeFunc(ft, func(args []reflect.Value) []reflect.Value {
			res := make([]reflect.Value, len(outs))
			for i, t := range outs {
				res[i] = reflect.Zero(t)
			}
			return res
		}).Interface()
		var is, os []string
		for _, t := range ins {
			is = append(is, describeParam(t))
		}
		for _, t := range outs {
			os = append(os, describeParam(t))
		}
		fmt.Fprintf(w, "in %s\nout %s\n", strings.Join(is, " "), strings.Join(os, " "))
	}
	var fn *am.Func
	var err error
	p := recovered(func() { fn, err = am.NewFunc(f) })
	switch {
	case p:
		fmt.Fprintf(w, "impl panic\n")
	case err != nil:
		fmt.Fprintf(w, "impl err\n")
		// the same value in a list, followed by a function that is fine: the list is rejected as a whole
		lst := "err"
		if recovered(func() {
			if fs, lerr := am.NewFuncList([]interface{}{f, func(a int) int { return a }}); lerr == nil {
				lst = fmt.Sprintf("ok:%d", len(fs))
			}
		}) {
			lst = "panic"
		}
		fmt.Fprintf(w, "list %s\n", lst)
	default:
		// what Values() hands out belongs to the caller: scribbling over it must not change a second look
		first := valuesStr(fn.Input().Values()) + " / " + valuesStr(fn.Output().Values())
		for _, vs := range [][]am.Value{fn.Input().Values(), fn.Output().Values()} {
			for i := range vs {
				vs[i].Name, vs[i].Subtype = "scribble", "scribble"
			}
			for i, j := 0, len(vs)-1; i < j; i, j = i+1, j-1 {
				vs[i], vs[j] = vs[j], vs[i]
			}
		}
		relook := "same"
		if valuesStr(fn.Input().Values())+" / "+valuesStr(fn.Output().Values()) != first {
			relook = "changed"
		}
		fmt.Fprintf(w, "impl ok\niv %s\nov %s\nilk %s\nolk %s\nrelook %s\n", valuesStr(fn.Input().Values()), valuesStr(fn.Output().Values()),
			lookupsStr(fn.Input()), lookupsStr(fn.Output()), relook)
		// Signature() of both sets (used by BuildFunc): positional sets index by type map
		var sig string
		ps := recovered(func() {
			var s []string
			for _, t := range fn.Input().Signature() {
				s = append(s, fmt.Sprint(tyID(t)))
			}
			sig = strings.Join(s, ",")
		})
		if ps {
			sig = "panic"
		}
		fmt.Fprintf(w, "isig %s\n", tildeOnly(sig))
	}
	fmt.Fprintf(w, "end\n")
}

// ---------------------------------------------------------------- C15: vset

var vsetNames = []string{"a", "B", "val", "Port", "xY", "n1", "é", "type", "range", "func"}

// names / subtypes that cannot be represented in a struct field / struct tag
var vsetNamesBad = []string{"x-y", "1x", "a b", "_u", "a,b"}
var vsetSubsBad = []string{"a,b", "x,typeOnly", "q\"r", "b\\s", "l1\nl2", ","}
var vsetSubs = []string{"", "", "s", "t", "k=v", "YQ==", "two words", "é"}

func genVset(w *bufio.Writer, r *rng, id, size int) {
	n := r.intn(size + 1)
	var vals []am.Value
	usedN := map[string]bool{}
	usedT := map[string]bool{}
	distinct := r.chance(4, 5)
	for i := 0; i < n; i++ {
		ty := []int{0, 1, 2, 3, 4, tyI0, tyE0}[r.intn(7)]
		v := am.Value{Type: tyOf(ty), Subtype: vsetSubs[r.intn(len(vsetSubs))]}
		if r.chance(1, 15) {
			v.Subtype = vsetSubsBad[r.intn(len(vsetSubsBad))]
		}
		if r.chance(1, 2) {
			v.Name = vsetNames[r.intn(len(vsetNames))]
			if r.chance(1, 15) {
				v.Name = vsetNamesBad[r.intn(len(vsetNamesBad))]
			}
			if usedN[strings.ToLower(v.Name)] {
				continue // duplicate names are outside the property's premise (StructOf rejects them)
			}
			usedN[strings.ToLower(v.Name)] = true
		} else {
			k := fmt.Sprint(ty)
			if distinct && usedT[k] {
				continue
			}
			usedT[k] = true
		}
		v.Value = mkValue(ty, 100+i, -1)
		vals = append(vals, v)
	}
	fmt.Fprintf(w, "scn vset %d distinct=%v\n", id, distinct)
	var in []string
	for _, v := range vals {
		in = append(in, fmt.Sprintf("%s:%d:%s:%d", e2s(v.Name), tyID(v.Type), e2s(v.Subtype), vidOf(v.Value)))
	}
	fmt.Fprintf(w, "v %s\n", strings.Join(in, " "))
	var set *am.ValueSet
	var err error
	p := recovered(func() { set, err = am.NewValueSet(vals) })
	if p || err != nil {
		fmt.Fprintf(w, "impl fail panic=%v\nend\n", p)
		return
	}
	fmt.Fprintf(w, "impl ok\niv %s\nilk %s\n", valuesStr(set.Values()), lookupsStr(set))
	// round trip: put provenance values in, render as signature, load into a second set
	p = recovered(func() {
		sigT := set.Signature()
		if len(sigT) != 1 {
			panic("signature")
		}
		st := reflect.New(sigT[0]).Elem()
		for i, v := range vals {
			st.Field(i + 1).Set(v.Value) // field 0 is the marker
		}
		if err := set.FromSignature([]reflect.Value{st}); err != nil {
			panic(err)
		}
		sv := set.SignatureValues()
		set2, _ := am.NewValueSet(vals)
		if err := set2.FromSignature(sv); err != nil {
			panic(err)
		}
		var rt []string
		for _, v := range set2.Values() {
			rt = append(rt, fmt.Sprintf("%s:%d:%s:%d", e2s(v.Name), tyID(v.Type), e2s(v.Subtype), vidOf(v.Value)))
		}
		fmt.Fprintf(w, "rt %s\n", strings.Join(rt, " "))
	})
	if p {
		fmt.Fprintf(w, "rt panic\n")
	}
	fmt.Fprintf(w, "end\n")
}

// ---------------------------------------------------------------- C16: opts

type optSpec struct {
	line string
	arg  am.Arg
}

var optNames = []string{"a", "A", "b", "B", "port", "Port", "PORT", ""}
var optSubs = []string{"", "s", "S", "t"}

func randOpt(r *rng, vid *int) optSpec {
	*vid++
	id := *vid
	ty := r.intn(4)
	val := mkValue(ty, id, -1).Interface()
	if r.chance(1, 8) {
		// a nil pointer is a value like any other (only the untyped nil is ignored)
		ty, id, val = tyE0, 0, (*E0)(nil)
	}
	n := optNames[r.intn(len(optNames))]
	st := optSubs[r.intn(len(optSubs))]
	switch k := r.intn(20); {
	case k < 6:
		return optSpec{fmt.Sprintf("opt named %s %d %d", e2s(n), ty, id), am.Named(n, val)}
	case k < 10:
		return optSpec{fmt.Sprintf("opt namedsub %s %d %d %s", e2s(n), ty, id, e2s(st)), am.NamedSubtype(n, val, st)}
	case k < 13:
		*vid++
		ty2 := r.intn(4)
		val2 := mkValue(ty2, *vid, -1).Interface()
		if r.chance(1, 4) {
			return optSpec{fmt.Sprintf("opt typed %d:%d nil %d:%d", ty, id, ty2, *vid), am.Typed(val, nil, val2)}
		}
		return optSpec{fmt.Sprintf("opt typed %d:%d %d:%d", ty, id, ty2, *vid), am.Typed(val, val2)}
	case k < 15:
		return optSpec{fmt.Sprintf("opt typedsub %d %d %s", ty, id, e2s(st)), am.TypedSubtype(val, st)}
	case k < 16:
		// a Value's own Arg(): NamedSubtype or TypedSubtype, decided by the name
		return optSpec{fmt.Sprintf("opt value %s %d %d %s", e2s(n), ty, id, e2s(st)),
			(&am.Value{Name: n, Type: reflect.TypeOf(val), Subtype: st, Value: reflect.ValueOf(val)}).Arg()}
	case k < 17:
		return optSpec{fmt.Sprintf("opt named %s nil", e2s(n)), am.Named(n, nil)}
	case k < 18:
		return optSpec{fmt.Sprintf("opt namedsub %s nil %s", e2s(n), e2s(st)), am.NamedSubtype(n, nil, st)}
	case k < 19:
		return optSpec{"opt typedsub nil " + e2s(st), am.TypedSubtype(nil, st)}
	default:
		return optSpec{"opt other", am.FuncName("x")}
	}
}

func dumpBuilder(d am.VerifBuilderDump) string {
	if d.Err != nil && d.Named == nil {
		return "impl nilarg"
	}
	var a, b, c, e []string
	for n, v := range d.Named {
		a = append(a, fmt.Sprintf("%s=%d:%d", n, tyID(v.Type()), vidOf(v)))
	}
	for n, m := range d.NamedSub {
		for st, v := range m {
			b = append(b, fmt.Sprintf("%s/%s=%d:%d", n, st, tyID(v.Type()), vidOf(v)))
		}
	}
	for t, v := range d.Typed {
		c = append(c, fmt.Sprintf("%d=%d:%d", tyID(t), tyID(v.Type()), vidOf(v)))
	}
	for t, m := range d.TypedSub {
		for st, v := range m {
			e = append(e, fmt.Sprintf("%d/%s=%d:%d", tyID(t), st, tyID(v.Type()), vidOf(v)))
		}
	}
	sort.Strings(a)
	sort.Strings(b)
	sort.Strings(c)
	sort.Strings(e)
	st := "ok"
	if d.Err != nil {
		st = "opterr"
	}
	return fmt.Sprintf("impl %s named=%s namedsub=%s typed=%s typedsub=%s convs=%d", st,
		strings.Join(a, ","), strings.Join(b, ","), strings.Join(c, ","), strings.Join(e, ","), len(d.Convs))
}

func genOpts(w *bufio.Writer, r *rng, id, size int) {
	n := r.intn(size + 1)
	vid := 0
	var specs []optSpec
	for i := 0; i < n; i++ {
		specs = append(specs, randOpt(r, &vid))
	}
	withNil := r.chance(1, 10)
	if withNil && n > 0 {
		specs[r.intn(n)] = optSpec{"opt nil", nil}
	}
	k := 0
	if n > 0 {
		k = r.intn(n + 1)
	}
	fmt.Fprintf(w, "scn opts %d defaults=%d\n", id, k)
	var defs, call []am.Arg
	for i, s := range specs {
		fmt.Fprintln(w, s.line)
		if i < k {
			defs = append(defs, s.arg)
		} else {
			call = append(call, s.arg)
		}
	}
	target, err := am.NewFunc(func() int { return 0 }, defs...)
	if err != nil {
		// a nil default option is rejected at construction
		fmt.Fprintf(w, "impl newfunc_err\nend\n")
		return
	}
	var d am.VerifBuilderDump
	if recovered(func() { d = am.VerifBuilder(target, call...) }) {
		fmt.Fprintf(w, "impl panic\nend\n")
		return
	}
	fmt.Fprintln(w, dumpBuilder(d))
	// the call itself (the target takes no parameters: the options must be examined all the same)
	callres := "ok"
	if recovered(func() {
		if res := target.Call(call...); res.Err() != nil {
			callres = "err"
			if strings.Contains(res.Err().Error(), "arg cannot be nil") {
				callres = "nilarg"
			}
		}
	}) {
		callres = "panic"
	}
	fmt.Fprintf(w, "callres %s\n", callres)
	// afterwards a use without call options: the defaults given at construction, and nothing an earlier call brought
	if callres == "ok" || callres == "err" {
		var d4 am.VerifBuilderDump
		if recovered(func() { d4 = am.VerifBuilder(target) }) {
			fmt.Fprintf(w, "impl4 panic\n")
		} else {
			fmt.Fprintln(w, strings.Replace(dumpBuilder(d4), "impl ", "impl4 ", 1))
		}
	}
	// the same options in a random order (judged only when all keys are distinct)
	p := r.perm(len(specs))
	var shuffled []am.Arg
	var ps []string
	for _, i := range p {
		shuffled = append(shuffled, specs[i].arg)
		ps = append(ps, fmt.Sprint(i))
	}
	fmt.Fprintf(w, "perm %s\n", strings.Join(ps, " "))
	var d2 am.VerifBuilderDump
	if recovered(func() { d2 = am.VerifBuilder(nil, shuffled...) }) {
		fmt.Fprintf(w, "impl2 panic\n")
	} else {
		fmt.Fprintln(w, strings.Replace(dumpBuilder(d2), "impl ", "impl2 ", 1))
	}
	// two functions whose default slices share one backing array with spare capacity: what one of
	// them is called with must never show up among the other's defaults
	if k > 0 {
		common := make([]am.Arg, len(defs), len(defs)+4)
		copy(common, defs)
		f1, err1 := am.NewFunc(func() int { return 0 }, common...)
		xo := randOpt(r, &vid)
		f2, err2 := am.NewFunc(func() int { return 0 }, append(common, xo.arg)...)
		if err1 == nil && err2 == nil {
			fmt.Fprintf(w, "x%s\n", xo.line)
			var d3 am.VerifBuilderDump
			if recovered(func() { am.VerifBuilder(f1, call...); f1.Call(call...); d3 = am.VerifBuilder(f2) }) {
				fmt.Fprintf(w, "impl3 panic\n")
			} else {
				fmt.Fprintln(w, strings.Replace(dumpBuilder(d3), "impl ", "impl3 ", 1))
			}
		}
	}
	fmt.Fprintf(w, "end\n")
}

// ---------------------------------------------------------------- C17: result

func genResult(w *bufio.Writer, r *rng, id, size int) {
	n := r.intn(size + 1)
	var outs []reflect.Type
	var rets []reflect.Value
	var desc []string
	for i := 0; i < n; i++ {
		switch k := r.intn(10); {
		case k < 5:
			ty := r.intn(4)
			outs = append(outs, tyOf(ty))
			rets = append(rets, mkValue(ty, 10+i, -1))
			desc = append(desc, fmt.Sprintf("K:%d:%d", ty, 10+i))
		case k < 8:
			outs = append(outs, errType)
			if r.chance(1, 2) {
				rets = append(rets, reflect.Zero(errType))
				desc = append(desc, "E:0")
			} else if r.chance(1, 4) {
				// a non-nil error interface holding a nil pointer: still an error (provenance id 1)
				v := reflect.New(errType).Elem()
				v.Set(reflect.ValueOf((*E0)(nil)))
				rets = append(rets, v)
				desc = append(desc, "E:1")
			} else {
				v := reflect.New(errType).Elem()
				v.Set(reflect.ValueOf(&E0{ID: 10 + i}))
				rets = append(rets, v)
				desc = append(desc, fmt.Sprintf("E:%d", 10+i))
			}
		default:
			outs = append(outs, tyOf(tyE0))
			if r.chance(1, 3) {
				rets = append(rets, reflect.Zero(tyOf(tyE0)))
				desc = append(desc, "C:0")
			} else {
				rets = append(rets, reflect.ValueOf(&E0{ID: 10 + i}))
				desc = append(desc, fmt.Sprintf("C:%d", 10+i))
			}
		}
	}
	if r.chance(1, 8) {
		// a single result that is a pointer to a marker struct with one value: an ordinary output (the pointer itself)
		st := structFor([]lab{{Ty: 0}})
		sv := reflect.New(st)
		sv.Elem().Field(1).Set(mkValue(0, 10, -1))
		outs, rets, desc = []reflect.Type{reflect.PtrTo(st)}, []reflect.Value{sv}, []string{"S:10"}
		if r.chance(1, 2) {
			outs, rets, desc = append(outs, errType), append(rets, reflect.Zero(errType)), append(desc, "E:0")
		}
	}
	resolveFails := r.chance(1, 6)
	var ins []reflect.Type
	if resolveFails {
		ins = []reflect.Type{tyOf(9)}
	}
	fmt.Fprintf(w, "scn result %d\nrets %s\nresolve %v\n", id, strings.Join(desc, " "), !resolveFails)
	ft := reflect.FuncOf(ins, outs, false)
	executed := false
	f := reflect.MakeFunc(ft, func(args []reflect.Value) []reflect.Value { executed = true; return rets })
	fn, err := am.NewFunc(f.Interface())
	if err != nil {
		fmt.Fprintf(w, "impl newfunc_err\nend\n")
		return
	}
	var res am.Result
	if recovered(func() { res = fn.Call() }) {
		fmt.Fprintf(w, "impl panic\nend\n")
		return
	}
	var os []string
	var e error
	var ln int
	p := recovered(func() {
		ln = res.Len()
		e = res.Err()
		for i := 0; i < ln; i++ {
			o := res.Out(i)
			if p, ok := o.(*E0); ok && p == nil && i < len(desc) && desc[i] == "E:1" {
				os = append(os, "1") // the typed nil pointer handed back as an ordinary output
			} else if i < len(desc) && strings.HasPrefix(desc[i], "S:") {
				// the pointer to the result struct, as returned: rendered by the id in its field
				ov := reflect.ValueOf(o)
				if ov.IsValid() && ov.Kind() == reflect.Ptr && !ov.IsNil() && ov.Elem().Kind() == reflect.Struct && ov.Elem().NumField() == 2 {
					os = append(os, fmt.Sprint(vidOf(ov.Elem().Field(1))))
				} else {
					os = append(os, "888888") // not the pointer the function returned
				}
			} else if i < len(desc) && desc[i] == "C:0" && o == nil {
				os = append(os, "777777") // a nil *E0 was returned: the output must be that typed nil, not an untyped one
			} else {
				os = append(os, fmt.Sprint(vidOf(reflect.ValueOf(o))))
			}
		}
	})
	if p {
		fmt.Fprintf(w, "impl accessor_panic\nend\n")
		return
	}
	es := "nil"
	if e != nil {
		var e0 *E0
		var unsat *am.ErrArgumentUnsatisfied
		switch {
		case errors.As(e, &unsat):
			es = "unsat"
		case errors.As(e, &e0) && e0 != nil:
			es = fmt.Sprint(e0.ID)
		case errors.As(e, &e0) && e0 == nil:
			es = "1" // the typed nil pointer
		default:
			es = "other"
		}
	}
	fmt.Fprintf(w, "impl len=%d err=%s out=%s executed=%v\n", ln, es, strings.Join(os, ","), executed)
	// loading the result into the function's own output set must leave the result as it is (and work twice)
	fr := "skip"
	if e == nil && ln > 0 {
		fr = "intact"
		ptrStruct := len(desc) > 0 && strings.HasPrefix(desc[0], "S:")
		unchanged := func() {
			for i := 0; i < ln && i < len(os); i++ {
				o := res.Out(i)
				if o != nil && reflect.TypeOf(o) != outs[i] && !(outs[i].Kind() == reflect.Interface && reflect.TypeOf(o).Implements(outs[i])) {
					fr = fmt.Sprintf("out%d_became_%s", i, strings.ReplaceAll(reflect.TypeOf(o).String(), " ", "_"))
					return
				}
			}
		}
		for k := 0; k < 2 && fr == "intact"; k++ {
			var lerr error
			if recovered(func() { lerr = fn.Output().FromResult(res) }) {
				// (loading a pointer-to-struct result is not something the library supports: it panics, which no
				// property forbids — but the result must still be what it was)
				if !ptrStruct {
					fr = "panic"
				}
			} else if lerr != nil {
				fr = "err"
			}
			if fr == "intact" {
				unchanged()
			}
		}
	}
	if len(fr) > 60 {
		fr = fr[:60]
	}
	fmt.Fprintf(w, "fr %s\nend\n", tildeOnly(fr))
}
