package main

// Scenario families for internal/graph (properties C18, C19, C20).
// Every block starts with "scn <kind> <n>" and ends with "end"; the lines in
// between carry the operations and what the real implementation answered.

import (
	"bufio"
	"fmt"
	"os"
	"reflect"
	"sort"
	"strings"
	"sync"

	am "github.com/hashicorp/go-argmapper"
)

// hv is a graph vertex with identity ID and an observable payload Tag.
type hv struct{ ID, Tag int }

func (v hv) Hashcode() interface{} { return v.ID }

// String: display names collide on purpose (identity is the hash code, never the name)
func (v hv) String() string { return fmt.Sprintf("n%d", v.ID%2) }

func vid(x interface{}) string {
	switch t := x.(type) {
	case nil:
		return "nil"
	case hv:
		return fmt.Sprint(t.ID)
	case int:
		return fmt.Sprint(t)
	}
	return "?"
}

// ---------------------------------------------------------------- observers

func obsGraph(g *am.VerifGraph, nv int) string {
	out, in, hash := g.VerifAdjacency()
	var vs, ko, ki, oe, ie []string
	for h, v := range hash {
		vs = append(vs, fmt.Sprintf("%s:%d", vid(h), v.(hv).Tag))
	}
	for u, m := range out {
		ko = append(ko, vid(u))
		for v, w := range m {
			oe = append(oe, fmt.Sprintf("%s>%s:%d", vid(u), vid(v), w))
		}
	}
	for v, m := range in {
		ki = append(ki, vid(v))
		for u, w := range m {
			ie = append(ie, fmt.Sprintf("%s>%s:%d", vid(u), vid(v), w))
		}
	}
	// public API view
	var pv, po, pi []string
	for _, v := range g.Vertices() {
		pv = append(pv, fmt.Sprintf("%s:%d", vid(v), v.(hv).Tag))
	}
	for i := 0; i < nv; i++ {
		for _, v := range g.OutEdges(hv{ID: i}) {
			po = append(po, fmt.Sprintf("%d>%s", i, vidTag(v)))
		}
		for _, v := range g.InEdges(hv{ID: i}) {
			pi = append(pi, fmt.Sprintf("%s>%d", vidTag(v), i))
		}
	}
	for _, s := range [][]string{vs, ko, ki, oe, ie, pv, po, pi} {
		sortNum(s)
	}
	return fmt.Sprintf("V=%s KO=%s KI=%s O=%s I=%s PV=%s PO=%s PI=%s",
		strings.Join(vs, ","), strings.Join(ko, ","), strings.Join(ki, ","),
		strings.Join(oe, ","), strings.Join(ie, ","),
		strings.Join(pv, ","), strings.Join(po, ","), strings.Join(pi, ","))
}

func vidTag(v interface{}) string {
	if v == nil {
		return "nil"
	}
	return fmt.Sprintf("%d.%d", v.(hv).ID, v.(hv).Tag)
}

// sortNum sorts strings by the integers embedded in them (stable canonical order).
func sortNum(s []string) {
	sort.Slice(s, func(i, j int) bool {
		a, b := nums(s[i]), nums(s[j])
		for k := 0; k < len(a) && k < len(b); k++ {
			if a[k] != b[k] {
				return a[k] < b[k]
			}
		}
		if len(a) != len(b) {
			return len(a) < len(b)
		}
		return s[i] < s[j]
	})
}

func nums(s string) []int {
	var out []int
	cur, in, neg := 0, false, false
	for i := 0; i < len(s); i++ {
		c := s[i]
		if c >= '0' && c <= '9' {
			cur = cur*10 + int(c-'0')
			in = true
		} else {
			if in {
				if neg {
					cur = -cur
				}
				out = append(out, cur)
			}
			cur, in = 0, false
			neg = c == '-'
		}
	}
	if in {
		if neg {
			cur = -cur
		}
		out = append(out, cur)
	}
	return out
}

func recovered(f func()) (p bool) {
	defer func() {
		if r := recover(); r != nil {
			p = true
		}
	}()
	f()
	return false
}

// ---------------------------------------------------------------- C19: operation histories

// genGops emits one history over several live handles. If valid, AddEdge is
// only issued when both endpoints are present in that handle's graph.
func genGops(w *bufio.Writer, r *rng, id int, maxOps, nv int, valid bool) {
	fmt.Fprintf(w, "scn gops %d nv=%d valid=%v\n", id, nv, valid)
	graphs := []*am.VerifGraph{{}}
	fmt.Fprintf(w, "new\n")
	// if the first thing that happens to a fresh graph is Reverse, the view shares nil maps
	present := func(g *am.VerifGraph, v int) bool {
		_, _, hash := g.VerifAdjacency()
		_, ok := hash[v]
		return ok
	}
	n := 1 + r.intn(maxOps)
	for i := 0; i < n; i++ {
		h := r.intn(len(graphs))
		g := graphs[h]
		u, v := r.intn(nv), r.intn(nv)
		switch k := r.intn(100); {
		case k < 22:
			tag := r.intn(9) + 1
			g.Add(hv{u, tag})
			fmt.Fprintf(w, "add %d %d %d\n", h, u, tag)
		case k < 30:
			tag := r.intn(9) + 1
			g.AddOverwrite(hv{u, tag})
			fmt.Fprintf(w, "addow %d %d %d\n", h, u, tag)
		case k < 62:
			if valid && !(present(g, u) && present(g, v)) {
				// make it valid most of the time by adding the endpoints first
				if r.chance(1, 3) {
					continue
				}
				g.Add(hv{u, 1})
				fmt.Fprintf(w, "add %d %d 1\n", h, u)
				g.Add(hv{v, 1})
				fmt.Fprintf(w, "add %d %d 1\n", h, v)
			}
			wt := []int{0, 1, 1, 2, 5, 7, 20, -1}[r.intn(8)]
			var p bool
			if r.chance(1, 4) && wt == 1 {
				p = recovered(func() { g.AddEdge(hv{ID: u}, hv{ID: v}) })
			} else {
				p = recovered(func() { g.AddEdgeWeighted(hv{ID: u}, hv{ID: v}, wt) })
			}
			ps := ""
			if p {
				ps = " panic"
			}
			fmt.Fprintf(w, "edge %d %d %d %d%s\n", h, u, v, wt, ps)
		case k < 72:
			g.RemoveEdge(hv{ID: u}, hv{ID: v})
			fmt.Fprintf(w, "redge %d %d %d\n", h, u, v)
		case k < 82:
			g.Remove(hv{ID: u})
			fmt.Fprintf(w, "remove %d %d\n", h, u)
		case k < 89:
			if len(graphs) < 5 {
				graphs = append(graphs, g.Copy())
				fmt.Fprintf(w, "copy %d\n", h)
			}
		case k < 96:
			if len(graphs) < 5 {
				graphs = append(graphs, g.Reverse())
				fmt.Fprintf(w, "reverse %d\n", h)
			}
		default:
			if len(graphs) < 5 {
				graphs = append(graphs, &am.VerifGraph{})
				fmt.Fprintf(w, "new\n")
			}
		}
		if r.chance(1, 3) || i == n-1 {
			for hh, gg := range graphs {
				fmt.Fprintf(w, "obs %d %s\n", hh, obsGraph(gg, nv))
			}
		}
	}
	fmt.Fprintf(w, "end\n")
}

// ---------------------------------------------------------------- random digraphs

type edge struct{ u, v, w int }

type digraph struct {
	n     int
	edges []edge
}

func (d digraph) line() string {
	var es []string
	for _, e := range d.edges {
		es = append(es, fmt.Sprintf("%d>%d:%d", e.u, e.v, e.w))
	}
	return fmt.Sprintf("g %d %s", d.n, strings.Join(es, ","))
}

func (d digraph) build() *am.VerifGraph {
	g := &am.VerifGraph{}
	for i := 0; i < d.n; i++ {
		g.Add(hv{i, 1})
	}
	for _, e := range d.edges {
		g.AddEdgeWeighted(hv{ID: e.u}, hv{ID: e.v}, e.w)
	}
	return g
}

// randDigraph: density and weight palette vary; self loops, parallel overwrites,
// zero weights and unreachable parts all occur.
// exhIdx >= 0: the graph families enumerate instead of sampling — scenario exhIdx is the exhIdx-th digraph on
// exactly maxN vertices (every ordered pair, loops included, absent or weighted with one of the first two
// weights of the palette), so that -n base^(maxN*maxN) covers all of them
var exhIdx = -1

func randDigraph(r *rng, maxN int, weights []int, dag bool) digraph {
	if exhIdx >= 0 {
		ws := weights
		if len(ws) > 2 {
			ws = ws[:2]
		}
		base := len(ws) + 1
		d := digraph{n: maxN}
		k := exhIdx
		for u := 0; u < maxN; u++ {
			for v := 0; v < maxN; v++ {
				if c := k % base; c > 0 {
					d.edges = append(d.edges, edge{u, v, ws[c-1]})
				}
				k /= base
			}
		}
		return d
	}
	n := 1 + r.intn(maxN)
	d := digraph{n: n}
	m := r.intn(n*n/2 + 2)
	if r.chance(1, 4) {
		m = r.intn(n + 1)
	}
	for i := 0; i < m; i++ {
		u, v := r.intn(n), r.intn(n)
		if dag {
			if u == v {
				continue
			}
			if u > v {
				u, v = v, u
			}
		}
		d.edges = append(d.edges, edge{u, v, weights[r.intn(len(weights))]})
	}
	if dag {
		// relabel so that topological order is not the numeric order
		p := r.perm(n)
		for i := range d.edges {
			d.edges[i].u, d.edges[i].v = p[d.edges[i].u], p[d.edges[i].v]
		}
	}
	return d
}

func kvInt(m map[interface{}]int) string {
	var s []string
	for k, v := range m {
		s = append(s, fmt.Sprintf("%s:%d", vid(k), v))
	}
	sortNum(s)
	return strings.Join(s, ",")
}

func kvVert(m map[interface{}]interface{}) string {
	var s []string
	for k, v := range m {
		if v == nil {
			s = append(s, fmt.Sprintf("%s:-", vid(k)))
		} else {
			s = append(s, fmt.Sprintf("%s:%s", vid(k), vid(v)))
		}
	}
	sortNum(s)
	return strings.Join(s, ",")
}

func pathStr(p []interface{}) string {
	var s []string
	for _, v := range p {
		s = append(s, vid(v))
	}
	return strings.Join(s, " ")
}

// ---------------------------------------------------------------- C18: Dijkstra

var (
	wSmall = []int{0, 1, 1, 2, 3, 5, 5, 7, 20}
	wNeg   = []int{-1, -1, 0, 1, 1, 5, 5, 20}
	wHuge  = []int{1, 5, 1 << 30, 1<<31 - 1, 1 << 31, 1<<32 + 3}
)

// genDijConc: several goroutines search private graphs at the same time (every Call does, on the graph it built);
// each compares what it gets with what the same search returned sequentially on the same graph.
func genDijConc(w *bufio.Writer, r *rng, id int, maxN int) {
	const workers = 8
	type job struct {
		g    *am.VerifGraph
		src  int
		want string
	}
	var jobs []job
	for k := 0; k < workers; k++ {
		d := randDigraph(r, maxN, wSmall, false)
		g := d.build()
		src := r.intn(d.n)
		// every vertex hangs off the source: the distances of unreachable vertices (and of what only they lead to)
		// depend on the order in which equal entries leave the queue, which is not what is compared here
		for v := 0; v < d.n; v++ {
			if v != src {
				g.AddEdgeWeighted(hv{ID: src}, hv{ID: v}, 20)
			}
		}
		// (distances are determined by the graph; predecessors may differ from run to run between equal-cost paths)
		dist, _ := dijkstraCall(g, src)
		jobs = append(jobs, job{g, src, kvInt(dist)})
	}
	verdict := "consistent"
	var mu sync.Mutex
	var wg sync.WaitGroup
	before, _ := raceLogSize()
	for k := range jobs {
		wg.Add(1)
		go func(j job) {
			defer wg.Done()
			for rep := 0; rep < 60; rep++ {
				got := "panic"
				func() {
					defer func() { recover() }()
					dist, _ := dijkstraCall(j.g, j.src)
					got = kvInt(dist)
				}()
				if got != j.want {
					mu.Lock()
					verdict = "mismatch"
					if os.Getenv("VERIF_DEBUG") != "" {
						fmt.Fprintf(os.Stderr, "want %s\ngot  %s\n", j.want, got)
					}
					mu.Unlock()
					return
				}
			}
		}(jobs[k])
	}
	wg.Wait()
	if after, file := raceLogSize(); after > before && verdict == "consistent" {
		verdict = "data_race:" + tildeOnly(raceSummary(file, before))
	}
	fmt.Fprintf(w, "scn dijconc %d\nconc %s\nend\n", id, verdict)
}

func genDij(w *bufio.Writer, r *rng, id int, maxN int, palette string) {
	if palette == "conc" {
		genDijConc(w, r, id, maxN)
		return
	}
	weights := wSmall
	switch palette {
	case "neg":
		weights = wNeg
	case "huge":
		weights = wHuge
	}
	d := randDigraph(r, maxN, weights, false)
	g := d.build()
	src := r.intn(d.n)
	if exhIdx < 0 && r.chance(1, 4) && len(d.edges) > 0 {
		// searched through a reversed view, after an earlier search of that view and a change made through the
		// original handle: the second search must see the graph as it is now
		rv := g.Reverse()
		func() {
			defer func() { recover() }()
			dijkstraCall(rv, src)
		}()
		e := d.edges[r.intn(len(d.edges))]
		if r.chance(1, 2) {
			g.RemoveEdge(hv{ID: e.u}, hv{ID: e.v})
			var kept []edge
			for _, x := range d.edges {
				if !(x.u == e.u && x.v == e.v) {
					kept = append(kept, x)
				}
			}
			d.edges = kept
		} else {
			nw := weights[r.intn(len(weights))]
			g.AddEdgeWeighted(hv{ID: e.u}, hv{ID: e.v}, nw)
			d.edges = append(d.edges, edge{e.u, e.v, nw})
		}
		for i := range d.edges {
			d.edges[i].u, d.edges[i].v = d.edges[i].v, d.edges[i].u
		}
		g = rv
	}
	if exhIdx < 0 && d.n > 1 && r.chance(1, 4) {
		// an earlier search of the same graph value from another source must leave nothing behind
		func() {
			defer func() { recover() }()
			dijkstraCall(g, (src+1+r.intn(d.n-1))%d.n)
		}()
	}
	fmt.Fprintf(w, "scn dij %d palette=%s\n%s\nsrc %d\n", id, palette, d.line(), src)
	var pops []string
	am.VerifSetPopHook(func(v interface{}) { pops = append(pops, vid(v)) })
	var dist map[interface{}]int
	var prev map[interface{}]interface{}
	p := recovered(func() { dist, prev = dijkstraCall(g, src) })
	am.VerifSetPopHook(nil)
	if p {
		fmt.Fprintf(w, "panic\nend\n")
		return
	}
	fmt.Fprintf(w, "pops %s\n", strings.Join(pops, " "))
	fmt.Fprintf(w, "dist %s\n", kvInt(dist))
	fmt.Fprintf(w, "prev %s\n", kvVert(prev))
	for t := 0; t < d.n; t++ {
		fmt.Fprintf(w, "path %d: %s\n", t, pathStr(edgeToPath(g, t, prev)))
	}
	fmt.Fprintf(w, "end\n")
}

func dijkstraCall(g *am.VerifGraph, src int) (map[interface{}]int, map[interface{}]interface{}) {
	dist, edgeTo := g.Dijkstra(hv{ID: src})
	prev := map[interface{}]interface{}{}
	for k, v := range edgeTo {
		prev[k] = v
	}
	return dist, prev
}

// sharedEdgeTo: one predecessor map per search result, handed to every EdgeToPath call on that result (reading a path
// must not consume the map)
var sharedEdgeTo struct {
	of map[interface{}]interface{}
	et map[interface{}]interfaceVertex
}

func edgeToPath(g *am.VerifGraph, t int, prev map[interface{}]interface{}) []interface{} {
	if sharedEdgeTo.et == nil || reflect.ValueOf(sharedEdgeTo.of).Pointer() != reflect.ValueOf(prev).Pointer() {
		et := make(map[interface{}]interfaceVertex, len(prev))
		for k, v := range prev {
			et[k] = v
		}
		sharedEdgeTo.of, sharedEdgeTo.et = prev, et
	}
	et := sharedEdgeTo.et
	res := g.EdgeToPath(hv{ID: t, Tag: 1}, et)
	out := make([]interface{}, len(res))
	for i, v := range res {
		out[i] = v
	}
	return out
}

type interfaceVertex = am.VerifVertexT

// ---------------------------------------------------------------- C20: DFS / Kahn / SCC / topo

func genDfs(w *bufio.Writer, r *rng, id int, maxN int) {
	d := randDigraph(r, maxN, []int{1}, false)
	g := d.build()
	start := r.intn(d.n)
	acts := make([]string, d.n)
	withAbort := r.chance(1, 4)
	for i := range acts {
		switch k := r.intn(10); {
		case k < 6:
			acts[i] = "d"
		case k < 9 || !withAbort:
			acts[i] = "s"
		default:
			acts[i] = "a"
		}
	}
	fmt.Fprintf(w, "scn dfs %d\n%s\nstart %d\nacts %s\n", id, d.line(), start, strings.Join(acts, " "))
	var log []string
	errAbort := fmt.Errorf("abort")
	var err error
	p := recovered(func() {
		err = g.DFS(hv{ID: start}, func(v am.VerifVertexT, next func() error) error {
			log = append(log, vid(v))
			switch acts[v.(hv).ID] {
			case "d":
				return next()
			case "s":
				return nil
			}
			return errAbort
		})
	})
	if p {
		fmt.Fprintf(w, "panic\nend\n")
		return
	}
	fmt.Fprintf(w, "log %s\nerr %v\nend\n", strings.Join(log, " "), err != nil)
}

func genKahn(w *bufio.Writer, r *rng, id int, maxN int) {
	d := randDigraph(r, maxN, []int{1, 2, 5}, r.chance(2, 3))
	g := d.build()
	before := obsGraph(g, d.n)
	fmt.Fprintf(w, "scn kahn %d\n%s\n", id, d.line())
	var order []interface{}
	p := recovered(func() {
		for _, v := range g.KahnSort() {
			order = append(order, v)
		}
	})
	if p {
		fmt.Fprintf(w, "panic\n")
	} else {
		fmt.Fprintf(w, "order %s\n", pathStr(order))
	}
	fmt.Fprintf(w, "untouched %v\nend\n", before == obsGraph(g, d.n))
	if exhIdx < 0 && !p && d.n >= 2 && id%2 == 0 {
		// a second scenario on the same graph value: it was sorted above, is now changed through its reversed view,
		// and sorted again — the order must be one of the graph as it is now
		u, v := r.intn(d.n), r.intn(d.n)
		rv := g.Reverse()
		if r.chance(1, 2) && len(d.edges) > 0 {
			e := d.edges[r.intn(len(d.edges))]
			rv.RemoveEdge(hv{ID: e.v}, hv{ID: e.u})
			var kept []edge
			for _, x := range d.edges {
				if !(x.u == e.u && x.v == e.v) {
					kept = append(kept, x)
				}
			}
			d.edges = kept
		} else if u != v {
			rv.AddEdgeWeighted(hv{ID: v}, hv{ID: u}, 1) // seen from the original: u -> v
			d.edges = append(d.edges, edge{u, v, 1})
		}
		fmt.Fprintf(w, "scn kahn %d\n%s\n", id+1000000, d.line())
		var order2 []interface{}
		if recovered(func() {
			for _, x := range g.KahnSort() {
				order2 = append(order2, x)
			}
		}) {
			fmt.Fprintf(w, "panic\n")
		} else {
			fmt.Fprintf(w, "order %s\n", pathStr(order2))
		}
		fmt.Fprintf(w, "untouched true\nend\n")
	}
}

func genScc(w *bufio.Writer, r *rng, id int, maxN int) {
	d := randDigraph(r, maxN, []int{1}, false)
	g := d.build()
	fmt.Fprintf(w, "scn scc %d\n%s\n", id, d.line())
	var comps []string
	p := recovered(func() {
		for _, c := range g.StronglyConnected() {
			var s []string
			for _, v := range c {
				s = append(s, vid(v))
			}
			sortNum(s)
			comps = append(comps, strings.Join(s, " "))
		}
	})
	if p {
		fmt.Fprintf(w, "panic\nend\n")
		return
	}
	sortNum(comps)
	fmt.Fprintf(w, "comps %s\nend\n", strings.Join(comps, " | "))
}

// genTopo builds a single-rooted DAG (every vertex reachable from vertex `root`).
func genTopo(w *bufio.Writer, r *rng, id int, maxN int) {
	d := randDigraph(r, maxN, []int{0, 0, 1, 2, 3, 5, 9}, true)
	// single root: pick a fresh root vertex with edges to every vertex lacking in-edges
	indeg := make([]int, d.n)
	for _, e := range d.edges {
		indeg[e.v]++
	}
	root := d.n
	for v := 0; v < d.n; v++ {
		if indeg[v] == 0 {
			d.edges = append(d.edges, edge{root, v, []int{0, 1, 4}[r.intn(3)]})
		}
	}
	d.n++
	g := d.build()
	fmt.Fprintf(w, "scn topo %d\n%s\nroot %d\n", id, d.line(), root)
	var order []interface{}
	var tdist, ddist map[interface{}]int
	var tprev, dprev map[interface{}]interface{}
	p := recovered(func() {
		L := g.KahnSort()
		for _, v := range L {
			order = append(order, v)
		}
		td, te := g.TopoShortestPath(L)
		tdist = td
		tprev = map[interface{}]interface{}{}
		for k, v := range te {
			tprev[k] = v
		}
		ddist, dprev = dijkstraCall(g, root)
	})
	if p {
		fmt.Fprintf(w, "panic\nend\n")
		return
	}
	fmt.Fprintf(w, "order %s\ntdist %s\ntprev %s\nddist %s\ndprev %s\nend\n",
		pathStr(order), kvInt(tdist), kvVert(tprev), kvInt(ddist), kvVert(dprev))
}
