package main

// Scenario infrastructure for the resolver families (call / convert / redefine / histories):
// functions synthesised with reflect in positional / struct / pointer-struct / BuildFunc forms whose
// bodies record what they received (provenance ids) and return fresh ids; a capturing hclog.Logger
// that receives the resolver's live vertex objects; the Dijkstra pop hook; outcome classification.

import (
	"errors"
	"fmt"
	"io"
	"log"
	"reflect"
	"strings"
	"sync"
	"time"
	"unicode"
	"unicode/utf8"

	am "github.com/hashicorp/go-argmapper"
	"github.com/hashicorp/go-hclog"
	"github.com/hashicorp/go-multierror"
)

type lab struct {
	Name string
	Ty   int
	Sub  string
}

func (l lab) String() string { return fmt.Sprintf("%s:%d:%s", e2s(l.Name), l.Ty, e2s(l.Sub)) }

type fnSpec struct {
	ID     int
	Form   string // pos | struct | ptr | built
	OForm  string // pos | struct | ptr (ignored for built)
	Ins    []lab
	Outs   []lab
	HasErr bool
	Once   bool
	// Script: "ok", "fail@<k>" (k-th execution returns an error), "nilptr" (pointer-struct result is nil),
	// "typednil" (returns a non-nil error interface holding a nil *E0)
	Script string
	Dyn    []int // dynamic type to use for interface-typed outputs (-1 = default)

	fn    *am.Func
	raw   interface{}
	rtype reflect.Type
	execs int
	sc    *scenario
}

type optSpecC struct {
	Kind string // named | namedsub | typed | typedsub | conv | convfunc | nil
	Name string
	Ty   int
	Vid  int
	Sub  string
	Fids []int
	// Multi (Kind "typed" only): the further entries of a multi-value Typed(...) call, before (Ty < 0:
	// nil entries) and after this option's own value; each is {type, value id}, type -1 = a nil entry
	Pre, Post [][2]int
}

type scenario struct {
	Funcs    []*fnSpec // Funcs[0] is the target
	Opts     []optSpecC
	Defaults int  // the first Defaults options are given to NewFunc
	Subs     bool // redef family: labels carry subtypes
	Collide  bool // a value supplied under a parameter's name with another type (redef family)
	events   []string
	pops     []string
	nextEid  int
	errOwner map[int]int
	errVals  map[int]error // the error values function bodies returned, by E0 id
}

// ---------------------------------------------------------------- building functions

// errValsMu guards scenario.errVals (function bodies run on several goroutines in the race family)
var errValsMu sync.Mutex

func tagFor(l lab) string {
	parts := []string{l.Name}
	if l.Name == "äpfel" && l.Ty%2 == 0 {
		parts[0] = "Äpfel" // names are folded on the declaring side too
	}
	if l.Name == "" {
		parts = append(parts, "typeOnly")
	}
	if l.Sub != "" {
		parts = append(parts, "subtype="+l.Sub)
	}
	return strings.Join(parts, ",")
}

func structFor(ls []lab) reflect.Type {
	sf := []reflect.StructField{{Name: "Struct", Type: markerType, Anonymous: true}}
	for i, l := range ls {
		if l.Ty <= 9 && l.Name == fmt.Sprintf("k%d", l.Ty) && tyOf(l.Ty).NumMethod() == 0 {
			// a value named after its own type: declared as an embedded field (an exported embedded type other
			// than the marker is an ordinary named value, the name being the type's)
			f := reflect.StructField{Name: tyOf(l.Ty).Name(), Type: tyOf(l.Ty), Anonymous: true}
			if l.Sub != "" {
				f.Tag = reflect.StructTag(fmt.Sprintf(`argmapper:",subtype=%s"`, l.Sub))
			}
			sf = append(sf, f)
			continue
		}
		sf = append(sf, reflect.StructField{
			Name: fmt.Sprintf("F%d", i),
			Type: tyOf(l.Ty),
			Tag:  reflect.StructTag(fmt.Sprintf(`argmapper:"%s"`, tagFor(l))),
		})
	}
	return reflect.StructOf(sf)
}

func sideTypes(form string, ls []lab) []reflect.Type {
	switch form {
	case "pos":
		var ts []reflect.Type
		for _, l := range ls {
			ts = append(ts, tyOf(l.Ty))
		}
		return ts
	case "struct":
		if len(ls) == 0 {
			return nil
		}
		return []reflect.Type{structFor(ls)}
	case "ptr":
		if len(ls) == 0 {
			return nil
		}
		return []reflect.Type{reflect.PtrTo(structFor(ls))}
	}
	return nil
}

// argsOf extracts, in the order of Ins, the values a body received.
func argsOf(form string, n int, args []reflect.Value) []reflect.Value {
	out := make([]reflect.Value, n)
	switch form {
	case "pos":
		copy(out, args)
	case "struct":
		for i := 0; i < n; i++ {
			out[i] = args[0].Field(i + 1)
		}
	case "ptr":
		for i := 0; i < n; i++ {
			out[i] = args[0].Elem().Field(i + 1)
		}
	}
	return out
}

func (f *fnSpec) freshID(nth, j int) int { return 100000 + f.ID*1000 + nth*10 + j }

func (f *fnSpec) dynFor(j int) int {
	if j < len(f.Dyn) {
		return f.Dyn[j]
	}
	return -1
}

// run is the common body: record the execution, decide by script what to return.
// It returns the output values (one per Outs entry), whether the struct pointer is nil, and the error.
func (f *fnSpec) run(got []reflect.Value) (outs []reflect.Value, nilPtr bool, err error) {
	outs, nilPtr, err = f.runInner(got)
	if raceMode && f.Once && err != nil {
		// a failing first use returns late: an overlapping use that succeeded (there must be none) would be stored first
		time.Sleep(2 * time.Millisecond)
	}
	return
}

func (f *fnSpec) runInner(got []reflect.Value) (outs []reflect.Value, nilPtr bool, err error) {
	if raceMode && f.Once {
		time.Sleep(300 * time.Microsecond) // overlapping first uses must stay overlapping
	}
	raceMu.Lock() // the harness's own counters and event list; never held while library code runs
	defer raceMu.Unlock()
	nth := f.execs
	f.execs++
	var as []string
	tag := -1
	for _, v := range got {
		as = append(as, fmt.Sprintf("%d:%d", vidOf(v), tyID(v.Type())))
		if id := vidOf(v); raceMode && id >= 8000 && id < 10000 {
			if tag >= 0 && tag != id/100 {
				raceMixed++ // one execution received values that two different goroutines supplied
			}
			tag = id / 100
		}
	}
	ev := fmt.Sprintf("ev exec %d %d args=%s", f.ID, nth, strings.Join(as, ","))
	if strings.HasPrefix(f.Script, "fail@") {
		var k int
		fmt.Sscanf(f.Script, "fail@%d", &k)
		if nth == k {
			f.sc.nextEid++
			eid := 900000 + f.sc.nextEid
			f.sc.errOwner[eid] = f.ID
			f.sc.events = append(f.sc.events, fmt.Sprintf("%s err=%d", ev, eid))
			for _, l := range f.Outs {
				outs = append(outs, reflect.Zero(tyOf(l.Ty)))
			}
			var failure error = &E0{ID: eid}
			if (eid+f.ID+len(f.sc.Opts))%2 == 0 {
				// the usual validation idiom: a multierror with a single entry — still the converter's own error value
				failure = multierror.Append(nil, failure)
			}
			errValsMu.Lock()
			if f.sc.errVals == nil {
				f.sc.errVals = map[int]error{}
			}
			f.sc.errVals[eid] = failure
			errValsMu.Unlock()
			// the idiomatic `return nil, err` of a function whose results are a pointer to a struct
			return outs, f.OForm == "ptr" && f.Form != "built" && (eid+f.ID)%3 != 0, failure
		}
	}
	if f.Script == "identity" {
		var os []string
		for _, v := range got {
			os = append(os, fmt.Sprint(vidOf(v)))
		}
		if len(f.Outs) == 1 && f.Outs[0].Ty == tyError && len(got) == 1 {
			// func(error) error: the single result IS the function's error — a non-nil argument makes it fail
			if e, ok := got[0].Interface().(*E0); ok && e != nil {
				f.sc.events = append(f.sc.events, fmt.Sprintf("%s err=%d", ev, e.ID))
				return got, false, nil
			}
		}
		f.sc.events = append(f.sc.events, fmt.Sprintf("%s outs=%s", ev, strings.Join(os, ",")))
		return got, false, nil
	}
	if f.Script == "typednil" && f.HasErr {
		f.sc.events = append(f.sc.events, fmt.Sprintf("%s err=typednil", ev))
		for _, l := range f.Outs {
			outs = append(outs, reflect.Zero(tyOf(l.Ty)))
		}
		return outs, false, (*E0)(nil)
	}
	var os []string
	if f.Script == "nilptr" && f.OForm == "ptr" && f.Form != "built" {
		for range f.Outs {
			os = append(os, "0")
		}
		f.sc.events = append(f.sc.events, fmt.Sprintf("%s outs=%s", ev, strings.Join(os, ",")))
		return nil, true, nil
	}
	for j, l := range f.Outs {
		id := f.freshID(nth, j)
		outs = append(outs, mkValue(l.Ty, id, f.dynFor(j)))
		os = append(os, fmt.Sprint(id))
	}
	f.sc.events = append(f.sc.events, fmt.Sprintf("%s outs=%s", ev, strings.Join(os, ",")))
	return outs, false, nil
}

func (f *fnSpec) build(sc *scenario, extra ...am.Arg) error {
	f.sc = sc
	f.execs = 0
	if f.Form == "built" {
		return f.buildBuilt(extra...)
	}
	ins := sideTypes(f.Form, f.Ins)
	outs := sideTypes(f.OForm, f.Outs)
	if f.HasErr {
		outs = append(outs, errType)
	}
	ft := reflect.FuncOf(ins, outs, false)
	body := func(args []reflect.Value) []reflect.Value {
		vals, nilPtr, err := f.run(argsOf(f.Form, len(f.Ins), args))
		var res []reflect.Value
		switch f.OForm {
		case "pos":
			res = append(res, vals...)
		case "struct", "ptr":
			if len(f.Outs) > 0 {
				st := structFor(f.Outs)
				sv := reflect.New(st)
				for i, v := range vals {
					sv.Elem().Field(i + 1).Set(v)
				}
				switch {
				case f.OForm == "struct":
					res = append(res, sv.Elem())
				case nilPtr:
					res = append(res, reflect.Zero(reflect.PtrTo(st)))
				default:
					res = append(res, sv)
				}
			}
		}
		if f.HasErr {
			ev := reflect.New(errType).Elem()
			if err != nil {
				ev.Set(reflect.ValueOf(err))
			}
			res = append(res, ev)
		}
		return res
	}
	f.raw = reflect.MakeFunc(ft, body).Interface()
	f.rtype = ft
	opts := append(extra, f.ownOpts()...)
	fn, err := am.NewFunc(f.raw, opts...)
	f.fn = fn
	return err
}

// ownOpts: the options a function is constructed with besides its defaults: FuncOnce for run-once functions,
// and (by the parity of its id, so that rebuilding gives the same object) a FuncName before or after it
func (f *fnSpec) ownOpts() []am.Arg {
	var opts []am.Arg
	name := am.FuncName(fmt.Sprintf("fn%d", f.ID))
	switch f.ID % 3 {
	case 0:
		opts = append(opts, name)
	}
	if f.Once {
		opts = append(opts, am.FuncOnce())
	}
	if f.ID%3 == 1 {
		opts = append(opts, name)
	}
	return opts
}

func valuesFor(ls []lab) []am.Value {
	var vs []am.Value
	for _, l := range ls {
		vs = append(vs, am.Value{Name: l.Name, Type: tyOf(l.Ty), Subtype: l.Sub})
	}
	return vs
}

func (f *fnSpec) buildBuilt(extra ...am.Arg) error {
	var inSet, outSet *am.ValueSet
	var err error
	if len(f.Ins) > 0 {
		if inSet, err = am.NewValueSet(valuesFor(f.Ins)); err != nil {
			return err
		}
	}
	if len(f.Outs) > 0 {
		if outSet, err = am.NewValueSet(valuesFor(f.Outs)); err != nil {
			return err
		}
	}
	f.HasErr = true // BuildFunc always appends an error result
	opts := append(extra, f.ownOpts()...)
	fn, err := am.BuildFunc(inSet, outSet, func(in, out *am.ValueSet) error {
		var got []reflect.Value
		if in != nil {
			for _, v := range in.Values() {
				got = append(got, v.Value)
			}
		}
		vals, _, err := f.run(got)
		if err != nil {
			return err
		}
		for j, l := range f.Outs {
			var dst *am.Value
			switch {
			case l.Name != "":
				dst = out.Named(strings.ToLower(l.Name))
			default:
				same := 0
				for _, o := range f.Outs {
					if o.Name == "" && o.Ty == l.Ty {
						same++
					}
				}
				dst = out.Typed(tyOf(l.Ty))
				if same > 1 {
					// two type-only outputs of one type (they differ in subtype): only the lookup by type and
					// subtype tells them apart (it may hit a named value of that type and subtype instead)
					if d := out.TypedSubtype(tyOf(l.Ty), l.Sub); d != nil && d.Name == "" {
						dst = d
					}
				}
			}
			if dst != nil {
				dst.Value = vals[j]
				// a callback usually stores what reflect.ValueOf gives it: for an interface-typed output that is
				// a value of the concrete dynamic type, not of the declared type
				if v := vals[j]; v.Kind() == reflect.Interface && !v.IsNil() && (f.ID+j)%2 == 0 {
					dst.Value = v.Elem()
				}
			}
		}
		return nil
	}, opts...)
	f.fn = fn
	if fn != nil {
		f.raw = fn.Func()
		f.rtype = reflect.TypeOf(f.raw)
	}
	return err
}

// describe emits the fn / fnin / fnout lines of a function (after build).
func (f *fnSpec) describe(key int) []string {
	var is, os []string
	if f.rtype != nil {
		for i := 0; i < f.rtype.NumIn(); i++ {
			is = append(is, describeParam(f.rtype.In(i)))
		}
		for i := 0; i < f.rtype.NumOut(); i++ {
			os = append(os, describeParam(f.rtype.Out(i)))
		}
	}
	once := 0
	if f.Once {
		once = 1
	}
	return []string{
		fmt.Sprintf("fn %d key=%d form=%s oform=%s once=%d script=%s", f.ID, key, f.Form, f.OForm, once, f.Script),
		fmt.Sprintf("fnin %d %s", f.ID, strings.Join(is, " ")),
		fmt.Sprintf("fnout %d %s", f.ID, strings.Join(os, " ")),
	}
}

// keyOf is the canonical id of a function's Go type: the first function (target first, then
// converters in registration order) with an identical reflect.Type.
func (sc *scenario) keyOfType(t reflect.Type, order []int) int {
	for _, id := range order {
		if sc.Funcs[id].rtype == t {
			return id
		}
	}
	return -1
}

// ---------------------------------------------------------------- options

// packMode: in one scenario out of three, runs of plain value options travel through a value set (NewValueSet,
// FromSignature, Args) instead of being given one by one
func (sc *scenario) packMode() bool {
	n := 0
	for _, o := range sc.Opts {
		n += o.Vid
	}
	return n%3 == 0
}

// argForm says how this scenario's value options reach the library (for the input distribution in the evidence)
func (sc *scenario) argForm() string {
	run, packed, spelled := 0, false, false
	for i, o := range sc.Opts {
		if i < sc.Defaults || !plainValueOpt(o) {
			run = 0
			continue
		}
		run++
		if run >= 2 && sc.packMode() {
			packed = true
		}
		if o.Vid > 0 {
			switch {
			case o.Kind == "named" && o.Vid%5 == 3, o.Kind == "namedsub" && o.Vid%5 == 4, o.Kind == "typed" && (o.Vid%5 == 2 || o.Vid%5 == 4),
				o.Kind == "typedsub" && (o.Vid%4 == 1 || o.Vid%4 == 2):
				spelled = true
			}
		}
	}
	switch {
	case packed:
		return "valueset"
	case spelled:
		return "spelled"
	}
	return "plain"
}

func plainValueOpt(o optSpecC) bool {
	switch o.Kind {
	case "named", "namedsub", "typed", "typedsub":
		return len(o.Pre) == 0 && len(o.Post) == 0
	}
	return false
}

// packed renders the options through a value set; false when the set cannot be built (names or types twice,
// names that are no identifiers), in which case the options are given one by one
func (sc *scenario) packed(os []optSpecC) (args []am.Arg, ok bool) {
	defer func() {
		if recover() != nil {
			args, ok = nil, false
		}
	}()
	var vals []am.Value
	var rvs []reflect.Value
	for _, o := range os {
		rv := mkValue(o.Ty, o.Vid, -1)
		v := am.Value{Type: rv.Type(), Subtype: o.Sub}
		if o.Kind == "named" || o.Kind == "namedsub" {
			v.Name = o.Name
		}
		if o.Kind == "named" || o.Kind == "typed" {
			v.Subtype = ""
		}
		vals = append(vals, v)
		rvs = append(rvs, rv)
	}
	set, err := am.NewValueSet(vals)
	if err != nil || set == nil {
		return nil, false
	}
	sig := set.Signature()
	if len(sig) != 1 || sig[0].Kind() != reflect.Struct || sig[0].NumField() != len(rvs)+1 {
		return nil, false
	}
	st := reflect.New(sig[0]).Elem()
	for i, rv := range rvs {
		st.Field(i + 1).Set(rv)
	}
	if err := set.FromSignature([]reflect.Value{st}); err != nil {
		return nil, false
	}
	as := set.Args()
	if len(as) != len(os) {
		return nil, false
	}
	return as, true
}

// argsOf renders the options with the given indices, in order.
func (sc *scenario) argsOf(idx []int) []am.Arg {
	pack := sc.packMode()
	var args []am.Arg
	for k := 0; k < len(idx); {
		if pack && plainValueOpt(sc.Opts[idx[k]]) {
			j := k
			var run []optSpecC
			for j < len(idx) && plainValueOpt(sc.Opts[idx[j]]) {
				run = append(run, sc.Opts[idx[j]])
				j++
			}
			if len(run) >= 2 {
				if as, ok := sc.packed(run); ok {
					args = append(args, as...)
					k = j
					continue
				}
			}
		}
		args = append(args, sc.mkArg(sc.Opts[idx[k]]))
		k++
	}
	return args
}

// spelledName: value names are matched case-insensitively, so the options spell them in lower case, in upper case or
// with a capital first letter (which for a name like "äpfel" is not an ASCII letter), by the value id
func spelledName(o optSpecC) string {
	switch o.Vid % 4 {
	case 1:
		return strings.ToUpper(o.Name)
	case 3:
		r, size := utf8.DecodeRuneInString(o.Name)
		if size > 0 {
			return string(unicode.ToUpper(r)) + o.Name[size:]
		}
	}
	return o.Name
}

func (sc *scenario) mkArg(o optSpecC) am.Arg {
	// the same option has several spellings in the API (a name or subtype left empty, a Value's own Arg): which one
	// is used depends on the value id only, so that rebuilding the options gives the same calls
	if len(o.Pre) == 0 && len(o.Post) == 0 && o.Vid > 0 {
		rv := mkValue(o.Ty, o.Vid, -1)
		switch {
		case o.Kind == "named" && o.Vid%5 == 3:
			return (&am.Value{Name: spelledName(o), Type: rv.Type(), Value: rv}).Arg()
		case o.Kind == "namedsub" && o.Vid%5 == 4:
			return (&am.Value{Name: spelledName(o), Type: rv.Type(), Subtype: o.Sub, Value: rv}).Arg()
		case o.Kind == "typed" && o.Vid%5 == 2:
			return am.Named("", rv.Interface())
		case o.Kind == "typed" && o.Vid%5 == 4:
			return am.NamedSubtype("", rv.Interface(), "")
		case o.Kind == "typedsub" && o.Vid%4 == 1:
			return am.NamedSubtype("", rv.Interface(), o.Sub)
		case o.Kind == "typedsub" && o.Vid%4 == 2:
			return (&am.Value{Type: rv.Type(), Subtype: o.Sub, Value: rv}).Arg()
		}
	}
	switch o.Kind {
	case "named":
		return am.Named(spelledName(o), mkValue(o.Ty, o.Vid, -1).Interface())
	case "namedsub":
		return am.NamedSubtype(spelledName(o), mkValue(o.Ty, o.Vid, -1).Interface(), o.Sub)
	case "typed":
		var vs []interface{}
		for _, e := range o.Pre {
			vs = append(vs, typedEntry(e))
		}
		vs = append(vs, mkValue(o.Ty, o.Vid, -1).Interface())
		for _, e := range o.Post {
			vs = append(vs, typedEntry(e))
		}
		return am.Typed(vs...)
	case "typedsub":
		return am.TypedSubtype(mkValue(o.Ty, o.Vid, -1).Interface(), o.Sub)
	case "conv":
		var raws []interface{}
		for _, id := range o.Fids {
			raws = append(raws, sc.Funcs[id].raw)
		}
		return am.Converter(raws...)
	case "convfunc":
		var fs []*am.Func
		for _, id := range o.Fids {
			if id < 0 {
				fs = append(fs, nil) // nil entries are ignored
				continue
			}
			fs = append(fs, sc.Funcs[id].fn)
		}
		return am.ConverterFunc(fs...)
	case "genfail":
		return am.ConverterGen(func(v am.Value) (*am.Func, error) { return nil, fmt.Errorf("generator failed") })
	case "gen":
		// a generator with a rule: fires on values of type o.Ty (and, unless o.Name is "*", of that name);
		// o.Vid is its index, o.Sub its mode (ok: returns function o.Fids[0]; fail: reports an error; nil)
		o := o
		return am.ConverterGen(func(v am.Value) (*am.Func, error) {
			res := "nil"
			var f *am.Func
			var err error
			if tyID(v.Type) == o.Ty && (o.Name == "*" || v.Name == o.Name) {
				switch o.Sub {
				case "fail":
					err, res = fmt.Errorf("generator failed"), "err"
				case "nil":
				default:
					f, res = sc.Funcs[o.Fids[0]].fn, fmt.Sprint(o.Fids[0])
				}
			}
			vn := fmt.Sprintf("O:%d:%s", tyID(v.Type), e2s(v.Subtype))
			if v.Name != "" {
				vn = fmt.Sprintf("V:%s:%d:%s", e2s(v.Name), tyID(v.Type), e2s(v.Subtype))
			}
			sc.events = append(sc.events, fmt.Sprintf("gi %d %s %s", o.Vid, vn, res))
			return f, err
		})
	case "gennil":
		return am.ConverterGen(func(v am.Value) (*am.Func, error) { return nil, nil })
	case "gennilfunc":
		return am.ConverterGen(nil) // a nil generator function
	case "loggernil":
		return am.Logger(nil)
	case "filterjunk":
		// filters have no effect outside Redefine: one that admits nothing, for inputs and for outputs
		if o.Vid%2 == 0 {
			return am.FilterOutput(am.FilterOr())
		}
		return am.FilterInput(am.FilterOr())
	case "namednil":
		return am.Named(o.Name, nil)
	case "convnil":
		return am.Converter(nil)
	case "convbad":
		return am.Converter(42)
	case "nil":
		return nil
	}
	return nil
}

// typedEntry: one entry of a multi-value Typed(...): a value, or (type -1) a nil interface / nil error
func typedEntry(e [2]int) interface{} {
	if e[0] < 0 {
		if e[1]%2 == 0 {
			return nil
		}
		var err error
		return err
	}
	return mkValue(e[0], e[1], -1).Interface()
}

// multiConv: some ConverterFunc options get nil entries (before, between, after) and absorb a later ConverterFunc
// option of the same section
func (sc *scenario) multiConv(r *rng) {
	for i := 0; i < len(sc.Opts); i++ {
		if sc.Opts[i].Kind != "convfunc" || len(sc.Opts[i].Fids) != 1 || !r.chance(1, 3) {
			continue
		}
		o := sc.Opts[i]
		fids := []int{}
		if r.chance(1, 2) {
			fids = append(fids, -1)
		}
		fids = append(fids, o.Fids[0])
		if r.chance(1, 2) {
			fids = append(fids, -1)
		}
		for j := i + 1; j < len(sc.Opts); j++ {
			if sc.Opts[j].Kind == "convfunc" && len(sc.Opts[j].Fids) == 1 && (i < sc.Defaults) == (j < sc.Defaults) && r.chance(1, 2) {
				fids = append(fids, sc.Opts[j].Fids[0])
				sc.Opts = append(sc.Opts[:j], sc.Opts[j+1:]...)
				if j < sc.Defaults {
					sc.Defaults--
				}
				break
			}
		}
		o.Fids = fids
		sc.Opts[i] = o
	}
}

// multiTyped turns some Typed options into multi-value calls: nil entries before / after the value, and
// now and then a later Typed option folded into an earlier one.
func (sc *scenario) multiTyped(r *rng) {
	for i := 0; i < len(sc.Opts); i++ {
		if sc.Opts[i].Kind != "typed" || !r.chance(1, 3) {
			continue
		}
		o := sc.Opts[i]
		for k := r.intn(3); k > 0; k-- {
			o.Pre = append(o.Pre, [2]int{-1, r.intn(2)})
		}
		if r.chance(1, 2) {
			o.Post = append(o.Post, [2]int{-1, r.intn(2)})
		}
		// fold a later Typed option of the same section (defaults / call options) into this one
		for j := i + 1; j < len(sc.Opts); j++ {
			if sc.Opts[j].Kind == "typed" && len(sc.Opts[j].Pre)+len(sc.Opts[j].Post) == 0 && (i < sc.Defaults) == (j < sc.Defaults) && r.chance(1, 2) {
				o.Post = append(o.Post, [2]int{sc.Opts[j].Ty, sc.Opts[j].Vid})
				sc.Opts = append(sc.Opts[:j], sc.Opts[j+1:]...)
				if j < sc.Defaults {
					sc.Defaults--
				}
				break
			}
		}
		sc.Opts[i] = o
	}
}

func (o optSpecC) line() string {
	switch o.Kind {
	case "named":
		return fmt.Sprintf("opt named %s %d %d", e2s(o.Name), o.Ty, o.Vid)
	case "namedsub":
		return fmt.Sprintf("opt namedsub %s %d %d %s", e2s(o.Name), o.Ty, o.Vid, e2s(o.Sub))
	case "typed":
		str := "opt typed"
		ent := func(e [2]int) string {
			if e[0] < 0 {
				return " nil"
			}
			return fmt.Sprintf(" %d:%d", e[0], e[1])
		}
		for _, e := range o.Pre {
			str += ent(e)
		}
		str += fmt.Sprintf(" %d:%d", o.Ty, o.Vid)
		for _, e := range o.Post {
			str += ent(e)
		}
		return str
	case "typedsub":
		return fmt.Sprintf("opt typedsub %d %d %s", o.Ty, o.Vid, e2s(o.Sub))
	case "namednil":
		return fmt.Sprintf("opt named %s nil", e2s(o.Name))
	case "genfail":
		return "opt gen fail"
	case "gen":
		n := o.Name
		if n != "*" {
			n = e2s(n)
		}
		return fmt.Sprintf("opt gen rule %d ty=%d name=%s fid=%d mode=%s", o.Vid, o.Ty, n, o.Fids[0], o.Sub)
	case "gennil":
		return "opt gen nil"
	case "gennilfunc", "loggernil", "filterjunk":
		return "opt other " + o.Kind
	case "conv", "convfunc":
		var s []string
		for _, id := range o.Fids {
			if id < 0 {
				s = append(s, "nil")
				continue
			}
			s = append(s, fmt.Sprint(id))
		}
		return fmt.Sprintf("opt %s %s", o.Kind, strings.Join(s, " "))
	}
	return "opt " + o.Kind
}

// convOrder lists function ids in registration order: target, then converters as options name them.
func (sc *scenario) convOrder() []int {
	order := []int{0}
	for _, o := range sc.Opts {
		if o.Kind == "conv" || o.Kind == "convfunc" {
			for _, id := range o.Fids {
				if id >= 0 {
					order = append(order, id)
				}
			}
		}
	}
	// functions returned by generators have Go types of their own (genGens), so their position is immaterial
	for _, o := range sc.Opts {
		if o.Kind == "gen" {
			order = append(order, o.Fids...)
		}
	}
	return order
}

// ---------------------------------------------------------------- vertex naming

var typeByString = map[string]int{}

func init() {
	for id, t := range poolTypes {
		typeByString[t.String()] = id
	}
}

func (sc *scenario) vertexName(x interface{}) string {
	rv := reflect.ValueOf(x)
	if !rv.IsValid() {
		return "nil"
	}
	if rv.Kind() == reflect.Ptr && !rv.IsNil() && rv.Elem().Kind() == reflect.Struct {
		e := rv.Elem()
		switch e.Type().Name() {
		case "rootVertex":
			return "R"
		case "valueVertex":
			return fmt.Sprintf("V:%s:%d:%s", e2s(e.FieldByName("Name").String()), tyID(e.FieldByName("Type").Interface().(reflect.Type)), e2s(e.FieldByName("Subtype").String()))
		case "typedArgVertex":
			return fmt.Sprintf("A:%d:%s", tyID(e.FieldByName("Type").Interface().(reflect.Type)), e2s(e.FieldByName("Subtype").String()))
		case "typedOutputVertex":
			return fmt.Sprintf("O:%d:%s", tyID(e.FieldByName("Type").Interface().(reflect.Type)), e2s(e.FieldByName("Subtype").String()))
		case "funcVertex":
			fp, _ := e.FieldByName("Func").Interface().(*am.Func)
			if fp == nil {
				return "F:-1"
			}
			return fmt.Sprintf("F:%d", sc.keyOfType(reflect.TypeOf(fp.Func()), sc.convOrder()))
		}
	}
	return fmt.Sprintf("?%T", x)
}

// hashName renders a vertex hash code (what the Dijkstra pop hook sees).
func (sc *scenario) hashName(h interface{}) string {
	switch t := h.(type) {
	case string:
		switch {
		case strings.HasPrefix(t, "arg: "):
			ty, sub := splitLast(t[5:])
			return fmt.Sprintf("A:%d:%s", typeByString[ty], e2s(sub))
		case strings.HasPrefix(t, "out: "):
			ty, sub := splitLast(t[5:])
			return fmt.Sprintf("O:%d:%s", typeByString[ty], e2s(sub))
		default:
			i := strings.Index(t, "/")
			if i < 0 {
				return "?" + t
			}
			ty, sub := splitLast(t[i+1:])
			return fmt.Sprintf("V:%s:%d:%s", e2s(t[:i]), typeByString[ty], e2s(sub))
		}
	case reflect.Type:
		return fmt.Sprintf("F:%d", sc.keyOfType(t, sc.convOrder()))
	}
	return sc.vertexName(h)
}

func splitLast(s string) (string, string) {
	i := strings.LastIndex(s, "/")
	if i < 0 {
		return s, ""
	}
	return s[:i], s[i+1:]
}

// ---------------------------------------------------------------- capturing logger

type capLogger struct{ sc *scenario }

func (c capLogger) rec(msg string, args ...interface{}) {
	get := func(key string) interface{} {
		for i := 0; i+1 < len(args); i += 2 {
			if args[i] == key {
				return args[i+1]
			}
		}
		return nil
	}
	sc := c.sc
	// the trace points are recognised by the shape of their key/value arguments (the wording of a message may
	// change without any change of behaviour): a vertex under "target" alone = a resolution starts; a vertex under
	// "input" = a missing requirement; "target" + "path" = the path chosen for a requirement
	isVertex := func(x interface{}) bool { return x != nil && !strings.HasPrefix(sc.vertexName(x), "?") }
	kind := msg
	switch {
	case len(args) == 4 && get("path") != nil && isVertex(get("target")):
		kind = "path for target"
	case len(args) == 2 && isVertex(get("input")):
		kind = "conv is missing an input"
	case len(args) == 2 && isVertex(get("target")):
		kind = "reachTarget"
	}
	switch kind {
	case "call":
		// a new Call starts: Dijkstra runs of an enclosing, unlogged call do not belong to it
		sc.pops = nil
	case "reachTarget":
		sc.events = append(sc.events, "ev reach "+sc.vertexName(get("target")))
	case "conv is missing an input":
		sc.events = append(sc.events, "ev missing "+sc.vertexName(get("input")))
	case "path for target":
		sc.events = append(sc.events, "ev pops "+strings.Join(sc.pops, " "))
		sc.pops = nil
		var ps []string
		pv := reflect.ValueOf(get("path"))
		for i := 0; pv.IsValid() && i < pv.Len(); i++ {
			ps = append(ps, sc.vertexName(pv.Index(i).Interface()))
		}
		sc.events = append(sc.events, fmt.Sprintf("ev path %s", strings.Join(ps, " ")))
	}
}

func (c capLogger) Log(level hclog.Level, msg string, args ...interface{})  { c.rec(msg, args...) }
func (c capLogger) Trace(msg string, args ...interface{})                   { c.rec(msg, args...) }
func (c capLogger) Debug(msg string, args ...interface{})                   {}
func (c capLogger) Info(msg string, args ...interface{})                    {}
func (c capLogger) Warn(msg string, args ...interface{})                    {}
func (c capLogger) Error(msg string, args ...interface{})                   {}
func (c capLogger) IsTrace() bool                                           { return true }
func (c capLogger) IsDebug() bool                                           { return true }
func (c capLogger) IsInfo() bool                                            { return true }
func (c capLogger) IsWarn() bool                                            { return true }
func (c capLogger) IsError() bool                                           { return true }
func (c capLogger) ImpliedArgs() []interface{}                              { return nil }
func (c capLogger) With(args ...interface{}) hclog.Logger                   { return c }
func (c capLogger) Name() string                                            { return "" }
func (c capLogger) Named(name string) hclog.Logger                          { return c }
func (c capLogger) ResetNamed(name string) hclog.Logger                     { return c }
func (c capLogger) SetLevel(level hclog.Level)                              {}
func (c capLogger) StandardLogger(*hclog.StandardLoggerOptions) *log.Logger { return nil }
func (c capLogger) StandardWriter(*hclog.StandardLoggerOptions) io.Writer   { return io.Discard }

// ---------------------------------------------------------------- running

func classifyPanic(r interface{}) string {
	s := fmt.Sprint(r)
	switch {
	case strings.Contains(s, "index out of range"):
		return "indexRange"
	case strings.Contains(s, "didn't reach a final value"):
		return "finalValue"
	case strings.Contains(s, "reflect.Set") || strings.Contains(s, "is not assignable"):
		return "setNotAssignable"
	case strings.Contains(s, "Elem of invalid type") || strings.Contains(s, "reflect.Value.Elem"):
		return "elemOnStruct"
	case strings.Contains(s, "reflect.StructOf"):
		return "structof"
	case strings.Contains(s, "nil pointer dereference"):
		return "nilDeref"
	}
	s = strings.Map(func(r rune) rune {
		if r == ' ' || r == '\n' || r == '\t' {
			return '_'
		}
		return r
	}, s)
	if len(s) > 60 {
		s = s[:60]
	}
	return "other:" + s
}

func labelOfValue(v *am.Value) string {
	return fmt.Sprintf("%s:%d:%s", e2s(v.Name), tyID(v.Type), e2s(v.Subtype))
}

// classifyErr renders a resolution / execution error.
func (sc *scenario) classifyErr(err error) string {
	var unsat *am.ErrArgumentUnsatisfied
	var e0 *E0
	switch {
	case errors.As(err, &unsat):
		var as, is []string
		for _, a := range unsat.Args {
			as = append(as, labelOfValue(a))
		}
		for _, a := range unsat.Inputs {
			is = append(is, fmt.Sprintf("%s:%d", labelOfValue(a), vidOf(a.Value)))
		}
		sortStrings(as)
		sortStrings(is)
		var cs []string
		for _, c := range unsat.Converters {
			cs = append(cs, fmt.Sprint(sc.funcIDOf(c)))
		}
		sortStrings(cs)
		msg := unsat.Error()
		mentions := true
		for _, a := range unsat.Args {
			if !strings.Contains(msg, a.String()) {
				mentions = false
			}
			// one of its renderings went through a formatter as a format string (fmt's own error markers)
			if strings.Contains(a.String(), "%") && !strings.Contains(a.String(), "%!") &&
				(strings.Contains(msg, "(MISSING)") || strings.Contains(msg, "%!(NOVERB)")) {
				mentions = false
			}
		}
		// the text itself, with the names only the run knows (Func.Name() of the target and of every listed converter)
		var cn []string
		for _, c := range unsat.Converters {
			cn = append(cn, fmt.Sprintf("%d:%s", sc.funcIDOf(c), e2s(c.Name())))
		}
		fname := "~"
		if unsat.Func != nil {
			fname = e2s(unsat.Func.Name())
		}
		return fmt.Sprintf("unsat args=%s inputs=%s convs=%s mentions=%v fname=%s cnames=%s msg=%s", strings.Join(as, ","), strings.Join(is, ","),
			strings.Join(cs, ","), mentions, fname, strings.Join(cn, ";"), e2s(msg))
	case errors.As(err, &e0):
		if e0 == nil {
			return "e0 typednil"
		}
		errValsMu.Lock()
		want, known := sc.errVals[e0.ID]
		errValsMu.Unlock()
		if known {
			// the very value the function body returned must come back (not wrapped, not unwrapped)
			if err != want {
				return fmt.Sprintf("other:not-the-returned-error-value-e0-%d", e0.ID)
			}
		} else if d, ok := err.(*E0); !ok || d != e0 {
			return fmt.Sprintf("other:wrapped-e0-%d", e0.ID)
		}
		return fmt.Sprintf("e0 %d", e0.ID)
	case strings.Contains(err.Error(), "generator failed"):
		return "generr"
	case strings.Contains(err.Error(), "arg cannot be nil"):
		return "nilarg"
	case strings.Contains(err.Error(), "This is a bug"):
		return "missingarg"
	case strings.Contains(err.Error(), "cannot redefine: more than one required input is named"):
		return "dupname"
	case strings.Contains(err.Error(), "fn should be a function"):
		return "notfunc"
	}
	return "other:" + classifyPanic(err.Error())
}

func sortStrings(s []string) {
	for i := 1; i < len(s); i++ {
		for j := i; j > 0 && s[j] < s[j-1]; j-- {
			s[j], s[j-1] = s[j-1], s[j]
		}
	}
}

func (sc *scenario) funcIDOf(f *am.Func) int {
	for _, fs := range sc.Funcs {
		if fs.fn == f {
			return fs.ID
		}
	}
	// Converter(raw) wraps raw in a fresh Func: identify by Go function type
	return sc.keyOfType(reflect.TypeOf(f.Func()), sc.convOrder())
}

// callOnce performs Funcs[0].Call(call options…) with the capturing logger and the pop hook and
// returns the protocol lines of this run.
func (sc *scenario) callOnce() []string { return sc.callWith(0, nil) }

// callWith calls function object fid (0 = the target) with the call options, leaving out the option
// indices in omit.
func (sc *scenario) callWith(fid int, omit map[int]bool) []string {
	sc.events = nil
	sc.pops = nil
	target := sc.Funcs[fid]
	var args []am.Arg
	args = append(args, am.Logger(capLogger{sc}))
	var idx []int
	for i := range sc.Opts {
		if i < sc.Defaults || omit[i] {
			continue
		}
		idx = append(idx, i)
	}
	args = append(args, sc.argsOf(idx)...)
	am.VerifSetPopHook(func(h interface{}) { sc.pops = append(sc.pops, sc.hashName(h)) })
	defer am.VerifSetPopHook(nil)
	var res am.Result
	var pan interface{}
	func() {
		defer func() { pan = recover() }()
		res = target.fn.Call(args...)
	}()
	lines := append([]string(nil), sc.events...)
	switch {
	case pan != nil:
		lines = append(lines, "res panic "+classifyPanic(pan))
	case res.Err() != nil:
		lines = append(lines, "res err "+sc.classifyErr(res.Err()))
	default:
		os := renderOuts(target, res)
		lines = append(lines, "res ok "+strings.Join(os, ","))
		if target.Once && target.OForm == "pos" && len(target.Outs) > 0 {
			// what a caller may do with a result: load it into the function's own output set. The memoised result
			// of a run-once function must not change by that.
			func() {
				defer func() { recover() }()
				target.fn.Output().FromResult(res)
			}()
		}
	}
	return lines
}

// dumpGraph renders the pruned call graph the library builds for this scenario.
func (sc *scenario) dumpGraph(redefining bool, extra ...am.Arg) string {
	var args []am.Arg
	for _, o := range sc.Opts[sc.Defaults:] {
		args = append(args, sc.mkArg(o))
	}
	args = append(args, extra...)
	var d am.VerifGraphDump
	if recovered(func() { d = am.VerifCallGraph(sc.Funcs[0].fn, redefining, args...) }) {
		return "dump panic"
	}
	names := make([]string, len(d.Vertices))
	var vs []string
	for i, v := range d.Vertices {
		switch v.Kind {
		case "root":
			names[i] = "R"
		case "value":
			names[i] = fmt.Sprintf("V:%s:%d:%s", e2s(v.Name), tyID(v.Type), e2s(v.Subtype))
		case "arg":
			names[i] = fmt.Sprintf("A:%d:%s", tyID(v.Type), e2s(v.Subtype))
		case "out":
			names[i] = fmt.Sprintf("O:%d:%s", tyID(v.Type), e2s(v.Subtype))
		case "func":
			names[i] = fmt.Sprintf("F:%d", sc.keyOfType(reflect.TypeOf(v.Func.Func()), sc.convOrder()))
		}
		s := names[i]
		if v.HasValue {
			s += "=v"
		}
		vs = append(vs, s)
	}
	var es []string
	for _, e := range d.Edges {
		if e.From < 0 {
			es = append(es, "?")
			continue
		}
		es = append(es, fmt.Sprintf("%s>%s>%d", names[e.From], names[e.To], e.Weight))
	}
	sortStrings(vs)
	sortStrings(es)
	st := "ok"
	if d.Err != nil {
		st = "err"
	}
	return fmt.Sprintf("dump %s v=%s e=%s", st, strings.Join(vs, ","), strings.Join(es, ","))
}

// renderOuts lists the provenance ids of a successful result, one per output value of the function:
// positional results directly, a (pointer to a) result struct field by field after the marker.
func renderOuts(target *fnSpec, res am.Result) []string {
	var os []string
	structForm := (target.Form == "built" || target.OForm == "struct" || target.OForm == "ptr") && len(target.Outs) > 0
	if structForm && res.Len() == 1 {
		sv := reflect.ValueOf(res.Out(0))
		for sv.IsValid() && sv.Kind() == reflect.Ptr {
			if sv.IsNil() {
				for range target.Outs {
					os = append(os, "0")
				}
				return os
			}
			sv = sv.Elem()
		}
		if sv.IsValid() && sv.Kind() == reflect.Struct {
			for i := 1; i < sv.NumField(); i++ {
				os = append(os, fmt.Sprint(vidOf(sv.Field(i))))
			}
			return os
		}
	}
	for i := 0; i < res.Len(); i++ {
		os = append(os, fmt.Sprint(vidOf(reflect.ValueOf(res.Out(i)))))
	}
	return os
}
