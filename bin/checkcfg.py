"""Per-property configuration for bin/check: theorems to audit (proof obligations), scenario
families to run on the real code per tier, and what counts as a non-trivial scenario."""

RULE = ("Scenarios come from the harness generators (one splitmix64 PRNG per scenario, forked from VERIF_SEED); "
        "distinct = distinct hash of the scenario-definition lines (implementation answers excluded); "
        "non-trivial per kind: ")

DIST_KEYS = {"cyclic", "abort", "small", "outcome", "form", "depth", "rules", "palette", "class", "prem", "gens", "argform"}


def _probe(name, n, size=0, opt="", **kw):
    d = {"n": n, "size": size, "opt": opt}
    d.update(kw)
    return (name, d)


# families that expose the defect behind each source fact (they are what re-derived the defect before its repair);
# run, with the model in the repaired variant, when the textual pattern of the fact is not recognised in the source
PROBES = {
    "r5SkipSame": [_probe("call", 1500, 0, "general")],
    "r6NameTest": [_probe("call", 1500, 0, "general")],
    "publishAfterUpdate": [_probe("call", 1500, 0, "general"), _probe("call", 600, 0, "single")],
    "takeValuedNamed": [_probe("call", 1500, 0, "general"), _probe("call", 600, 0, "exact")],
    "trackReaching": [_probe("call", 800, 0, "hopeless")],
    "hopCopies": [_probe("call", 1200, 0, "single"), _probe("call", 800, 0, "general")],
    "r8SkipSupplied": [_probe("redef", 800, 0)],
    "skipRecordsInput": [_probe("redef", 800, 0)],
    "dupIsError": [_probe("redef", 800, 0)],
    "memoCopy": [_probe("hist", 700, 0)],
    "onceLockCoversCall": [_probe("race", 40, 8, "25", bin="harness-race")],
    "fixedReverse": [_probe("gops", 800, 5)],
    "vsetValidates": [_probe("vset", 1500, 6)],
    # shape facts without a model variant: when the shape is not recognised the behaviour is confirmed on these
    "constsRecognised": [_probe("dij", 800, 7), _probe("dij", 200, 5, "huge"), _probe("call", 800, 0, "general"), _probe("call", 300, 0, "affinity")],
    "emptyNameDelegates": [_probe("opts", 3000, 6), _probe("call", 1000, 0, "general")],
    "nilIsUntypedOnly": [_probe("opts", 3000, 6), _probe("call", 500, 0, "affinity")],
    "filtersTotal": [_probe("redef", 1500, 0)],
    "optsCopied": [_probe("opts", 2000, 6), _probe("call", 900, 0, "general")],
    "fromSignatureFresh": [_probe("result", 3000, 5), _probe("hist", 1500, 0)],
    "argEager": [_probe("call", 1200, 0, "general"), _probe("opts", 2000, 6)],
    "edgeToPathReadOnly": [_probe("dij", 1500, 7)],
    "optionsFirst": [_probe("opts", 3000, 6)],
    "redefinedOptsThenValues": [_probe("redef", 1500, 0)],
}


# every variant switch of the driver with the value of the repaired code, and the families whose replay depends on it
ALL_FACTS = {"r5SkipSame": "true", "r6NameTest": "true", "r8SkipSupplied": "true", "publishAfterUpdate": "true",
             "trackReaching": "true", "takeValuedNamed": "true", "hopCopies": "true", "skipRecordsInput": "false",
             "memoCopy": "true", "dupIsError": "true", "fixedReverse": "true", "vsetValidates": "true",
             "constsRecognised": "true", "emptyNameDelegates": "true", "nilIsUntypedOnly": "true", "filtersTotal": "true",
             "optsCopied": "true", "fromSignatureFresh": "true", "argEager": "true", "edgeToPathReadOnly": "true",
             "optionsFirst": "true", "redefinedOptsThenValues": "true"}
RESOLVER_FAMILIES = {"call", "redef", "hist", "conv"}
FACT_FAMILIES = {"fixedReverse": {"gops"}, "vsetValidates": {"vset"},
                 "constsRecognised": {"dij", "call", "redef", "hist", "conv"}, "emptyNameDelegates": {"opts", "call"},
                 "nilIsUntypedOnly": {"opts", "call"}, "filtersTotal": {"redef"}, "optsCopied": {"opts", "call", "redef"},
                 "fromSignatureFresh": {"result", "hist"}, "argEager": {"opts", "call"}, "edgeToPathReadOnly": {"dij"},
                 "optionsFirst": {"opts"}, "redefinedOptsThenValues": {"redef"}}


def relevant_facts(P):
    """the facts the driver's replay of this property's families depends on (besides those the property lists)"""
    fams = {f[0] for t in P["runs"].values() for f in t}
    out = dict(P.get("facts", {}))
    for k, v in ALL_FACTS.items():
        need = FACT_FAMILIES.get(k, RESOLVER_FAMILIES)
        if fams & need:
            out.setdefault(k, v)
    return out


def nontrivial(kind, st, r):
    g = lambda k, d=0: int(st.get(k, d)) if str(st.get(k, d)).lstrip("-").isdigit() else d
    if kind == "gops":
        return g("ops") >= 4 and g("obs") >= 1
    if kind == "dij":
        return g("m") >= 2 and g("reach") >= 2
    if kind in ("dfs", "kahn", "scc", "topo"):
        return g("n") >= 3 and g("m") >= 2
    if kind in ("convseq", "race", "redefgen", "alias"):
        return True
    if kind in ("sig", "vset", "opts", "result"):
        return g("size", 1) >= 1
    if kind == "hist":
        return g("onceused") >= 1 or g("execs") >= 2
    if kind in ("call", "redef", "conv"):
        return g("execs") >= 1 or (st.get("outcome") == "unsat" and g("convs") >= 1)
    return True


def fam(name, n, size, opt="", **kw):
    d = {"n": n, "size": size, "opt": opt}
    d.update(kw)
    return (name, d)


PROPS = {
    "C18": {
        "claim": "Theorems about the Dijkstra model (replaying any legal pop order, int32 wrap included): predecessor chains are real paths for all weights; exact distances and tight paths for non-negative weights without int32 overflow; unreachable chains never reach the source; corollaries (C18b): schedule independence (any two legal pop orders report the same distances), source at 0 without predecessor, non-negative distances, triangle inequality at termination, every predecessor is joined by an existing edge that accounts for the distance. Tied to the code by replaying the hooked pop order of the real Dijkstra on generated digraphs and comparing distances, predecessors and EdgeToPath, and by checking the real outputs against an independent Bellman-Ford.",
        "note": "Proved for every legal pop order (superset of what container/heap can produce); container/heap itself is modelled, not verified. Overflow (weights >= 2^31) is excluded by hypothesis and is a listed known finding.",
        "theorems": ["ArgMapper.C18.consts_tie", "ArgMapper.C18.tree", "ArgMapper.C18.dist_exact", "ArgMapper.C18.unreachable",
                     "ArgMapper.C18.greedy_legal", "ArgMapper.C18.order_independent", "ArgMapper.C18.source_zero",
                     "ArgMapper.C18.dist_nonneg", "ArgMapper.C18.triangle", "ArgMapper.C18.pred_edge"],
        "modules": ["ArgMapper.Props.C18", "ArgMapper.Props.C18b"],
        "rule": "dij: >=2 edges and >=2 vertices reachable from the source.",
        "runs": {
            "quick": [fam("dij", 800, 7), fam("dij", 300, 7, "neg"), fam("dij", 100, 5, "huge"), fam("dij", 19683, 3, "exhaustive"), fam("dij", 48, 7, "conc")],
            "thorough": [fam("dij", 60000, 9), fam("dij", 20000, 12), fam("dij", 20000, 8, "neg"), fam("dij", 3000, 6, "huge"), fam("dij", 19683, 3, "exhaustive"), fam("dij", 1500, 8, "conc")],
        },
    },
    "C19": {
        "claim": "Refinement theorem: the heap-of-maps model of graph.go (aliasing between a graph and its reversed view, fresh maps on Copy) run on any history respecting AddEdge's precondition is observationally equal, on every live handle, to the plain adjacency specification. Tied to the code by differential histories over several live handles, comparing raw maps and the public observers after every few operations.",
        "note": "Go maps are modelled as association lists; panics on AddEdge with an absent endpoint are compared model-vs-code but outside the specification.",
        "theorems": ["ArgMapper.C19.spec_wf", "ArgMapper.C19.refines", "ArgMapper.C19.mirror", "ArgMapper.C19.reverse_reverse",
                     "ArgMapper.C19.copy_independent", "ArgMapper.C19.counterexample_reverse_nil",
                     "ArgMapper.C19.remove_removes_incident", "ArgMapper.C19.remove_keeps_others", "ArgMapper.C19.reverse_is_mirror",
                     "ArgMapper.C19.copy_starts_equal", "ArgMapper.C19.copy_independent_impl", "ArgMapper.C19.overwrite_keeps_edges"],
        "modules": ["ArgMapper.Props.C19", "ArgMapper.Props.C19b"],
        "facts": {"fixedReverse": "true"},
        "rule": "gops: >=4 operations and >=1 observation of all live handles.",
        "runs": {
            "quick": [fam("gops", 800, 4), fam("gops", 200, 6), fam("gops", 200, 4, "invalid")],
            "thorough": [fam("gops", 60000, 4), fam("gops", 30000, 8), fam("gops", 10000, 5, "invalid")],
        },
    },
    "C20": {
        "claim": "Theorems about the DFS, Kahn, Tarjan and topological shortest-path models for every representation (iteration) order; executable checkers for topological orders and SCC partitions proved sound and complete and applied to the real code's outputs on generated digraphs.",
        "note": "tarjan_exact: the Tarjan transcription returns exactly the mutual-reachability classes for every graph and every iteration order (the verified partition checker is still applied to the real code's outputs).",
        "theorems": ["ArgMapper.C20.dfs_exact", "ArgMapper.C20.dfs_sound_once", "ArgMapper.C20.dfs_abort",
                     "ArgMapper.C20.isTopoOrder_iff", "ArgMapper.C20.kahn_acyclic", "ArgMapper.C20.kahn_cyclic",
                     "ArgMapper.C20.reachB_iff", "ArgMapper.C20.isSccPartition_iff", "ArgMapper.C20.topo_exact", "ArgMapper.C20.tarjan_exact",
                     "ArgMapper.C20.kahn_sound", "ArgMapper.C20.kahn_iff", "ArgMapper.C20.kahn_pred_first", "ArgMapper.C20.explored_reach",
                     "ArgMapper.C20.dfs_reports_reachable", "ArgMapper.C20.dfs_all_reachable"],
        "modules": ["ArgMapper.Props.C20", "ArgMapper.Props.C20c"],
        "rule": "dfs/kahn/scc/topo: >=3 vertices and >=2 edges.",
        "runs": {
            "quick": [fam("dfs", 500, 7), fam("kahn", 400, 7), fam("scc", 400, 7), fam("topo", 400, 7), fam("dfs", 512, 3, "exhaustive"), fam("kahn", 512, 3, "exhaustive"), fam("scc", 512, 3, "exhaustive")],
            "thorough": [fam("dfs", 65536, 4, "exhaustive"), fam("kahn", 65536, 4, "exhaustive"), fam("scc", 65536, 4, "exhaustive"), fam("dfs", 40000, 10), fam("kahn", 30000, 10), fam("scc", 30000, 10), fam("topo", 30000, 10),
                         fam("dfs", 5000, 14), fam("scc", 5000, 14)],
        },
    },
    "C14": {
        "claim": "Theorems about the transcription of newValueSetFromStruct / newValueSet / NewFunc: reported values are exactly the exported non-marker fields in order (struct and pointer forms alike), one type-only value per position for positional forms, names lower-cased from tag or field, emptied by typeOnly, subtype from the tag, a final error result stripped, mixed and doubly-indirected marker structs rejected. Tied to the code by differential runs over function types synthesised with reflect (random tags incl. odd spellings, unexported fields, error positions, non-function values).",
        "note": "Tag strings are parsed by the model's parseTag, validated against the real parser on generated tags; reflect itself is modelled.",
        "theorems": ["ArgMapper.C14.struct_values", "ArgMapper.C14.field_label", "ArgMapper.C14.ptr_equiv", "ArgMapper.C14.positional_values", "ArgMapper.C14.error_stripped", "ArgMapper.C14.no_error_kept", "ArgMapper.C14.rejects_mix", "ArgMapper.C14.rejects_double_pointer"],
        "modules": ["ArgMapper.Props.C14"],
        "rule": "sig: at least one reported value.",
        "runs": {"quick": [fam("sig", 2500, 5)], "thorough": [fam("sig", 150000, 6), fam("sig", 50000, 3)]},
    },
    "C15": {
        "claim": "Theorems about NewValueSet (values reported back lower-cased in order, lookups by name / type / type+subtype under the stated uniqueness, signature render/load round trip). Tied to the code by differential runs over random value lists with provenance-carrying values; built functions inside conversion chains are exercised by the resolver families.",
        "note": "The struct-tag string round trip (hypothesis TagRoundTrips of the lookup theorems) is proved for every label whose subtype has no comma (tag_roundtrip, from splitOn_char: String.splitOn with a one-character separator is the split of the character list), hence for every label the validation of NewValueSet accepts (tagRoundTrips_of_ok, checked_values_roundtrip). Proof files TagStrings*.lean import two Batteries modules.",
        "theorems": ["ArgMapper.C15.values_roundtrip", "ArgMapper.C15.lookup_named", "ArgMapper.C15.lookup_typed", "ArgMapper.C15.lookup_typed_sub", "ArgMapper.C15.signature_roundtrip", "ArgMapper.C15.signature_positional_pre_repair", "ArgMapper.C15.splitOn_char", "ArgMapper.C15.tag_roundtrip", "ArgMapper.C15.tagRoundTrips_of_ok", "ArgMapper.C15.checked_rejects", "ArgMapper.C15.checked_values_roundtrip"],
        "modules": ["ArgMapper.Props.C15", "ArgMapper.Props.C15b"], "facts": {"vsetValidates": "true"},
        "rule": "vset: at least one value; sig: positional signatures.",
        "runs": {"quick": [fam("vset", 1500, 6), fam("sig", 1000, 5), fam("call", 500, 0, "general"), fam("hist", 400, 0), fam("result", 1000, 5)],
                 "thorough": [fam("vset", 100000, 6), fam("sig", 50000, 5), fam("call", 60000, 0, "general"), fam("hist", 30000, 0), fam("result", 50000, 5)]},
    },
    "C16": {
        "claim": "Theorems about the option builder: every key holds its last write, names are matched through lower-casing, call options override defaults, nil values write nothing, a nil option yields the dedicated error, permuting options with pairwise distinct keys leaves the maps unchanged. Tied to the code by comparing the real builder's four maps (hook VerifBuilder) with the model over random option lists with casings, duplicates, default/call splits and a random permutation. Spellings: named_empty_name, namedSub_empty_name, namedSub_empty_subtype, typedSub_empty_subtype, valueArg_eq_namedSub, valueSetArgs_build(For) — a value's own Arg() and a value set's Args() supply exactly NamedSubtype(name, value, subtype) per value, in order; the harness uses these spellings interchangeably.",
        "note": "strings.ToLower is modelled as ASCII lower-casing.",
        "theorems": ["ArgMapper.C16.last_wins", "ArgMapper.C16.build_ok", "ArgMapper.C16.nil_option", "ArgMapper.C16.nil_value_ignored", "ArgMapper.C16.case_insensitive", "ArgMapper.C16.lower_idem", "ArgMapper.C16.call_overrides_default", "ArgMapper.C16.permutation",
                     "ArgMapper.C16.named_empty_name", "ArgMapper.C16.namedSub_empty_name", "ArgMapper.C16.namedSub_empty_subtype",
                     "ArgMapper.C16.typedSub_empty_subtype", "ArgMapper.C16.valueArg_eq_namedSub", "ArgMapper.C16.valueSetArgs_build",
                     "ArgMapper.C16.valueSetArgs_buildFor"],
        "modules": ["ArgMapper.Props.C16"],
        "rule": "opts: at least one option.",
        "runs": {"quick": [fam("opts", 2000, 8), fam("redef", 300, 0), fam("call", 300, 0, "general"), fam("call", 300, 0, "malformed"), fam("call", 300, 0, "hopeless")], "thorough": [fam("opts", 100000, 10), fam("opts", 50000, 5), fam("redef", 20000, 0), fam("call", 20000, 0, "general"), fam("call", 20000, 0, "malformed"), fam("call", 20000, 0, "hopeless")]},
    },
    "C17": {
        "claim": "Theorems about Result.Len/Out/Err for any list of returned values with or without a final error, and for resolution failures. Tied to the code by differential runs over result arities 0-5 with error / concrete-error / value results in every position.",
        "note": "Static result types as reported by reflect are modelled by type ids.",
        "theorems": ["ArgMapper.C17.partition_err", "ArgMapper.C17.partition_plain", "ArgMapper.C17.resolution_failure"],
        "modules": ["ArgMapper.Props.C17"],
        "rule": "result: any scenario (arity 0 included).",
        "runs": {"quick": [fam("result", 2000, 5), fam("hist", 500, 0), fam("redef", 300, 0), fam("call", 400, 0, "malformed")], "thorough": [fam("result", 100000, 5), fam("hist", 40000, 0), fam("redef", 20000, 0), fam("call", 20000, 0, "malformed")]},
        "exhaustive": {"quick": False, "thorough": False},
    },
    "C01": {
        "claim": "Theorems: the matching table is closed under flow along the edge rules (flow_compat, needs ImplTrans and ImplAntisym); every edge of the graph callGraph builds is an instance of a rule (callGraph_edges); for every oracle and behaviour every executed function receives a full argument list whose members entered the graph at an origin vertex and flowed to the parameter vertex (call_args_flow); together: injection_sound_partial. Every executed function receives supplied or previously returned values whose origin label is compatible with the parameter under the matching table. Tied to the code by trace conformance: the real call graph, requirement order, Dijkstra pop orders, chosen paths, every argument list and the outcome are replayed through the model; the predicate is evaluated on the real trace with provenance ids. Values, not only labels, over whole histories (Model/Hist.lean): memo_from_history, no_fabrication_call, no_fabrication_hist(_shared) — every argument of every execution of every Call of a history of Calls and Redefines on shared function objects is a value that call was given or a value an execution of the history returned (hypotheses: the output value sets are well keyed, which newFunc guarantees, and bodies return one value per declared result; three kernel-checked counterexamples show both are needed).",
        "note": "reflect / hclog / user function bodies are modelled (arbitrary behaviours); twin interfaces (finding F14) excluded by hypothesis once proved.",
        "theorems": ["ArgMapper.C01.flow_compat", "ArgMapper.C01.callGraph_edges", "ArgMapper.C01.call_args_flow", "ArgMapper.C01.initSt_storeOK", "ArgMapper.C01.flow_ruleFlow", "ArgMapper.C01.callGraph_store_origin", "ArgMapper.C01.injection_sound_partial", "ArgMapper.C01.counterexample_twin_interfaces", "ArgMapper.C01.newFunc_keysOK", "ArgMapper.C01.callGraph_no_arg_root", "ArgMapper.C01.stdCtx_funcsOK", "ArgMapper.C01.injection_sound", "ArgMapper.C01.memo_from_history", "ArgMapper.C01.no_fabrication_call", "ArgMapper.C01.no_fabrication_hist", "ArgMapper.C01.no_fabrication_hist_shared", "ArgMapper.C01.stdCtx_keysOK", "ArgMapper.C01.hist_memoFull", "ArgMapper.C01.no_fabrication_call_original_false_set", "ArgMapper.C01.no_fabrication_call_original_false_cell", "ArgMapper.C01.no_fabrication_hist_original_false"],
        "facts": {"r5SkipSame": "true", "r6NameTest": "true", "publishAfterUpdate": "true", "trackReaching": "true", "takeValuedNamed": "true", "hopCopies": "true", "memoCopy": "true"},
        "rule": "call: at least one function executed, or an unsatisfied error with a converter present.",
        "runs": {"quick": [fam("call", 600, 0), fam("call", 200, 0, "gens"), fam("hist", 400, 0), fam("redef", 300, 0), fam("call", 30, 0, "twin"), fam("race", 40, 8, "40", bin="harness-race")], "thorough": [fam("call", 100000, 0), fam("call", 20000, 0, "gens"), fam("hist", 30000, 0), fam("redef", 20000, 0), fam("call", 300, 0, "twin"), fam("race", 600, 8, "50", bin="harness-race")]},
    },
    "C06": {
        "claim": "Theorems (any oracle, behaviour, state): reach_never_out_of_fuel / call_never_out_of_fuel (recursion depth bounded by the number of function vertices), no_elem_or_unknown_panic, malformed_options, counterexample_mutual_cycle_diverges (the unrepaired model diverges on the F3 input), generator_error_reported / generators_transparent / runGens_perm (converter generators: an error on any visited value aborts with an error for every iteration order; otherwise the graph is callGraph of the builder extended by the generated converters). No panic, crash or unbounded recursion on well-formed use. Decided on the model's explicit panic sites and fuel; real stack / reflect behaviour by crash-isolated exploration (worker restarted after a fatal stack overflow).",
        "note": "all modelled panic sites are proved unreachable (no_elem_or_unknown_panic for every oracle; no_walk_panic_partial_final_set for every legal oracle, full label language: neither the final-value panic nor reflect's Set panic); partial only in that real reflect / stack behaviour outside the model is covered by crash-isolated exploration.",
        "theorems": ["ArgMapper.C06.reach_never_out_of_fuel", "ArgMapper.C06.call_never_out_of_fuel", "ArgMapper.C06.counterexample_mutual_cycle_diverges", "ArgMapper.C06.no_elem_or_unknown_panic", "ArgMapper.C06.malformed_options", "ArgMapper.C06.ignored_options", "ArgMapper.C06.no_walk_panic", "ArgMapper.C06.no_walk_panic_partial_final_set", "ArgMapper.C06.no_walk_panic_partial_single_input", "ArgMapper.C05.no_walk_panic_any_oracle", "ArgMapper.C06.paramsKept_of_single", "ArgMapper.C06.counterexample_missing_arg", "ArgMapper.C06.generators_transparent", "ArgMapper.C06.no_generators", "ArgMapper.C06.generator_error_reported", "ArgMapper.C06.generated_sound_complete", "ArgMapper.C06.runGens_perm", "ArgMapper.C06.genVerts_kinds", "ArgMapper.C06.supplied_in_snapshot"],
        "facts": {"r5SkipSame": "true", "r6NameTest": "true", "publishAfterUpdate": "true", "trackReaching": "true", "takeValuedNamed": "true", "hopCopies": "true", "memoCopy": "true"},
        "rule": "call: at least one function executed, or an unsatisfied error with a converter present; sig: positional signatures.",
        "runs": {"quick": [fam("call", 800, 0), fam("call", 300, 0, "malformed"), fam("call", 300, 0, "gens"), fam("sig", 600, 5), fam("hist", 400, 0), fam("redef", 300, 0), fam("conv", 300, 0)],
                 "thorough": [fam("call", 200000, 0), fam("call", 20000, 0, "malformed"), fam("call", 30000, 0, "gens"), fam("sig", 50000, 5), fam("hist", 40000, 0), fam("redef", 30000, 0), fam("conv", 30000, 0)]},
    },
    "C02": {
        "claim": "Theorems: C02.refused (execution level, any oracle/behaviour/fuel: with an underivable parameter the target is never executed and the call does not succeed), C13.hopeless_reported / unsat_before_execution (graph level), C06.no_walk_panic (when every converter kept by pruning keeps all its parameter vertices the last-resort this-is-a-bug error is unreachable: the refusal is the dedicated unsatisfied-argument error). Unsatisfiable calls are refused: error returned, target never run, no converter run with a missing argument, dedicated error type when every converter is satisfiable. Tied to the code by trace conformance on scenarios with a hopeless / underivable parameter (dead types, AND-unreachable converters, cycles) and the predicate evaluated on the real trace against the executable derivability fixpoint.",
        "note": "derivability is computed under the matching table of C01 (a superset of what the library can match, so the premise is conservative).",
        "theorems": ["ArgMapper.C13.hopeless_reported", "ArgMapper.C13.unsat_before_execution", "ArgMapper.C13.exact_not_listed", "ArgMapper.C02.refused", "ArgMapper.C02.refused_original_false", "ArgMapper.C06.no_walk_panic"], "facts": {"r5SkipSame": "true", "r6NameTest": "true", "publishAfterUpdate": "true", "trackReaching": "true", "takeValuedNamed": "true", "hopCopies": "true", "memoCopy": "true"},
        "rule": "call: at least one function executed, or an unsatisfied error with a converter present.",
        "runs": {"quick": [fam("call", 500, 0, "hopeless"), fam("call", 300, 0, "general"), fam("call", 150, 0, "gens"), fam("hist", 400, 0), fam("call", 30, 0, "twin")],
                 "thorough": [fam("call", 60000, 0, "hopeless"), fam("call", 40000, 0, "general"), fam("call", 10000, 0, "gens"), fam("hist", 30000, 0), fam("call", 300, 0, "twin")]},
    },
    "C03": {
        "claim": "Theorems: exact_wins_named (any oracle) and exact_wins (every legal Dijkstra oracle; uses C18.dist_exact and the weighted edge characterisation regenerated from graph.go): with an exactly matching supplied value for every parameter only the target executes and each parameter receives its exact value. Exact matches win: with an exactly matching supplied value for every parameter no converter runs and each parameter receives that value, whatever distractors are supplied. Tied to the code by trace conformance on the exact+distractors family (5 repetitions per scenario for tie-breaking) and the predicate on real traces.",
        "note": "", "theorems": ["ArgMapper.C03.exact_wins_named", "ArgMapper.C03.exact_wins", "ArgMapper.C03.sameInputs_of_consistent", "ArgMapper.C03.namedOK_of_build", "ArgMapper.C03.builderOK_of_build", "ArgMapper.C03.counterexample_duplicate_key", "ArgMapper.C03.counterexample_same_key", "ArgMapper.C03.counterexample_typed_key"], "facts": {"r5SkipSame": "true", "r6NameTest": "true", "publishAfterUpdate": "true", "trackReaching": "true", "takeValuedNamed": "true", "hopCopies": "true", "memoCopy": "true"},
        "rule": "call: any scenario of the family (the target always executes).",
        "runs": {"quick": [fam("call", 500, 0, "exact"), fam("call", 200, 0, "general"), fam("hist", 400, 0)],
                 "thorough": [fam("call", 100000, 0, "exact"), fam("call", 20000, 0, "general"), fam("hist", 30000, 0)]},
    },
    "C04": {
        "claim": "Theorems (for every graph, oracle, behaviour and fuel): a failing execution is the last execution of the call and its error is what Call returns; a successful call executed no failing function; the target's own error is reported by the accessor. Tied to the code by trace conformance on chains with failing converters at every depth (multi-input, struct-returning, memoised) with error identity checked through provenance ids.",
        "note": "", "theorems": ["ArgMapper.C04.failing_execution_is_last", "ArgMapper.C04.ok_means_no_failure", "ArgMapper.C04.target_error_reported", "ArgMapper.C04.conv_error_verbatim", "ArgMapper.C04.conv_error_from_history", "ArgMapper.C04.failing_execution_is_last_hist", "ArgMapper.C04.ok_means_no_failure_hist"], "facts": {"r5SkipSame": "true", "r6NameTest": "true", "publishAfterUpdate": "true", "trackReaching": "true", "takeValuedNamed": "true", "hopCopies": "true", "memoCopy": "true"},
        "rule": "call: at least one function executed.",
        "runs": {"quick": [fam("call", 500, 0, "fail"), fam("call", 200, 0, "general"), fam("call", 150, 0, "gens"), fam("redef", 300, 0), fam("hist", 500, 0), fam("result", 800, 5), fam("race", 40, 8, "25f", bin="harness-race")],
                 "thorough": [fam("call", 50000, 0, "fail"), fam("call", 20000, 0, "general"), fam("call", 10000, 0, "gens"), fam("redef", 20000, 0), fam("hist", 30000, 0), fam("result", 30000, 5), fam("race", 800, 8, "40f", bin="harness-race")]},
    },
    "C05": {
        "claim": "Theorems for the subtype-free fragment, every oracle: complete_single (single-input converters, cycles allowed: once callGraph finds every parameter reachable the call ends in success or in a function body's own error) stable (the outcome class does not depend on the oracle) and complete_acyclic (clause (b): any number of inputs per converter, the pruned graph acyclic and every surviving converter with all its requirements in the graph). With the full label language (names, subtypes, interfaces) and every legal oracle: complete_single_legal (single-input converters, arbitrary cycles — true of the repaired walk only: counterexample_single_legal is the pre-repair model refusing a satisfiable call, finding F22) and complete_acyclic_legal. Chaining is complete and the outcome stable on well-behaved converter sets. Tied to the code by trace conformance on acyclic-satisfiable and single-input-cyclic families, 8 repetitions per scenario; completeness is judged against the matching table, with the table-but-not-library matches (gaps G1-G5) listed as known findings.",
        "note": "", "theorems": ["ArgMapper.C05.complete_single", "ArgMapper.C05.stable", "ArgMapper.C05.newFunc_setsWF", "ArgMapper.C05.counterexample_duplicate_named_key", "ArgMapper.C05.counterexample_values_without_struct", "ArgMapper.C05.complete_acyclic", "ArgMapper.C05.complete_single_legal", "ArgMapper.C05.complete_acyclic_legal", "ArgMapper.C05.complete_single_legal_partial_no_r6", "ArgMapper.C05.counterexample_single_legal", "ArgMapper.C05.counterexample_single_legal_repaired", "ArgMapper.C05.complete_single_any_oracle", "ArgMapper.C05.stable_any_oracle", "ArgMapper.C13.ruleFlow_iff_lib", "ArgMapper.C13.gaps_classified"], "facts": {"r5SkipSame": "true", "r6NameTest": "true", "publishAfterUpdate": "true", "trackReaching": "true", "takeValuedNamed": "true", "hopCopies": "true", "memoCopy": "true"},
        "rule": "call: at least one function executed, or an unsatisfied error with a converter present.",
        "runs": {"quick": [fam("call", 300, 0, "single"), fam("call", 300, 0, "acyclic"), fam("call", 150, 0, "gens"), fam("hist", 400, 0), fam("sig", 600, 5), fam("dij", 300, 7), fam("dij", 100, 5, "huge")],
                 "thorough": [fam("call", 30000, 0, "single"), fam("call", 30000, 0, "acyclic"), fam("call", 10000, 0, "gens"), fam("hist", 30000, 0), fam("sig", 30000, 5), fam("dij", 20000, 9), fam("dij", 3000, 6, "huge")]},
    },
    "C07": {
        "claim": "Theorems (any legal complete pop order, negative weights allowed): feeder_pred / branch_pred / branch_pred_long (Dijkstra level), affinity_path / named_converter_path / named_converter_path' (the path chosen on the re-weighted reversed copy enters the converter's type-only input from the same-named supplied value; reaches the parameter through the name-using converter), walk_converts_feeder / walk_runs_named_converter (walking such a path executes the converter once, on the same-named value). Name affinity decides between equal candidates. The theorems' premises famA / famB / famB' are decidable and evaluated on the real pruned graph of every scenario (distribution key prem=). Tied to the code by trace conformance on the two documented families (1-6 competing same-typed inputs; type-only vs name-using converter; all forms; shuffled registration order; 10 repetitions).",
        "note": "the path theorems are stated for the two documented shapes (feeders hanging off the root only; two converters fed by one supplied value); graphs outside those shapes are decided by conformance and the predicate on the trace.",
        "theorems": ["ArgMapper.C07.feeder_pred", "ArgMapper.C07.branch_pred", "ArgMapper.C07.branch_pred_long",
                     "ArgMapper.C07.affinity_path", "ArgMapper.C07.named_converter_path", "ArgMapper.C07.named_converter_path'",
                     "ArgMapper.C07.walk_converts_feeder", "ArgMapper.C07.walk_runs_named_converter"],
        "facts": {"r5SkipSame": "true", "r6NameTest": "true", "publishAfterUpdate": "true", "trackReaching": "true", "takeValuedNamed": "true", "hopCopies": "true", "memoCopy": "true"},
        "rule": "call: the converter executed.",
        "runs": {"quick": [fam("call", 250, 0, "affinity"), fam("redef", 300, 0)], "thorough": [fam("call", 20000, 0, "affinity"), fam("redef", 20000, 0)]},
    },
    "C13": {
        "claim": "Theorems: hopeless_reported (uses the verified DFS model, the edge characterisation and flow_compat), unsat_are_parameters, exact_not_listed, inputs_are_supplied, unsat_before_execution. The unsatisfied-argument error lists the hopeless parameter, only underivable parameters, exactly the supplied values, every supplied converter, and its message mentions each missing argument. Tied to the code by comparing the structured error fields (errors.As) of the real code with the model on scenarios with a hopeless parameter. The message: message_mentions_missing / _input / _converter about the model of Error() (Model/ErrMsg.lean), tied to the real text by counting, for every entry the model lists, the lines of the real message that end with it.",
        "note": "", "theorems": ["ArgMapper.C13.hopeless_reported", "ArgMapper.C13.unsat_before_execution", "ArgMapper.C13.unsat_are_parameters", "ArgMapper.C13.exact_not_listed", "ArgMapper.C13.inputs_are_supplied", "ArgMapper.C13.ruleFlow_iff_lib", "ArgMapper.C13.gaps_classified", "ArgMapper.C13.message_mentions_missing", "ArgMapper.C13.message_mentions_input", "ArgMapper.C13.message_mentions_converter"], "facts": {"r5SkipSame": "true", "r6NameTest": "true", "publishAfterUpdate": "true", "trackReaching": "true", "takeValuedNamed": "true", "hopCopies": "true", "memoCopy": "true"},
        "rule": "call: an unsatisfied error with a converter present, or a function executed.",
        "runs": {"quick": [fam("call", 600, 0, "hopeless"), fam("hist", 400, 0), fam("call", 30, 0, "twin")], "thorough": [fam("call", 50000, 0, "hopeless"), fam("hist", 30000, 0), fam("call", 300, 0, "twin")]},
    },
    "C08": {
        "claim": "Theorems: inputs_filtered_fresh (every declared input passes the input filter and is not a supplied vertex, any oracle), output_filter, succeeds_when_permitted (subtype-free single-input fragment, any oracle: every parameter permitted and outputs admitted => the planning run succeeds), callable_graph / callable (same fragment: the call the redefined function makes is never refused for lack of an argument; two counterexamples to the statements without the one-type-per-name / lower-case-name hypotheses), inputSet_root_adjacent, root_adjacent_supplied_or_permitted. Redefine yields a function over exactly the missing, permitted inputs. Tied to the code by replaying the planning run (redefine-mode reachTarget with zero-producing stand-ins) through the model: call graph with filter-gated root edges, requirement order, pop orders, paths and the declared input set are compared; the redefined function is then called and the inner Call is replayed as an ordinary call with the extra values. Filter combinators: evalAny_iff, evalAll_iff, or_nil, and_nil, and_singleton, or_singleton, and_or_or, or_of_singleton_ands; the Redefine family replays both filters with the nesting the harness builds (empty and nested combinators included).",
        "note": "premise of the property: single-input converters, no subtypes, one type per name (the generator respects it).",
        "theorems": ["ArgMapper.C08.succeeds_when_permitted", "ArgMapper.C08.callable_graph", "ArgMapper.C08.callable", "ArgMapper.C08.newFunc_lowerNames", "ArgMapper.C08.counterexample_upper_case_name", "ArgMapper.C08.counterexample_name_with_two_types", "ArgMapper.C08.inputs_filtered_fresh", "ArgMapper.C08.declared_not_supplied", "ArgMapper.C08.output_filter", "ArgMapper.C08.inputSet_root_adjacent", "ArgMapper.C08.root_adjacent_supplied_or_permitted", "ArgMapper.C08.evalAny_iff", "ArgMapper.C08.evalAll_iff", "ArgMapper.C08.or_nil", "ArgMapper.C08.and_nil", "ArgMapper.C08.and_singleton", "ArgMapper.C08.or_singleton", "ArgMapper.C08.and_or_or", "ArgMapper.C08.or_of_singleton_ands"], "facts": {"r5SkipSame": "true", "r6NameTest": "true", "publishAfterUpdate": "true", "trackReaching": "true", "takeValuedNamed": "true", "hopCopies": "true", "memoCopy": "true", "r8SkipSupplied": "true", "skipRecordsInput": "false", "dupIsError": "true", "onceLockCoversCall": "true"},
        "rule": "redef: any planning run; call: at least one function executed.",
        "runs": {"quick": [fam("redef", 500, 0)], "thorough": [fam("redef", 40000, 0)]},
    },
    "C09": {
        "claim": "Theorems over the history model (Model/Hist.lean: Call and Redefine on shared function objects, run-once cells and execution counts threaded): redefines_transparent (refinement: a history shows in every Call, and leaves on the function objects, exactly what the same history without its Redefines does), redefines_keep_memo / call_after_redefines (a run-once function that has not run still runs, once, on its first real use), redefine_ignores_original_behaviour (no original body takes part in planning). The model's Redefine hands back no state by construction; that the code agrees is the correspondence: execution counters and snapshots of every function object's value sets around every real Redefine, histories interleaving filtered and unfiltered Redefine, direct calls, calls with options left out and calls through the redefined function, replayed through histCall / histRedefine with the memo cells threaded.",
        "note": "converter generators (user code run while the graph is built) are outside the statement.",
        "theorems": ["ArgMapper.C09.redefine_ignores_original_behaviour", "ArgMapper.C09.redefine_deterministic", "ArgMapper.C09.redefine_keeps_state", "ArgMapper.C09.redefines_transparent", "ArgMapper.C09.redefines_keep_memo", "ArgMapper.C09.call_after_redefines"], "facts": {"r5SkipSame": "true", "r6NameTest": "true", "publishAfterUpdate": "true", "trackReaching": "true", "takeValuedNamed": "true", "hopCopies": "true", "memoCopy": "true", "r8SkipSupplied": "true", "skipRecordsInput": "false", "dupIsError": "true", "onceLockCoversCall": "true"},
        "rule": "redef: any planning run.",
        "runs": {"quick": [fam("redef", 900, 0), fam("hist", 500, 0), fam("redefgen", 60, 0)],
                 "thorough": [fam("redef", 30000, 0), fam("hist", 40000, 0), fam("redefgen", 3000, 0)]},
    },
    "C10": {
        "claim": "Theorems: convert_is_call, convert_failure, identity_shape, identity_error_shape, converted_value_is_injected (in the model Convert is callWith on the identity FuncDesc). Convert agrees with calling an identity function of the target type. In the model Convert *is* callWith on the identity FuncDesc; tied to the code by running, per scenario, the real Convert and the real Call on a harness-built func(T) T with the same options, replaying both through the model (targets: concrete, interface, error, pointer types; a user converter of the identity's own Go type included).",
        "note": "the library's own identity closure cannot be instrumented: its behaviour (returns its argument) is assumed in the replay of Convert runs.",
        "theorems": ["ArgMapper.C10.convert_is_call", "ArgMapper.C10.convert_failure", "ArgMapper.C10.identity_shape", "ArgMapper.C10.identity_error_shape", "ArgMapper.C10.converted_value_is_injected"], "facts": {"r5SkipSame": "true", "r6NameTest": "true", "publishAfterUpdate": "true", "trackReaching": "true", "takeValuedNamed": "true", "hopCopies": "true", "memoCopy": "true", "r8SkipSupplied": "true", "skipRecordsInput": "false", "dupIsError": "true", "onceLockCoversCall": "true"},
        "rule": "conv: at least one function executed, or an unsatisfied error with a converter present.",
        "runs": {"quick": [fam("conv", 500, 0), fam("convseq", 60, 0), fam("race", 40, 8, "25", bin="harness-race")], "thorough": [fam("conv", 50000, 0), fam("convseq", 2000, 0), fam("race", 500, 8, "40", bin="harness-race")]},
    },
    "C11": {
        "claim": "Theorems: once_at_most_once and first_result_kept over any history of calls; memo_hit; reuse_never_panics; the concurrent protocol theorem C12.once_concurrent (any number of threads, any schedule). A run-once function executes at most once over any history and later uses see the first result. Sequential part: histories of Call / Redefine on shared function objects are replayed through the model with the memo cells threaded, and the number of executions per run-once function is counted on the real trace. Concurrent part: see DESIGN.md (race-detector stress; not yet registered). With Redefines interleaved (history model): once_at_most_once_hist, first_result_kept_hist, not_run_no_memo.",
        "note": "partial: the concurrent clause is decided by exploration under the race detector.",
        "theorems": ["ArgMapper.C11.once_at_most_once", "ArgMapper.C11.first_result_kept", "ArgMapper.C11.memo_hit", "ArgMapper.C11.reuse_never_panics", "ArgMapper.C11.counterexample_ptr_result", "ArgMapper.C12.once_concurrent", "ArgMapper.C12.lock_holder_progresses", "ArgMapper.C12.counterexample_two_first_uses", "ArgMapper.C11.once_at_most_once_hist", "ArgMapper.C11.first_result_kept_hist", "ArgMapper.C11.not_run_no_memo"], "facts": {"r5SkipSame": "true", "r6NameTest": "true", "publishAfterUpdate": "true", "trackReaching": "true", "takeValuedNamed": "true", "hopCopies": "true", "memoCopy": "true", "r8SkipSupplied": "true", "skipRecordsInput": "false", "dupIsError": "true", "onceLockCoversCall": "true"},
        "rule": "hist: a run-once function was needed at least once.",
        "runs": {"quick": [fam("hist", 800, 0), fam("redef", 300, 0), fam("race", 60, 4, "20", bin="harness-race")],
                 "thorough": [fam("hist", 60000, 0), fam("redef", 20000, 0), fam("race", 2000, 8, "60", bin="harness-race"), fam("race", 500, 16, "40", bin="harness-race")]},
    },
    "C12": {
        "claim": "Theorems: lock discipline implies no data race (guarded_race_free); the table of accesses to state outliving a call, regenerated from the sources on every run, obeys it (effects_guarded, by evaluation); the run-once protocol executes the body at most once for every schedule (once_concurrent). Functions, converters and options can be shared by concurrent calls. Decided by exploration under the Go race detector: goroutines Call / Convert / Redefine with one shared target, shared converter objects (run-once ones included) and one shared option slice built from every option constructor; any race report is a violation, and every concurrent outcome must be one a sequential run of the same call produced.",
        "note": "partial: schedules are sampled by the Go scheduler, not enumerated; the lock-discipline theorem over the extracted effects table is the proof-side obligation (DESIGN.md C12).",
        "theorems": ["ArgMapper.C12.guarded_race_free", "ArgMapper.C12.effects_guarded", "ArgMapper.C12.C12_race_free", "ArgMapper.C12.counterexample_two_first_uses", "ArgMapper.C12.once_concurrent"], "facts": {"r5SkipSame": "true", "r6NameTest": "true", "publishAfterUpdate": "true", "trackReaching": "true", "takeValuedNamed": "true", "hopCopies": "true", "memoCopy": "true", "r8SkipSupplied": "true", "skipRecordsInput": "false", "dupIsError": "true", "onceLockCoversCall": "true"},
        "rule": "race: every scenario (>= 4 goroutines x >= 20 rounds of Call/Convert/Redefine on shared objects).",
        "runs": {"quick": [fam("race", 80, 4, "25", bin="harness-race"), fam("dij", 24, 7, "conc", bin="harness-race")],
                 "thorough": [fam("race", 3000, 8, "60", bin="harness-race"), fam("race", 600, 16, "50", bin="harness-race")]},
    },
}
