"""Per-property configuration for bin/check: theorems to audit (proof obligations), scenario
families to run on the real code per tier, and what counts as a non-trivial scenario."""

RULE = ("Scenarios come from the harness generators (one splitmix64 PRNG per scenario, forked from VERIF_SEED); "
        "distinct = distinct hash of the scenario-definition lines (implementation answers excluded); "
        "non-trivial per kind: ")

DIST_KEYS = {"cyclic", "abort", "small", "outcome", "form", "depth", "rules", "palette", "class"}


def nontrivial(kind, st, r):
    g = lambda k, d=0: int(st.get(k, d)) if str(st.get(k, d)).lstrip("-").isdigit() else d
    if kind == "gops":
        return g("ops") >= 4 and g("obs") >= 1
    if kind == "dij":
        return g("m") >= 2 and g("reach") >= 2
    if kind in ("dfs", "kahn", "scc", "topo"):
        return g("n") >= 3 and g("m") >= 2
    if kind in ("sig", "vset", "opts", "result"):
        return g("size", 1) >= 1
    if kind in ("call", "redef", "conv", "hist"):
        return g("execs") >= 1 or (st.get("outcome") == "unsat" and g("convs") >= 1)
    return True


def fam(name, n, size, opt="", **kw):
    d = {"n": n, "size": size, "opt": opt}
    d.update(kw)
    return (name, d)


PROPS = {
    "C18": {
        "claim": "Theorems about the Dijkstra model (replaying any legal pop order, int32 wrap included): predecessor chains are real paths for all weights; exact distances and tight paths for non-negative weights without int32 overflow; unreachable chains never reach the source. Tied to the code by replaying the hooked pop order of the real Dijkstra on generated digraphs and comparing distances, predecessors and EdgeToPath, and by checking the real outputs against an independent Bellman-Ford.",
        "note": "Proved for every legal pop order (superset of what container/heap can produce); container/heap itself is modelled, not verified. Overflow (weights >= 2^31) is excluded by hypothesis and is a listed known finding.",
        "theorems": [],
        "modules": ["ArgMapper.Props.C18"],
        "rule": "dij: >=2 edges and >=2 vertices reachable from the source.",
        "runs": {
            "quick": [fam("dij", 800, 7), fam("dij", 300, 7, "neg"), fam("dij", 100, 5, "huge")],
            "thorough": [fam("dij", 60000, 9), fam("dij", 20000, 12), fam("dij", 20000, 8, "neg"), fam("dij", 3000, 6, "huge")],
        },
    },
    "C19": {
        "claim": "Refinement theorem: the heap-of-maps model of graph.go (aliasing between a graph and its reversed view, fresh maps on Copy) run on any history respecting AddEdge's precondition is observationally equal, on every live handle, to the plain adjacency specification. Tied to the code by differential histories over several live handles, comparing raw maps and the public observers after every few operations.",
        "note": "Go maps are modelled as association lists; panics on AddEdge with an absent endpoint are compared model-vs-code but outside the specification.",
        "theorems": [],
        "modules": ["ArgMapper.Props.C19"],
        "facts": {"fixedReverse": "true"},
        "rule": "gops: >=4 operations and >=1 observation of all live handles.",
        "runs": {
            "quick": [fam("gops", 800, 4), fam("gops", 200, 6), fam("gops", 200, 4, "invalid")],
            "thorough": [fam("gops", 60000, 4), fam("gops", 30000, 8), fam("gops", 10000, 5, "invalid")],
        },
    },
    "C20": {
        "claim": "Theorems about the DFS, Kahn, Tarjan and topological shortest-path models for every representation (iteration) order; executable checkers for topological orders and SCC partitions proved sound and complete and applied to the real code's outputs on generated digraphs.",
        "note": "Exactness of the Tarjan transcription is decided through the verified partition checker applied to model and code outputs (partial; see DESIGN.md §10).",
        "theorems": [],
        "modules": ["ArgMapper.Props.C20"],
        "rule": "dfs/kahn/scc/topo: >=3 vertices and >=2 edges.",
        "runs": {
            "quick": [fam("dfs", 500, 7), fam("kahn", 400, 7), fam("scc", 400, 7), fam("topo", 400, 7)],
            "thorough": [fam("dfs", 40000, 10), fam("kahn", 30000, 10), fam("scc", 30000, 10), fam("topo", 30000, 10),
                         fam("dfs", 5000, 14), fam("scc", 5000, 14)],
        },
    },
}
